import XpmVerif.Properties.C02
import XpmVerif.Proofs.ArgDecl
/-! C02 on *declarations*: "Meta/Option parameters, Path-typed parameters, generated values, parameters set to their
    default and unset optionals are outside the signature" is stated in the documentation on what the user writes in the
    class body.  `ArgDecl.mkArg` derives the flags of `Argument` from such a declaration with the decision functions
    regenerated from `core/arguments.py` / `core/types.py` / `generators.py` (`Generated/ArgFlags.lean`; source obligations
    in Proofs/ArgDecl.lean); the theorems below compose it with the skip rules of `HashComputer` (Properties/C02.lean). -/
namespace XpmVerif.C02
open XpmVerif.Ident XpmVerif.ArgDecl List

/-- **the declaration forms the documentation excludes from the signature**, with the value the configuration holds:
    `Meta[T]` / `Option[T]` and `Path`-typed parameters whatever their value (a configuration forced in with `meta = False`
    excepted), generated values (`pathgenerator`, `field(default_factory=…)`) whatever their value, a parameter with a default
    whose value is that default (`_is_default`), an `Optional` parameter without default left unset. -/
inductive Silent (mt : Nat → Option Bool) : Decl → Val → Prop
  | metaOption {d v} : d.kind = .metaParam ∨ d.kind = .option → (∀ n, v = .ref n → mt n ≠ some false) → Silent mt d v
  | pathTyped {d v} : d.ty = .path → (∀ n, v = .ref n → mt n ≠ some false) → Silent mt d v
  | generated {d v} : d.kind = .pathgen ∨ d.kind = .factory ∨ d.attr = .fieldFactory → Silent mt d v
  | atDefault {d v} (dv : Val) : d.kind = .param ∨ d.kind = .metaParam ∨ d.kind = .option →
      d.attr = .value dv ∨ d.attr = .fieldValue dv → (∀ ceq, isDefault ceq mt dv (removeMeta mt v) = true) → Silent mt d v
  | unsetOptional {d} : d.kind = .param ∨ d.kind = .metaParam ∨ d.kind = .option → d.optional = true → d.attr = .absent →
      Silent mt d .none

/-- **Meta / Option declarations**: `x: Meta[T]` (or `Option[T]`), with or without default, `Optional` or not — whatever
    value the configuration holds for `x`, the parameter contributes nothing to the hashed stream. -/
theorem meta_option_declaration_neutral (cfg : Nat → List Nat) (ceq : Nat → Nat → Bool) (mt : Nat → Option Bool)
    (d : Decl) (v : Val) (a : Arg) (hk : d.kind = .metaParam ∨ d.kind = .option) (ha : d.toArg v = some a)
    (hv : ∀ n, v = .ref n → mt n ≠ some false) : argStream cfg ceq mt a = [] := by
  simp only [Decl.toArg, Option.map_eq_some_iff] at ha
  obtain ⟨a0, h0, rfl⟩ := ha
  exact ignored_parameter_neutral cfg ceq mt _ (mkArg_meta_option d a0 hk h0) hv

/-- **Path-typed declarations** (`x: Param[Path]`, `Annotated[Path, …]`): `PathType.ignore` makes the parameter ignored
    whatever the annotation. -/
theorem path_declaration_neutral (cfg : Nat → List Nat) (ceq : Nat → Nat → Bool) (mt : Nat → Option Bool)
    (d : Decl) (v : Val) (a : Arg) (ht : d.ty = .path) (ha : d.toArg v = some a)
    (hv : ∀ n, v = .ref n → mt n ≠ some false) : argStream cfg ceq mt a = [] := by
  simp only [Decl.toArg, Option.map_eq_some_iff] at ha
  obtain ⟨a0, h0, rfl⟩ := ha
  exact ignored_parameter_neutral cfg ceq mt _ (mkArg_path d a0 ht h0) hv

/-- **generated values** (`Annotated[Path, pathgenerator(…)]`, `= field(default_factory=…)`): the value written at sealing
    time — any value — contributes nothing. -/
theorem generated_declaration_neutral (cfg : Nat → List Nat) (ceq : Nat → Nat → Bool) (mt : Nat → Option Bool)
    (d : Decl) (v : Val) (a : Arg) (hk : d.kind = .pathgen ∨ d.kind = .factory ∨ d.attr = .fieldFactory)
    (ha : d.toArg v = some a) : argStream cfg ceq mt a = [] := by
  simp only [Decl.toArg, Option.map_eq_some_iff] at ha
  obtain ⟨a0, h0, rfl⟩ := ha
  exact generated_parameter_neutral cfg ceq mt _ (mkArg_generated d a0 hk h0)

/-- **a declared default, value equal to it** (`x: Param[T] = dv`, also `= field(default=dv)`; `_is_default` after removing
    meta members): nothing is contributed, whether the user wrote `x=dv` or left `x` out (the constructor then stores `dv`). -/
theorem defaulted_declaration_neutral (cfg : Nat → List Nat) (ceq : Nat → Nat → Bool) (mt : Nat → Option Bool)
    (d : Decl) (dv v : Val) (a : Arg) (hk : d.kind = .param ∨ d.kind = .metaParam ∨ d.kind = .option)
    (hd : d.attr = .value dv ∨ d.attr = .fieldValue dv) (ha : d.toArg v = some a)
    (he : isDefault ceq mt dv (removeMeta mt v) = true) : argStream cfg ceq mt a = [] := by
  obtain ⟨a0, h0, hc, _, _, hdf⟩ := mkArg_defaulted d dv hk hd
  simp only [Decl.toArg, h0, Option.map_some, Option.some.injEq] at ha
  subst ha
  exact default_valued_parameter_neutral cfg ceq mt _ dv hc hdf he

/-- **an `Optional` declaration without default, left unset**. -/
theorem unset_optional_declaration_neutral (cfg : Nat → List Nat) (ceq : Nat → Nat → Bool) (mt : Nat → Option Bool)
    (d : Decl) (a : Arg) (hk : d.kind = .param ∨ d.kind = .metaParam ∨ d.kind = .option)
    (ho : d.optional = true) (hd : d.attr = .absent) (ha : d.toArg .none = some a) : argStream cfg ceq mt a = [] := by
  obtain ⟨a0, h0, hc, hr, _, hdf⟩ := mkArg_optional d hk ho hd
  simp only [Decl.toArg, h0, Option.map_some, Option.some.injEq] at ha
  subst ha
  exact unset_optional_neutral cfg ceq mt _ hc hr hdf rfl

/-- the five statements together: a silent declaration/value pair contributes nothing. -/
theorem silent_contributes_nothing (cfg : Nat → List Nat) (ceq : Nat → Nat → Bool) (mt : Nat → Option Bool)
    (d : Decl) (v : Val) (a : Arg) (hs : Silent mt d v) (ha : d.toArg v = some a) : argStream cfg ceq mt a = [] := by
  cases hs with
  | metaOption hk hv => exact meta_option_declaration_neutral cfg ceq mt d v a hk ha hv
  | pathTyped ht hv => exact path_declaration_neutral cfg ceq mt d v a ht ha hv
  | generated hk => exact generated_declaration_neutral cfg ceq mt d v a hk ha
  | atDefault dv hk hd he => exact defaulted_declaration_neutral cfg ceq mt d dv v a hk hd ha (he ceq)
  | unsetOptional hk ho hd => exact unset_optional_declaration_neutral cfg ceq mt d a hk ho hd ha

/-- **the converse for a plain required parameter**: `x: Param[T]` (not `Optional`, no default, `T` not `Path`) always
    contributes its name and value unless the value is a configuration flagged `meta = True` — the flags derived from the
    declaration do not make the model ignore what the documentation counts in. -/
theorem required_declaration_contributes (cfg : Nat → List Nat) (ceq : Nat → Nat → Bool) (mt : Nat → Option Bool)
    (d : Decl) (v : Val) (a : Arg) (hk : d.kind = .param) (ho : d.optional = false) (hd : d.attr = .absent)
    (ht : d.ty ≠ .path) (hv : ∀ n, v = .ref n → mt n ≠ some true) (ha : d.toArg v = some a) :
    argStream cfg ceq mt a = 3 :: d.name ++ 5 :: encVal cfg mt v := by
  have hp : (d.ty == TyTag.path) = false := by simpa using ht
  simp only [Decl.toArg, mkArg_required d hk ho hd, Option.map_some, Option.some.injEq] at ha
  subst ha
  cases v <;> simp [argStream, included, ignoredOut, defaultOut, metaOut, hp]
  rename_i n
  exact hv n rfl

/-- argument lists of two configurations of the same class (the same declarations, position by position) whose values
    differ only where both are silent. -/
inductive DeclRel (mt : Nat → Option Bool) : List Arg → List Arg → Prop
  | nil : DeclRel mt [] []
  | cons {d : Decl} {v v' : Val} {a a' : Arg} {l l' : List Arg} : d.toArg v = some a → d.toArg v' = some a' →
      (v = v' ∨ (Silent mt d v ∧ Silent mt d v')) → DeclRel mt l l' → DeclRel mt (a :: l) (a' :: l')

theorem DeclRel.argsRel {mt : Nat → Option Bool} {l l' : List Arg} (h : DeclRel mt l l') (cfg : Nat → List Nat) (ceq : Nat → Nat → Bool) :
    ArgsRel cfg ceq mt mt l l' := by
  induction h with
  | nil => exact .nil
  | @cons d v v' a a' l l' ha ha' hv _ ih =>
    have hn : a.name = a'.name := by
      simp only [Decl.toArg, Option.map_eq_some_iff] at ha ha'
      obtain ⟨a0, h0, rfl⟩ := ha
      obtain ⟨a1, h1, rfl⟩ := ha'
      rw [h0] at h1; cases h1; rfl
    refine .cons hn ?_ ih
    rcases hv with rfl | ⟨hs, hs'⟩
    · rw [ha] at ha'; cases ha'; rfl
    · rw [silent_contributes_nothing cfg ceq mt d v a hs ha, silent_contributes_nothing cfg ceq mt d v' a' hs' ha']

/-- **at any node and depth, on declarations.**  Two graphs of configurations of the same classes (same type identifiers,
    tasks, meta flags; arguments built from the same declarations) that differ only in the values of silent
    declaration/value pairs — a `Meta`/`Option`/`Path` value changed, a generated value written, a default spelled out or
    left out, an optional left unset — give every node the same raw identifier, for every hash function. -/
theorem declared_neutral_edits_any_depth {D : Type} (hc : HC D) (g g' : Graph) (hs : g.size = g'.size) (hm : g.mt = g'.mt)
    (h : ∀ n, (g.node n).typeId = (g'.node n).typeId ∧ (g.node n).task = (g'.node n).task ∧
          DeclRel g.mt (g.node n).args (g'.node n).args) (n : Nat) :
    rawId hc g n = rawId hc g' n :=
  neutral_edits_any_depth hc g g' hs hm
    (fun k => ⟨(h k).1, (h k).2.1, fun cfg ceq => hm ▸ (h k).2.2.argsRel cfg ceq⟩) n

/-- … and the same full identifier when, moreover, the collected pre-tasks and the init tasks are the same. -/
theorem declared_neutral_edits_full {D : Type} (hc : HC D) (g g' : Graph) (hs : g.size = g'.size) (hm : g.mt = g'.mt)
    (h : ∀ n, (g.node n).typeId = (g'.node n).typeId ∧ (g.node n).task = (g'.node n).task ∧
          DeclRel g.mt (g.node n).args (g'.node n).args) (n : Nat)
    (hp : collectPreTasks g n = collectPreTasks g' n) (hi : (g.node n).initTasks = (g'.node n).initTasks) :
    fullId hc g n = fullId hc g' n :=
  full_identifier_congruence hc g g' (declared_neutral_edits_any_depth hc g g' hs hm h) n hp hi

/-- **adding a declaration to a class**: when every configuration of the class gets, for the new declaration, a silent value
    (a `Meta`/`Option`/`Path`/generated parameter with any value; a defaulted parameter holding its default; an unset
    optional), every identifier of every existing configuration — of that class or containing one, at any depth — is unchanged. -/
theorem added_declaration_neutral {D : Type} (hc : HC D) (g g' : Graph) (hs : g.size = g'.size) (hm : g.mt = g'.mt)
    (h : ∀ n, (g.node n).typeId = (g'.node n).typeId ∧ (g.node n).task = (g'.node n).task ∧
          ((g'.node n).args = (g.node n).args ∨
           ∃ d v a, Silent g.mt d v ∧ d.toArg v = some a ∧ (g'.node n).args = a :: (g.node n).args)) (n : Nat) :
    rawId hc g n = rawId hc g' n := by
  unfold rawId; rw [hs]
  apply rawAt_congr
  intro k cfg ceq
  obtain ⟨ht, hk, ha⟩ := h k
  rcases ha with ha | ⟨d, v, a, hsl, hta, ha⟩
  · simp only [nodeStream, ht, hk, ha, hm]
  · have := added_parameter_neutral cfg ceq g.mt k (g.node k) a (silent_contributes_nothing cfg ceq g.mt d v a hsl hta)
    rw [← this]
    simp only [nodeStream, ht, hk, ha, hm]

/-! non-vacuity: the declarations `m: Meta[int]`, `p: Param[Path]`, `o: Annotated[Path, pathgenerator("o")]`,
    `x: Param[int] = 3`, `y: Param[Optional[str]]`, `f: Param[int] = field(default_factory=…)`, `r: Param[int]` and the flags
    derived for them; a constant without value and a path generator with a default are rejected. -/
example : mkArg { name := [109], kind := .metaParam, ty := .int } = some { name := [109], ignored := true, required := true } := by rfl
example : mkArg { name := [112], kind := .param, ty := .path } = some { name := [112], ignored := true, required := true } := by rfl
example : mkArg { name := [111], kind := .pathgen, ty := .path } = some { name := [111], ignored := true, generator := true, required := true } := by rfl
example : mkArg { name := [120], kind := .param, ty := .int, attr := .value (.int 3) }
    = some { name := [120], required := false, default := some (.int 3) } := by rfl
example : mkArg { name := [121], kind := .param, ty := .str, optional := true } = some { name := [121], required := false } := by rfl
example : mkArg { name := [102], kind := .factory, ty := .int } = some { name := [102], generator := true, required := false } := by rfl
example : mkArg { name := [114], kind := .param, ty := .int } = some { name := [114], required := true } := by rfl
example : mkArg { name := [99], kind := .constant, ty := .int } = none ∧
    mkArg { name := [111], kind := .pathgen, ty := .path, attr := .value (.path [97]) } = none := ⟨rfl, rfl⟩
/-- `Silent` is inhabited for each constructor, and a silent pair and a non-silent one differ in the stream. -/
example : Silent (fun _ => none) { name := [109], kind := .metaParam, ty := .int } (.int 5) := .metaOption (.inl rfl) (by simp)
example : Silent (fun _ => none) { name := [120], kind := .param, ty := .int, attr := .value (.int 3) } (.int 3) :=
  .atDefault (.int 3) (.inl rfl) (.inl rfl) (fun _ => rfl)
example : (({ name := [120], kind := .param, ty := .int, attr := .value (.int 3) } : Decl).toArg (.int 4)).map
    (fun a => (argStream (fun _ => []) (fun _ _ => false) (fun _ => none) a).isEmpty) = some false := by decide

end XpmVerif.C02
