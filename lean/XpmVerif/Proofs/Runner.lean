import XpmVerif.Model.Runner
/-! Invariants of M3 and their preservation by every action (helper lemmas for C10 / C05). -/
namespace XpmVerif.Runner

/-- locations at which the run lock is held by the main flow -/
def Loc.holding : Loc → Bool
  | .locked | .rmFailed | .setStarted | .body _ | .bodyDone | .restTerm | .restInt | .sysExit | .touch => true
  | _ => false

/-- locations at which both Python handlers are installed and the clean-up is registered -/
def Loc.handled : Loc → Bool
  | .pre | .tryLock | .locked | .rmFailed | .setStarted | .body _ | .bodyDone | .skipped => true
  | _ => false

def Loc.hasReg : Loc → Bool
  | .reg | .term | .pre | .tryLock | .locked | .rmFailed | .setStarted | .body _ | .bodyDone | .skipped => true
  | _ => false

def Loc.hasTerm : Loc → Bool
  | .term | .pre | .tryLock | .locked | .rmFailed | .setStarted | .body _ | .bodyDone | .skipped => true
  | _ => false

/-- locations before the lock is taken -/
def Loc.early : Loc → Bool
  | .init | .reg | .term | .pre | .tryLock => true
  | _ => false

/-- where a process that was signalled inside the body can be -/
def Loc.afterBody : Loc → Bool
  | .body _ | .herr _ _ | .fin _ _ => true
  | _ => false

def Loc.atRmPid : Loc → Bool
  | .herr .rmPid _ | .fin (some .rmPid) _ => true
  | _ => false

def Loc.pastTest : Loc → Bool
  | .herr .rmPid _ | .herr .relLock _ | .herr .exit _
  | .fin (some .rmPid) _ | .fin (some .relLock) _ | .fin none _ => true
  | _ => false

def LState.holds : LState → Bool
  | .locked | .spawned _ | .wrote _ => true
  | _ => false

def atWrite (p : Proc) : Bool := match p.hnd with | some (.write, _) => true | _ => false

/-- the runner holding the lock, if any -/
def lockRunner (sh : Shared) : Option Nat := match sh.lock with | some (.run j) => some j | _ => none

structure Inv (cfg : Cfg) (d0 : Bool) (s : St) : Prop where
  fresh : ∀ i, s.n ≤ i → s.procs i = {}
  lockRun : ∀ i, s.sh.lock = some (.run i) → i < s.n ∧ (s.procs i).dead = none
  lockLaunch : ∀ l, s.sh.lock = some (.launch l) ↔ (s.ls l).holds = true
  held : ∀ i, i < s.n → (s.procs i).dead = none → (s.procs i).hnd = none → (s.procs i).loc.holding = true →
    s.sh.lock = some (.run i)
  notDone : ∀ i, i < s.n → (s.procs i).dead = none → (s.procs i).hnd = none → (s.procs i).loc.critical = true →
    s.sh.done = false
  handlers : ∀ i, i < s.n → ((s.procs i).loc.hasReg = true → (s.procs i).reg = true) ∧
    ((s.procs i).loc.hasTerm = true → (s.procs i).termH = true) ∧ ((s.procs i).loc.handled = true → (s.procs i).intH = true)
  touchedDone : ∀ i, (s.procs i).touched = true → s.sh.done = true ∧ (s.procs i).completed = true ∧ d0 = false
  doneMono : d0 = true → s.sh.done = true
  uniqueTouch : ∀ i j, (s.procs i).touched = true → (s.procs j).touched = true → i = j
  sigBody1 : ∀ i, i < s.n → (s.procs i).sigInBody = true → (s.procs i).dead = none → (s.procs i).wroteFailed = none →
    atWrite (s.procs i) = true ∧ inBody (s.procs i) = true ∧ s.sh.lock = some (.run i) ∧ s.sh.done = false
  sigBody2 : ∀ i, i < s.n → (s.procs i).sigInBody = true → (s.procs i).wroteFailed = some s.sh.epoch →
    s.sh.failed.isSome = true ∧ s.sh.done = false ∧ (lockRunner s.sh = none ∨ lockRunner s.sh = some i)
  sigBody3 : ∀ i, i < s.n → (s.procs i).sigInBody = true → (s.procs i).loc.afterBody = true
  unsig : ∀ i, i < s.n → (s.procs i).signalled = false → (s.procs i).hnd = none ∧ (s.procs i).sigInBody = false
  spawnedInv : ∀ l q, s.ls l = .spawned q → q < s.n ∧ ((s.procs q).signalled = false →
    (s.procs q).dead = none ∧ (s.procs q).loc.early = true ∧ (s.procs q).cleaned = false)
  pidInv : ∀ q, q < s.n → s.sh.pid = some q → (s.procs q).signalled = false → (s.procs q).cleaned = true →
    (s.procs q).dead = none ∧ (s.procs q).loc.atRmPid = true
  ownClean : cfg.unregOnSuccess = false → ∀ q, q < s.n → (s.procs q).signalled = false →
    ((s.procs q).loc ≠ .init → (s.procs q).reg = true) ∧
    ((s.procs q).loc.pastTest = true → (s.procs q).cleaned = true) ∧
    (∀ c, (s.procs q).dead = some (.code c) → (s.procs q).cleaned = true)

theorem inv_init (cfg : Cfg) (done : Bool) (failed : Option Nat) : Inv cfg done (St.init done failed) := by
  constructor <;> simp [St.init, LState.holds, lockRunner]


/-- unfold one action completely -/
macro "unfold_act" : tactic => `(tactic| (
  simp only [act]
  try unfold St.put
  try unfold stepProc
  try unfold mainStep
  try unfold handlerStep
  try unfold afterHandler
  try unfold markEpoch
  try unfold deliver
  try unfold finStart
  try unfold release
  try unfold newProc
  try unfold upd))

theorem act_fresh (cfg : Cfg) (d0 : Bool) (s : St) (a : Act) (h : Inv cfg d0 s) :
    ∀ i, (act cfg s a).n ≤ i → (act cfg s a).procs i = {} := by
  intro i
  have := h.fresh i
  cases a <;> unfold_act <;> grind


theorem act_lockRun (cfg : Cfg) (d0 : Bool) (s : St) (a : Act) (h : Inv cfg d0 s) :
    ∀ i, (act cfg s a).sh.lock = some (.run i) → i < (act cfg s a).n ∧ ((act cfg s a).procs i).dead = none := by
  intro i
  have := h.lockRun i
  cases a <;> unfold_act <;> grind

theorem act_lockLaunch (cfg : Cfg) (d0 : Bool) (s : St) (a : Act) (h : Inv cfg d0 s) :
    ∀ l, (act cfg s a).sh.lock = some (.launch l) ↔ ((act cfg s a).ls l).holds = true := by
  intro l
  have := h.lockLaunch l
  cases a with
  | lLock l' | lSpawn l' _ _ | lWrite l' | lRelease l' | lDie l' =>
    have := h.lockLaunch l'
    unfold_act <;> grind [LState.holds]
  | _ => unfold_act <;> grind [LState.holds]


theorem Loc.holding_of_critical (l : Loc) (h : l.critical = true) : l.holding = true := by
  cases l <;> simp_all [Loc.critical, Loc.holding]

/-- the process an action is about (0 for launcher actions) -/
def Act.proc : Act → Nat
  | .step i | .signal i _ => i
  | _ => 0

theorem act_held (cfg : Cfg) (d0 : Bool) (s : St) (a : Act) (h : Inv cfg d0 s) :
    ∀ i, i < (act cfg s a).n → ((act cfg s a).procs i).dead = none → ((act cfg s a).procs i).hnd = none →
      ((act cfg s a).procs i).loc.holding = true → (act cfg s a).sh.lock = some (.run i) := by
  intro i
  have := h.held i
  have := h.held a.proc
  have := h.lockLaunch
  cases a <;> simp only [Act.proc] at * <;> unfold_act <;> grind [Loc.holding, Loc.inTry, LState.holds]

theorem act_notDone (cfg : Cfg) (d0 : Bool) (s : St) (a : Act) (h : Inv cfg d0 s) :
    ∀ i, i < (act cfg s a).n → ((act cfg s a).procs i).dead = none → ((act cfg s a).procs i).hnd = none →
      ((act cfg s a).procs i).loc.critical = true → (act cfg s a).sh.done = false := by
  intro i
  have := h.notDone i
  have := h.notDone a.proc
  have := h.held i
  have := h.held a.proc
  have := Loc.holding_of_critical (s.procs i).loc
  cases a <;> simp only [Act.proc] at * <;> unfold_act <;> grind [Loc.holding, Loc.critical, Loc.inTry]



theorem act_handlers (cfg : Cfg) (d0 : Bool) (s : St) (a : Act) (h : Inv cfg d0 s) :
    ∀ i, i < (act cfg s a).n → (((act cfg s a).procs i).loc.hasReg = true → ((act cfg s a).procs i).reg = true) ∧
      (((act cfg s a).procs i).loc.hasTerm = true → ((act cfg s a).procs i).termH = true) ∧
      (((act cfg s a).procs i).loc.handled = true → ((act cfg s a).procs i).intH = true) := by
  intro i
  have := h.handlers i
  cases a <;> unfold_act <;> grind [Loc.handled, Loc.inTry, Loc.hasReg, Loc.hasTerm]

end XpmVerif.Runner
