import XpmVerif.Proofs.Runner
/-! C10 — job directory markers stay truthful whenever the job process dies.
    Property theorems only.  Every theorem quantifies over *all* action sequences (`Reach`): any number
    of runner processes and launchers, any interleaving, SIGKILL / SIGTERM / SIGINT at any program
    location (also inside a running handler and during interpreter exit), any body outcome and length.
    `cfg` is the source variant: `current` (what `run.py` does today, finding F7) or `repaired`. -/
namespace XpmVerif.C10
open XpmVerif.Runner

/-- **first sentence, part 1: a success marker only if the task body ran to completion.**
    If the directory shows `done`, it did so initially or some process wrote it, and a process that
    wrote it had completed its body (returned, or ended itself with status 0). -/
theorem done_implies_completed {cfg : Cfg} {done : Bool} {failed : Option Nat} {s : St}
    (h : Reach cfg done failed s) (hd : s.sh.done = true) :
    done = true ∨ ∃ i, i < s.n ∧ (s.procs i).touched = true ∧ (s.procs i).completed = true := by
  rcases doneOrigin_reach h hd with h0 | ⟨i, hi, ht⟩
  · exact Or.inl h0
  · exact Or.inr ⟨i, hi, ht, ((inv_reach h).touchedDone i ht).2.1⟩

/-- **run lock = mutual exclusion of bodies** (given that the lock file admits one holder, which is the
    model rule for `flock`): two processes never run the task body at the same time. -/
theorem mutual_exclusion {cfg : Cfg} {done : Bool} {failed : Option Nat} {s : St}
    (h : Reach cfg done failed s) (i j : Nat) (hi : running s i = true) (hj : running s j = true) : i = j := by
  have inv := inv_reach h
  have key : ∀ k, running s k = true → s.sh.lock = some (.run k) := by
    intro k hk
    simp only [running, Bool.and_eq_true, decide_eq_true_eq] at hk
    obtain ⟨⟨⟨hlt, ha⟩, hb⟩, hh⟩ := hk
    apply inv.held k hlt
    · revert ha; simp only [Proc.alive]; split <;> simp_all
    · revert hh; simp only [noHandler]; split <;> simp_all
    · revert hb; simp only [inBody]; split <;> simp_all [Loc.holding]
  have := key i hi
  have := key j hj
  simp_all

/-- the same as a count: `bodiesRunning ≤ 1` in every reachable state. -/
theorem bodies_running_le_one {cfg : Cfg} {done : Bool} {failed : Option Nat} {s : St}
    (h : Reach cfg done failed s) : bodiesRunning s ≤ 1 :=
  filter_le_one _ _ List.nodup_range (fun a b _ _ ha hb => mutual_exclusion h a b ha hb)

/-- **no body after success**: a step that starts a task body happens only while no success marker
    exists; and while a success marker exists nobody is running the body. -/
theorem no_body_after_done {cfg : Cfg} {done : Bool} {failed : Option Nat} {s : St}
    (h : Reach cfg done failed s) :
    (∀ a, (act cfg s a).sh.starts ≠ s.sh.starts → s.sh.done = false ∧ (act cfg s a).sh.starts = s.sh.starts + 1) ∧
    (s.sh.done = true → ∀ i, running s i = false) := by
  have inv := inv_reach h
  constructor
  · intro a
    have := inv.notDone a.proc
    act_cases a => grind (splits := 30) [Act.proc, Loc.critical]
  · intro hd i
    cases hr : running s i with
    | false => rfl
    | true =>
      exfalso
      simp only [running, Bool.and_eq_true, decide_eq_true_eq] at hr
      obtain ⟨⟨⟨hlt, ha⟩, hb⟩, hh⟩ := hr
      have : s.sh.done = false := by
        apply inv.notDone i hlt
        · revert ha; simp only [Proc.alive]; split <;> simp_all
        · revert hh; simp only [noHandler]; split <;> simp_all
        · revert hb; simp only [inBody]; split <;> simp_all [Loc.critical]
      simp_all

/-- **first sentence, part 3: a later launch of the same job script executes the body exactly when no
    success marker exists.**  In any reachable quiescent state (every runner process dead by whatever cause, no
    launcher inside its critical section) a new launch of the script, left alone, (a) with a success marker:
    never starts the body, exits 0 after 11 steps, leaves the marker; (b) without: starts the body exactly
    once, completes it, writes the marker and exits 0 (`b` = number of internal points of the body).
    Under arbitrary interleavings the "only if" direction is `no_body_after_done`. -/
theorem relaunch_runs_iff_no_done {cfg : Cfg} {done : Bool} {failed : Option Nat} {s : St} (h : Reach cfg done failed s)
    (hq : ∀ i, i < s.n → (s.procs i).dead ≠ none) (hlq : ∀ l, (s.ls l).holds = false) (b : Nat) :
    (s.sh.done = true →
      let s' := runAlone cfg s.n 11 (act cfg s (.spawn .ok b))
      s'.sh.starts = s.sh.starts ∧ s'.sh.done = true ∧ (s'.procs s.n).dead = some (.code 0) ∧ s'.sh.lock = none) ∧
    (s.sh.done = false →
      let s' := runAlone cfg s.n (b + 21) (act cfg s (.spawn .ok b))
      s'.sh.starts = s.sh.starts + 1 ∧ s'.sh.done = true ∧ (s'.procs s.n).dead = some (.code 0) ∧
      (s'.procs s.n).completed = true ∧ s'.sh.lock = none) := by
  have hl := quiescent_lock_free h hq hlq
  constructor
  · intro hd
    have := solo_done cfg s.n s.sh .ok b hl hd
    simp only [runAlone_eq cfg s.n 11 (act cfg s (.spawn .ok b)) (by simp [act])]
    simp [act, upd]
    simp_all
  · intro hd
    have := solo_run_ok cfg s.n s.sh b hl hd
    simp only [runAlone_eq cfg s.n (b + 21) (act cfg s (.spawn .ok b)) (by simp [act])]
    simp [act, upd]
    simp_all

/-- **a launch while the pid file of a dead process exists** (second sentence, for a directory left by a killed process): in any reachable
    quiescent state — every runner process dead by whatever cause, so the pid file may still name one of them — a launch through the
    scheduler protocol (job lock, spawn, pid file, release) overwrites the stale pid file under the lock with the new process, and once
    that process has ended on its own no pid file is left, the lock is free, and its body ran exactly when no success marker existed
    (source with the clean-up kept on the success path). -/
theorem launch_over_stale_pid {cfg : Cfg} (hc : cfg.unregOnSuccess = false) {done : Bool} {failed : Option Nat} {s : St}
    (h : Reach cfg done failed s) (hq : ∀ i, i < s.n → (s.procs i).dead ≠ none) (hlq : ∀ l, (s.ls l).holds = false)
    (l : Nat) (hi : s.ls l = .idle) (b : Nat) :
    let s4 := run cfg s [.lLock l, .lSpawn l .ok b, .lWrite l, .lRelease l]
    s4.sh.pid = some s.n ∧ s4.sh.lock = none ∧
    (s.sh.done = true →
      let s' := runAlone cfg s.n 11 s4
      s'.sh.pid = none ∧ s'.sh.starts = s.sh.starts ∧ s'.sh.done = true ∧ (s'.procs s.n).dead = some (.code 0) ∧ s'.sh.lock = none) ∧
    (s.sh.done = false →
      let s' := runAlone cfg s.n (b + 21) s4
      s'.sh.pid = none ∧ s'.sh.starts = s.sh.starts + 1 ∧ s'.sh.done = true ∧ (s'.procs s.n).dead = some (.code 0) ∧ s'.sh.lock = none) := by
  have hl := quiescent_lock_free h hq hlq
  have h4 : run cfg s [.lLock l, .lSpawn l .ok b, .lWrite l, .lRelease l] =
      { sh := { s.sh with lock := none, pid := some s.n }, procs := upd s.procs s.n (newProc .ok b), n := s.n + 1,
        ls := upd (upd (upd (upd s.ls l .locked) l (.spawned s.n)) l (.wrote s.n)) l .gone } := by
    simp [run, act, hi, hl, upd, release]
  intro s4
  have hs4 : s4 = _ := h4
  refine ⟨by rw [hs4], by rw [hs4], ?_, ?_⟩
  · intro hd
    have := solo_done cfg s.n { s.sh with lock := none, pid := some s.n } .ok b rfl hd
    intro s'
    have hs' : s' = runAlone cfg s.n 11 s4 := rfl
    rw [hs', hs4, runAlone_eq cfg s.n 11 _ (by simp)]
    simp [upd]
    simp_all
  · intro hd
    have := solo_run_ok cfg s.n { s.sh with lock := none, pid := some s.n } b rfl hd
    intro s'
    have hs' : s' = runAlone cfg s.n (b + 21) s4 := rfl
    rw [hs', hs4, runAlone_eq cfg s.n (b + 21) _ (by simp)]
    simp [upd]
    simp_all

/-- **at most one success**: at most one process ever writes the success marker, and none does when
    the directory already had one (used by C05 and C11). -/
theorem at_most_one_success {cfg : Cfg} {done : Bool} {failed : Option Nat} {s : St}
    (h : Reach cfg done failed s) :
    (∀ i j, (s.procs i).touched = true → (s.procs j).touched = true → i = j) ∧
    (done = true → ∀ i, (s.procs i).touched = false) := by
  have inv := inv_reach h
  refine ⟨inv.uniqueTouch, ?_⟩
  intro hd i
  cases ht : (s.procs i).touched with
  | false => rfl
  | true => have := (inv.touchedDone i ht).2.2; simp_all

/-- **the run lock dies with the process**: whoever holds the lock is alive — a runner that is not
    dead, or a launcher inside its critical section.  (Death by any signal and normal exit release it.) -/
theorem lock_dies_with_process {cfg : Cfg} {done : Bool} {failed : Option Nat} {s : St}
    (h : Reach cfg done failed s) :
    (∀ i, s.sh.lock = some (.run i) → i < s.n ∧ (s.procs i).dead = none) ∧
    (∀ l, s.sh.lock = some (.launch l) → (s.ls l).holds = true) :=
  ⟨(inv_reach h).lockRun, fun l hl => ((inv_reach h).lockLaunch l).mp hl⟩

/-- **second sentence (every interleaving): SIGTERM/SIGINT while the body runs leaves a failure marker
    and no success marker.**  For a process that received the signal while it was running the body:
    until it has written the failure marker it is still inside the body frame with the handler active,
    holds the lock, and no success marker exists; from its (first) failure-marker write on, and for as
    long as no runner has taken the run lock again (`epoch` unchanged), the directory shows a failure
    marker and no success marker.  Such a process never writes the success marker. -/
theorem signal_in_body_marks_failed {cfg : Cfg} (hm : cfg.markerFirst = true) {done : Bool} {failed : Option Nat} {s : St}
    (h : Reach cfg done failed s) (i : Nat) (hi : i < s.n) (hs : (s.procs i).sigInBody = true) :
    ((s.procs i).dead = none → (s.procs i).wroteFailed = none →
        atWrite (s.procs i) = true ∧ inBody (s.procs i) = true ∧ s.sh.lock = some (.run i) ∧ s.sh.done = false) ∧
    ((s.procs i).wroteFailed = some s.sh.epoch → s.sh.failed.isSome = true ∧ s.sh.done = false) ∧
    (s.procs i).touched = false := by
  have inv := inv_reach h
  refine ⟨inv.sigBody1 hm i hi hs, fun hw => ?_, ((touchLocal_reach h i hi).2 hs).2.2⟩
  have := inv.sigBody2 hm i hi hs hw
  exact ⟨this.1, this.2.1⟩

/-- **second sentence, executable form**: SIGTERM or SIGINT delivered to a process that is running the body
    (at any internal point), the process then running to its end: exit status 1, failure marker `1`
    (`handle_error` runs twice: once from the handler, once from `except SystemExit`), no success marker, pid
    file removed, lock released. -/
theorem signal_in_body_then_exit {cfg : Cfg} {done : Bool} {failed : Option Nat} {s : St} (h : Reach cfg done failed s)
    (i : Nat) (hr : running s i = true) (sg : Sig) (hsg : sg = .term ∨ sg = .int) :
    let s' := runAlone cfg i 11 (act cfg s (.signal i sg))
    s'.sh.failed = some 1 ∧ s'.sh.done = false ∧ (s'.procs i).dead = some (.code 1) ∧ s'.sh.lock = none ∧ s'.sh.pid = none := by
  have inv := inv_reach h
  simp only [running, Bool.and_eq_true, decide_eq_true_eq] at hr
  obtain ⟨⟨⟨hlt, ha⟩, hb⟩, hh⟩ := hr
  have hdead : (s.procs i).dead = none := by revert ha; simp only [Proc.alive]; split <;> simp_all
  have hhnd : (s.procs i).hnd = none := by revert hh; simp only [noHandler]; split <;> simp_all
  obtain ⟨k, hloc⟩ : ∃ k, (s.procs i).loc = .body k := by
    revert hb; simp only [inBody]; split <;> simp_all
  have hlock := inv.held i hlt hdead hhnd (by simp [hloc, Loc.holding])
  have hnd := inv.notDone i hlt hdead hhnd (by simp [hloc, Loc.critical])
  have hH := inv.handlers i hlt
  simp only [hloc, Loc.hasReg, Loc.hasTerm, Loc.handled, forall_const] at hH
  have hnc := noClean_reach h i hlt hhnd (by simp [hloc, Loc.failing])
  intro s'
  have key : ∃ c p1, deliver cfg i s.sh (s.procs i) sg = (s.sh, p1) ∧ p1.dead = none ∧ p1.loc = .body k ∧
      p1.hnd = some (hsFirst cfg, c) ∧ p1.reg = true ∧ p1.cleaned = false := by
    rcases hsg with rfl | rfl
    · refine ⟨15, (deliver cfg i s.sh (s.procs i) .term).2, ?_⟩
      simp [deliver, hdead, hH.2.1, hloc, hH.1, hnc]
    · refine ⟨2, (deliver cfg i s.sh (s.procs i) .int).2, ?_⟩
      simp [deliver, hdead, hH.2.2, hloc, hH.1, hnc]
  obtain ⟨c, p1, hc, h1, h2, h3, h4, h5⟩ := key
  have hs1 : act cfg s (.signal i sg) = { s with procs := upd s.procs i p1 } := by
    simp [act, hlt, hc]
  have := solo_signal cfg i s.sh p1 k c h1 h2 h3 hlock hnd h4 h5
  have hs' : s' = runAlone cfg i 11 { s with procs := upd s.procs i p1 } := by simp only [s', hs1]
  rw [hs', runAlone_eq cfg i 11 { s with procs := upd s.procs i p1 } hlt]
  obtain ⟨t1, t2, t3, t4, t5⟩ := this
  simp [upd]
  exact ⟨t1, t2, t5, t3, t4⟩

/-- **second sentence under a fault sequence (signal, then hard kill): the failure marker precedes every
    clean-up step** — on the source order (`markerFirst`).  In every reachable state: a `handle_error` that is past
    its first action (running as a signal handler, or called from an `except` clause) has written the
    failure marker; and a process that received SIGTERM/SIGINT inside the body and has begun to clean up
    (`cleaned`, which precedes the pid-file removal and the lock release) has written it, and the directory
    shows the failure marker and no success marker for as long as no runner has taken the lock again.
    Hence a SIGKILL (or any later death) after the first clean-up step cannot leave the directory without marker. -/
theorem marker_precedes_cleanup {cfg : Cfg} (hm : cfg.markerFirst = true) {done : Bool} {failed : Option Nat} {s : St}
    (h : Reach cfg done failed s) (i : Nat) (hi : i < s.n) :
    (∀ st c, (s.procs i).hnd = some (st, c) → st ≠ .write → (s.procs i).wroteFailed ≠ none) ∧
    (∀ st c, (s.procs i).loc = .herr st c → st ≠ .write → (s.procs i).wroteFailed ≠ none) ∧
    ((s.procs i).sigInBody = true → (s.procs i).cleaned = true →
      ∃ e, (s.procs i).wroteFailed = some e ∧ (e = s.sh.epoch → s.sh.failed.isSome = true ∧ s.sh.done = false)) := by
  have l := markerFirstLocal_reach hm h i hi
  refine ⟨l.1, l.2, fun hs hc => ?_⟩
  have hw := mbc_reach hm h i hi hs hc
  cases hwf : (s.procs i).wroteFailed with
  | none => exact absurd hwf hw
  | some e =>
    refine ⟨e, rfl, fun he => ?_⟩
    have := (inv_reach h).sigBody2 hm i hi hs (he ▸ hwf)
    exact ⟨this.1, this.2.1⟩

/-- **the same fault sequence on the clean-up-first order loses the marker**: SIGTERM inside the body, the
    handler removes the pid file and releases the lock, SIGKILL: no failure marker, no success marker, no pid
    file, lock free. -/
theorem cleanup_first_loses_marker :
    let s := run cleanupFirst (St.init false none)
      ([.lLock 0, .lSpawn 0 .ok 2, .lWrite 0, .lRelease 0] ++ List.replicate 10 (.step 0) ++
       [.signal 0 .term, .step 0, .step 0, .step 0, .signal 0 .kill])
    (s.procs 0).sigInBody = true ∧ (s.procs 0).cleaned = true ∧ (s.procs 0).dead = some (.signal .kill) ∧
    s.sh.failed = none ∧ s.sh.done = false ∧ s.sh.pid = none ∧ s.sh.lock = none := by
  decide

/-- **last sentence, on the repaired source**: a job process that ended on its own (exited, with
    whatever status, without ever receiving SIGTERM/SIGINT) leaves no process-id file behind: the pid
    file never names it. -/
theorem own_exit_leaves_no_pid {cfg : Cfg} (hc : cfg.unregOnSuccess = false) {done : Bool} {failed : Option Nat}
    {s : St} (h : Reach cfg done failed s) (q : Nat) (hq : q < s.n) (ho : endedOnOwn (s.procs q) = true) :
    s.sh.pid ≠ some q := by
  have inv := inv_reach h
  intro hp
  simp only [endedOnOwn, Bool.and_eq_true, Bool.not_eq_true'] at ho
  obtain ⟨hsig, hdead⟩ := ho
  have oc := inv.ownClean hc q hq hsig
  revert hdead
  split
  · rename_i c hdc
    intro _
    have hcl := oc.2.2.2 c hdc
    have h1 := inv.pidInv q hq hp hsig hcl
    have h2 := inv.deadLoc q c hdc
    revert h1 h2
    cases (s.procs q).loc <;> simp [Loc.atRmPid, Loc.isFinNone]
    rename_i c' st; cases c' <;> simp
  · simp

/-- **last sentence fails on the source as it is today (F7)**: a launch through the scheduler protocol,
    an undisturbed successful run, and the pid file still names the finished process. -/
theorem own_exit_leaves_pid_today :
    let s := run current (St.init false none)
      ([.lLock 0, .lSpawn 0 .ok 0, .lWrite 0, .lRelease 0] ++ List.replicate 20 (.step 0))
    endedOnOwn (s.procs 0) = true ∧ s.sh.done = true ∧ s.sh.pid = some 0 := by
  decide


/-! ### non-vacuity: the hypotheses are satisfiable on concrete non-trivial histories -/

/-- two launches by hand; process 0 reaches the body after 9 steps, process 1 is blocked on the lock -/
def raceTrace : List Act := [.spawn .ok 2, .spawn .exc 1] ++ List.replicate 9 (.step 0) ++ List.replicate 7 (.step 1)

example : Reach current false (some 1) (run current (St.init false (some 1)) raceTrace) := ⟨raceTrace, rfl⟩
example : running (run current (St.init false (some 1)) raceTrace) 0 = true
    ∧ running (run current (St.init false (some 1)) raceTrace) 1 = false
    ∧ ((run current (St.init false (some 1)) raceTrace).procs 1).loc = .tryLock
    ∧ bodiesRunning (run current (St.init false (some 1)) raceTrace) = 1 := by decide

/-- SIGTERM inside the body (hypothesis `sigInBody` of `signal_in_body_marks_failed`), then the handler writes -/
example : ((run current (St.init false none) (raceTrace ++ [.signal 0 .term])).procs 0).sigInBody = true := by decide
example : let s := run current (St.init false none) (raceTrace ++ [.signal 0 .term, .step 0])
    (s.procs 0).wroteFailed = some s.sh.epoch ∧ s.sh.failed = some 15 := by decide

/-- hypotheses of `marker_precedes_cleanup`: signalled in the body and past the first clean-up step -/
example : let s := run repaired (St.init false none) (raceTrace ++ [.signal 0 .term, .step 0, .step 0, .step 0])
    (s.procs 0).sigInBody = true ∧ (s.procs 0).cleaned = true ∧ s.sh.pid = none ∧ s.sh.failed = some 15 := by decide

/-- a process that ended on its own, on the repaired source: launched through the scheduler protocol, the
    pid file is gone (hypotheses of `own_exit_leaves_no_pid`); and one that failed on its own -/
def launchedTrace (o : Outcome) : List Act :=
  [.lLock 0, .lSpawn 0 o 1, .lWrite 0, .lRelease 0] ++ List.replicate 25 (.step 0)

example : let s := run repaired (St.init false none) (launchedTrace .ok)
    endedOnOwn (s.procs 0) = true ∧ s.sh.done = true ∧ s.sh.pid = none := by decide
example : let s := run repaired (St.init false none) (launchedTrace (.exit 3))
    endedOnOwn (s.procs 0) = true ∧ s.sh.done = false ∧ s.sh.failed = some 3 ∧ s.sh.pid = none := by decide

/-- a quiescent reachable state (hypotheses of `relaunch_runs_iff_no_done`): the fresh directory -/
example : (∀ i, i < (St.init false none).n → ((St.init false none).procs i).dead ≠ none)
    ∧ (∀ l, ((St.init false none).ls l).holds = false) := by simp [St.init, LState.holds]

/-- … and a non-trivial one: launched by the scheduler protocol, SIGKILL inside the body -/
def killedTrace : List Act :=
  [.lLock 0, .lSpawn 0 .ok 1, .lWrite 0, .lRelease 0] ++ List.replicate 10 (.step 0) ++ [.signal 0 .kill]

example : let s := run current (St.init false none) killedTrace
    (∀ i, i < s.n → (s.procs i).dead ≠ none) ∧ (∀ l, (s.ls l).holds = false) ∧ s.sh.done = false ∧ s.sh.pid = some 0 := by
  refine ⟨by decide, ?_, by decide, by decide⟩
  intro l
  cases l <;> rfl

/-- a success marker that was written (hypothesis of `done_implies_completed`) -/
example : let s := run current (St.init false none) ([.spawn .ok 0] ++ List.replicate 20 (.step 0))
    s.sh.done = true ∧ (s.procs 0).touched = true ∧ (s.procs 0).completed = true := by decide

/-- hypotheses of `launch_over_stale_pid` on a non-trivial state: the process launched by launcher 0 was SIGKILLed inside its body
    (`killedTrace`: every runner dead, stale pid file `some 0`, no marker), launcher 1 is idle -/
example : let s := run repaired (St.init false none) killedTrace
    (∀ i, i < s.n → (s.procs i).dead ≠ none) ∧ s.sh.pid = some 0 ∧ s.ls 1 = .idle ∧ s.sh.done = false := by
  refine ⟨by decide, by decide, by decide, by decide⟩

end XpmVerif.C10
