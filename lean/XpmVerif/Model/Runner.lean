/-! M3 — job directory protocol (`run.py` TaskRunner, the generated job script, the launcher side of
    `commandline.py` `aio_run` / `scheduler/base.py` `aio_start`).

    Shared state: the marker files `done`, `failed(code)`, `pid(process)`, the holder of the run lock,
    ghost counters.  Any number of *runner* processes (one per execution of the job script), each with
    a program location `Loc` of `TaskRunner.run` (Appendix C of DESIGN.md), an optional *signal handler
    activation* `hnd` running `handle_error` on top of it, and the flags `reg` (atexit clean-up
    registered), `termH`/`intH` (Python handlers installed), `cleaned`, `started`.  Any number of
    *launchers* (scheduler side: take the job lock, spawn, write the pid file, release).
    Environment actions: `spawn`, `step i`, `signal i sig` at any location, launcher actions, launcher death.

    `cfg.unregOnSuccess = true` is what the source does today: `remove_signal_handlers(remove_cleanup=False)`
    ignores its argument and unregisters the atexit clean-up on the success path (finding F7). -/
namespace XpmVerif.Runner

inductive Sig | kill | term | int
  deriving DecidableEq, Repr

/-- how the task body ends when nobody interrupts it -/
inductive Outcome | ok | exc | exit (n : Nat)
  deriving DecidableEq, Repr

/-- exit status of a process -/
inductive Exit | code (n : Nat) | signal (s : Sig)
  deriving DecidableEq, Repr

/-- next action of `cleanup` -/
inductive CS | test | rmPid | relLock
  deriving DecidableEq, Repr

/-- next action of `handle_error`: write the failure marker, the three actions of `cleanup`, `sys.exit(1)` -/
inductive HS | write | test | rmPid | relLock | exit
  deriving DecidableEq, Repr

/-- program location of the main flow = the *next* action it will perform -/
inductive Loc
  | init        -- script prelude, `TaskRunner.__init__`; next: `atexit.register(cleanup)`
  | reg         -- next: install the SIGTERM handler
  | term        -- next: install the SIGINT handler
  | pre         -- both installed, `def remove_signal_handlers`, `register_at_fork`, the `try:` line; next: enter the try body
  | tryLock     -- in the try body: chdir, …; next: blocking acquire of the run lock
  | locked      -- next: test whether the success marker exists
  | rmFailed    -- next: `rmfile(failed)`
  | setStarted  -- next: `started := True`
  | callBody    -- `run(params.json)`: load the configuration; next: enter the task body (`task.execute()`)
  | body (k : Nat)  -- inside the task body, `k` internal points passed
  | raised1     -- SystemExit(1) raised by a finished signal handler, in flight inside the try body; next: `except SystemExit`
  | raised0     -- the body ended itself with `sys.exit(0)`: SystemExit(0) in flight inside the try; next: `except SystemExit`
  | bodyDone    -- body returned; next: restore the SIGTERM disposition
  | restTerm    -- next: restore the SIGINT disposition
  | restInt     -- next: `atexit.unregister(cleanup)` (today) / nothing (repaired)
  | sysExit     -- next: `sys.exit(0)` (raises inside the try body)
  | touch       -- in `except SystemExit`, code 0; next: `touch(done)`
  | reraise     -- next: re-raise, leave `run()`
  | skipped     -- "Job already completed" (still in the try body); next: leave `run()`
  | herr (h : HS) (code : Nat)   -- `handle_error(code)` called from an `except` clause
  | fin (c : Option CS) (st : Exit)  -- interpreter exit: the atexit clean-up (`some stage`) then death
  deriving DecidableEq, Repr

def Loc.inTry : Loc → Bool
  | .tryLock | .locked | .rmFailed | .setStarted | .callBody | .body _ | .raised1 | .raised0 | .bodyDone | .restTerm | .restInt | .sysExit | .skipped => true
  | _ => false

/-- the locations between the done test and the success marker (the lock is held there) -/
def Loc.critical : Loc → Bool
  | .rmFailed | .setStarted | .callBody | .body _ | .raised0 | .bodyDone | .restTerm | .restInt | .sysExit | .touch => true
  | _ => false

inductive Holder | run (i : Nat) | launch (l : Nat)
  deriving DecidableEq, Repr

structure Proc where
  loc : Loc := .init
  hnd : Option (HS × Nat) := none     -- signal handler activation: stage and code
  dead : Option Exit := none
  reg : Bool := false
  termH : Bool := false
  intH : Bool := false
  cleaned : Bool := false
  started : Bool := false
  outcome : Outcome := .ok
  blen : Nat := 0                     -- internal points of the body
  -- ghost
  signalled : Bool := false           -- received SIGTERM or SIGINT at some time
  completed : Bool := false           -- the body ran to its end (returned, or ended itself with status 0)
  touched : Bool := false             -- wrote the success marker
  sigInBody : Bool := false           -- received SIGTERM/SIGINT while running the body
  wroteFailed : Option Nat := none    -- lock epoch at the first failure-marker write of this process
  deriving Repr

/-- files, lock, ghost counters -/
structure Shared where
  done : Bool := false
  failed : Option Nat := none
  pid : Option Nat := none
  lock : Option Holder := none
  starts : Nat := 0                   -- ghost: number of body starts
  epoch : Nat := 0                    -- ghost: number of run-lock acquisitions by runners
  deriving Repr

structure Cfg where
  /-- `remove_signal_handlers(remove_cleanup=False)` unregisters the atexit clean-up anyway (finding F7) -/
  unregOnSuccess : Bool
  /-- `handle_error` writes the failure marker *before* it calls `cleanup()` (the order of the source) -/
  markerFirst : Bool := true
  deriving Repr, DecidableEq

/-- the source at the pinned snapshot (F7 present), the source after fix 36f82fb, and the variant in which
    `handle_error` cleans up first and writes the failure marker afterwards -/
def current : Cfg := { unregOnSuccess := true }
def repaired : Cfg := { unregOnSuccess := false }
def cleanupFirst : Cfg := { unregOnSuccess := false, markerFirst := false }

/-- order of the actions of `handle_error`: marker first = write, test, rmPid, relLock, exit;
    clean-up first = test, rmPid, relLock, write, exit -/
def hsFirst (cfg : Cfg) : HS := if cfg.markerFirst then .write else .test
def hsAfterWrite (cfg : Cfg) : HS := if cfg.markerFirst then .test else .exit
def hsAfterClean (cfg : Cfg) : HS := if cfg.markerFirst then .exit else .write

def Proc.alive (p : Proc) : Bool := match p.dead with | none => true | some _ => false

def release (sh : Shared) (h : Holder) : Shared :=
  if sh.lock = some h then { sh with lock := none } else sh

/-- start of interpreter finalisation with exit status `st` -/
def finStart (p : Proc) (st : Exit) : Loc := .fin (if p.reg then some .test else none) st

/-- the first failure-marker write of a process records the lock epoch (ghost) -/
def markEpoch (sh : Shared) (p : Proc) : Option Nat :=
  match p.wroteFailed with | none => some sh.epoch | some e => some e

/-- where `SystemExit(1)` raised by a finished signal handler lands -/
def afterHandler (p : Proc) : Loc :=
  match p.loc with
  | .fin (some _) st => .fin none st      -- raised inside the atexit callback: reported and swallowed, callback aborted
  | .fin none st => .fin none st
  | l => if l.inTry then .raised1           -- then `except SystemExit` with code 1: `handle_error(1)`
         else finStart p (.code 1)         -- not protected: leaves `run()`

/-- one step of the main flow (no handler active).  `cleanup` = test-and-set `cleaned`, `rmfile(pid)`,
    release the lock; it appears three times (signal handler, `handle_error` from an `except` clause, atexit). -/
def mainStep (cfg : Cfg) (me : Nat) (sh : Shared) (p : Proc) : Shared × Proc :=
  match p.loc with
  | .init => (sh, { p with loc := .reg, reg := true })
  | .reg => (sh, { p with loc := .term, termH := true })
  | .term => (sh, { p with loc := .pre, intH := true })
  | .pre => (sh, { p with loc := .tryLock })
  | .tryLock =>
      if sh.lock = none then ({ sh with lock := some (.run me), epoch := sh.epoch + 1 }, { p with loc := .locked })
      else (sh, p)   -- blocked
  | .locked => (sh, { p with loc := if sh.done then .skipped else .rmFailed })
  | .rmFailed => ({ sh with failed := none }, { p with loc := .setStarted })
  | .setStarted => (sh, { p with loc := .callBody, started := true })
  | .callBody => ({ sh with starts := sh.starts + 1 }, { p with loc := .body 0 })
  | .body k =>
      if k < p.blen then (sh, { p with loc := .body (k + 1) })
      else match p.outcome with
        | .ok => (sh, { p with loc := .bodyDone, completed := true })
        | .exc => (sh, { p with loc := .herr (hsFirst cfg) 1 })
        | .exit 0 => (sh, { p with loc := .raised0, completed := true })
        | .exit (n + 1) => (sh, { p with loc := .herr (hsFirst cfg) (n + 1) })
  | .raised1 => (sh, { p with loc := .herr (hsFirst cfg) 1 })
  | .raised0 => (sh, { p with loc := .touch })
  | .bodyDone => (sh, { p with loc := .restTerm, termH := false })
  | .restTerm => (sh, { p with loc := .restInt, intH := false })
  | .restInt => (sh, { p with loc := .sysExit, reg := if cfg.unregOnSuccess then false else p.reg })
  | .sysExit => (sh, { p with loc := .touch })
  | .touch => ({ sh with done := true }, { p with loc := .reraise, touched := true })
  | .reraise => (sh, { p with loc := finStart p (.code 0) })
  | .skipped => (sh, { p with loc := finStart p (.code 0) })
  | .herr .write code =>
      ({ sh with failed := some code }, { p with loc := .herr (hsAfterWrite cfg) code, wroteFailed := markEpoch sh p })
  | .herr .test code =>
      if p.cleaned then (sh, { p with loc := .herr (hsAfterClean cfg) code })
      else (sh, { p with loc := .herr .rmPid code, cleaned := true })
  | .herr .rmPid code => ({ sh with pid := none }, { p with loc := .herr .relLock code })
  | .herr .relLock code => (release sh (.run me), { p with loc := .herr (hsAfterClean cfg) code })
  | .herr .exit _ => (sh, { p with loc := finStart p (.code 1) })
  | .fin (some .test) st =>
      if p.cleaned then (sh, { p with loc := .fin none st }) else (sh, { p with loc := .fin (some .rmPid) st, cleaned := true })
  | .fin (some .rmPid) st => ({ sh with pid := none }, { p with loc := .fin (some .relLock) st })
  | .fin (some .relLock) st => (release sh (.run me), { p with loc := .fin none st })
  | .fin none st => (release sh (.run me), { p with dead := some st })

/-- one step of a running signal handler (`handle_error(code, frame)`).

    **Model rule (assumption on the helper modules): no exception escapes `handle_error` before `sys.exit(1)`.**
    Whatever `cleanup()` calls (`rmfile(pid)`, the lock release, `notifications.Reporter.eoj`), the handler's last
    stage is always `exit`, i.e. `SystemExit(1)` is raised into the interrupted frame and the body never resumes.
    The real-code counterpart of this rule is the helper-fault family of `harness/xv/props/c10.py`
    (`plan_helpers`: notification endpoint answers / drops / refuses / garbled URL, files removed under the
    clean-up, body shapes plain / try-except / try-finally); where the source breaks it the monitor
    `handler-exception-escapes:<fault>` reports the concrete input (findings C10-N1, C10-N2). -/
def handlerStep (cfg : Cfg) (me : Nat) (sh : Shared) (p : Proc) (code : Nat) : HS → Shared × Proc
  | .write =>
      ({ sh with failed := some code }, { p with hnd := some (hsAfterWrite cfg, code), wroteFailed := markEpoch sh p })
  | .test =>
      if p.cleaned then (sh, { p with hnd := some (hsAfterClean cfg, code) })
      else (sh, { p with hnd := some (.rmPid, code), cleaned := true })
  | .rmPid => ({ sh with pid := none }, { p with hnd := some (.relLock, code) })
  | .relLock => (release sh (.run me), { p with hnd := some (hsAfterClean cfg, code) })
  | .exit => (sh, { p with hnd := none, loc := afterHandler p })

/-- one step of process `me` -/
def stepProc (cfg : Cfg) (me : Nat) (sh : Shared) (p : Proc) : Shared × Proc :=
  match p.dead, p.hnd with
  | some _, _ => (sh, p)
  | none, some (h, code) => handlerStep cfg me sh p code h
  | none, none => mainStep cfg me sh p

def inBody (p : Proc) : Bool := match p.loc with | .body _ => true | _ => false
def noHandler (p : Proc) : Bool := match p.hnd with | none => true | some _ => false

/-- delivery of a signal -/
def deliver (cfg : Cfg) (me : Nat) (sh : Shared) (p : Proc) (sig : Sig) : Shared × Proc :=
  match p.dead with
  | some _ => (sh, p)
  | none =>
  match sig with
  | .kill => (release sh (.run me), { p with dead := some (.signal .kill) })
  | .term =>
      if p.termH then (sh, { p with hnd := some (hsFirst cfg, 15), signalled := true,
                                    sigInBody := p.sigInBody || (inBody p && noHandler p) })
      else (release sh (.run me), { p with dead := some (.signal .term), signalled := true })
  | .int =>
      if p.intH then (sh, { p with hnd := some (hsFirst cfg, 2), signalled := true,
                                   sigInBody := p.sigInBody || (inBody p && noHandler p) })
      else -- default disposition: KeyboardInterrupt at the current point (also inside a running handler)
        match p.loc with
        | .fin (some _) st => (sh, { p with hnd := none, signalled := true, loc := .fin none st })
        | .fin none _ => (sh, { p with signalled := true })
        | _ => (sh, { p with hnd := none, signalled := true, loc := finStart p (.signal .int) })

/-- scheduler side of one launch -/
inductive LState | idle | locked | spawned (q : Nat) | wrote (q : Nat) | gone
  deriving DecidableEq, Repr

def upd {α : Type} (f : Nat → α) (j : Nat) (v : α) (i : Nat) : α := if i = j then v else f i

structure St where
  sh : Shared
  procs : Nat → Proc
  n : Nat                 -- runner processes spawned so far
  ls : Nat → LState       -- launchers (all idle initially)

/-- initial state for a job directory with the given markers -/
def St.init (done : Bool) (failed : Option Nat) : St :=
  { sh := { done := done, failed := failed }, procs := fun _ => {}, n := 0, ls := fun _ => .idle }

def newProc (o : Outcome) (blen : Nat) : Proc := { outcome := o, blen := blen }

inductive Act
  | spawn (o : Outcome) (blen : Nat)           -- the job script is started by hand (no pid file)
  | step (i : Nat)
  | signal (i : Nat) (s : Sig)
  | lLock (l : Nat)                            -- launcher takes the job lock
  | lSpawn (l : Nat) (o : Outcome) (blen : Nat)
  | lWrite (l : Nat)                           -- writes the pid file
  | lRelease (l : Nat)
  | lDie (l : Nat)                             -- the scheduler process dies
  deriving Repr

def act (cfg : Cfg) (s : St) : Act → St
  | .spawn o b => { s with procs := upd s.procs s.n (newProc o b), n := s.n + 1 }
  | .step i =>
      if i < s.n then
        match stepProc cfg i s.sh (s.procs i) with
        | (sh', p') => { s with sh := sh', procs := upd s.procs i p' }
      else s
  | .signal i sig =>
      if i < s.n then
        match deliver cfg i s.sh (s.procs i) sig with
        | (sh', p') => { s with sh := sh', procs := upd s.procs i p' }
      else s
  | .lLock l =>
      if s.ls l = .idle ∧ s.sh.lock = none then
        { s with sh := { s.sh with lock := some (.launch l) }, ls := upd s.ls l .locked } else s
  | .lSpawn l o b =>
      if s.ls l = .locked then
        { s with procs := upd s.procs s.n (newProc o b), n := s.n + 1, ls := upd s.ls l (.spawned s.n) } else s
  | .lWrite l =>
      match s.ls l with
      | .spawned q => { s with sh := { s.sh with pid := some q }, ls := upd s.ls l (.wrote q) }
      | _ => s
  | .lRelease l =>
      match s.ls l with
      | .wrote _ => { s with sh := release s.sh (.launch l), ls := upd s.ls l .gone }
      | _ => s
  | .lDie l =>
      if s.ls l = .idle then s else { s with sh := release s.sh (.launch l), ls := upd s.ls l .gone }

def run (cfg : Cfg) (s : St) : List Act → St
  | [] => s
  | a :: as => run cfg (act cfg s a) as

/-- process `i` runs alone for `fuel` steps -/
def runAlone (cfg : Cfg) (i : Nat) : Nat → St → St
  | 0, s => s
  | fuel + 1, s => runAlone cfg i fuel (act cfg s (.step i))

/-- process `i` is running the task body right now -/
def running (s : St) (i : Nat) : Bool :=
  decide (i < s.n) && (s.procs i).alive && inBody (s.procs i) && noHandler (s.procs i)

def bodiesRunning (s : St) : Nat := ((List.range s.n).filter (running s)).length

/-- the process ended on its own: it exited (no death by signal) and never received SIGTERM/SIGINT -/
def endedOnOwn (p : Proc) : Bool :=
  !p.signalled && (match p.dead with | some (.code _) => true | _ => false)

end XpmVerif.Runner
