"""C15 — parameters only ever hold values of their declared type; submit fails fast.

Tie to the source: type expressions generated from the `Ty` grammar become real annotations on
generated `Config` classes (a real package written to a scratch directory on sys.path, explicit
`__xpmid__`); candidate values (conforming / off by one constructor at one random depth / cross-type)
are assigned through the real constructor or `setattr`; the stored value (canonicalised) or the
exception class is compared with the Lean model (`Drive/C15.lean`).  Configuration graphs over
generated class libraries, with one required value removed at a random node, go to the real
`ConfigInformation.validate` and to the real `submit` inside an `experiment` with an instant launcher.

Monitors (implementation only): a stored value must be a member of the declared type; a conforming
value must be accepted and read back equal; a graph with a reachable missing required value must be
rejected by `submit` with an empty scheduler registry."""
import importlib
import json
import logging
import math
import os
import random
import sys
import time
from pathlib import Path

from .. import common

PROP = "C15"
MODULES = ["XpmVerif.Properties.C15", "XpmVerif.Properties.C15Mro", "XpmVerif.Properties.C15Src", "XpmVerif.Properties.C15X"]
BASE = 1000  # class id of `Config` itself (every configuration is an instance)

# ---------------------------------------------------------------------------
# known findings: `known_findings.json` is assembled by the lead from known_findings.d/*.json;
# until then read our own fragment (local work-around, xv/common.py is not ours to edit)

_orig_load_findings = common.load_findings


def _load_findings(prop):
    got = _orig_load_findings(prop)
    frag = common.VERIF / "known_findings.d" / f"{PROP}.json"
    if prop == PROP and frag.exists():
        mine = json.loads(frag.read_text())
        ids = {f.get("id") for f in mine}
        return mine + [f for f in got if f.get("id") not in ids]
    return got


common.load_findings = _load_findings


def prove(ctx):
    """regenerate Generated/ValidateSrc.lean from the tree under test (translate/typesrc.py), then build + audit; the source
    obligations are the theorems of Properties/C15Src.lean"""
    from ..translate import typesrc
    ok, msg = typesrc.generate(common.REPO, common.LEAN, probe=lambda: probe_impl(ctx))
    ctx.notes.append(f"translator typesrc: {msg}")
    R, fallback = getattr(typesrc.generate, "last", ({}, []))
    ctx.extra_cov["typesrc_translated_parts"] = 17 - len(fallback)
    ctx.extra_cov["typesrc_fallback_parts"] = [n for n, _ in fallback]
    if R:
        ctx.extra_cov["switches_read_off_the_source"] = typesrc.switches(R)
    common.check_proofs(ctx, MODULES, translate_msgs=[(ok, msg)])


# ---------------------------------------------------------------------------
# value descriptions (JSON) <-> Python values


def fl_desc(x):
    if x != x:
        return {"k": "nan"}
    if x in (math.inf, -math.inf):
        return {"k": "inf", "neg": x < 0}
    neg = math.copysign(1.0, x) < 0
    if x == 0:
        return {"k": "fin", "neg": neg, "m": "0", "e": "0"}
    m, e = math.frexp(abs(x))
    M, E = int(m * (1 << 53)), e - 53
    while M % 2 == 0:
        M //= 2
        E += 1
    return {"k": "fin", "neg": neg, "m": str(M), "e": str(E)}


def fl_build(d):
    if d["k"] == "nan":
        return math.nan
    if d["k"] == "inf":
        return -math.inf if d["neg"] else math.inf
    v = math.ldexp(int(d["m"]), int(d["e"]))
    return -v if d["neg"] else v


def D_int(i):
    return {"k": "int", "i": str(i)}


def D_float(x):
    return {"k": "float", "f": fl_desc(x)}


def D_str(s):
    return {"k": "str", "s": s}


def D_path(s):
    return {"k": "path", "s": str(Path(s))}


def D_list(vs):
    return {"k": "list", "vs": vs}


def D_dict(items):
    return {"k": "dict", "ks": [k for k, _ in items], "vs": [v for _, v in items]}


def K_str(s):
    return {"k": "str", "s": s}


NONE = {"k": "none"}


class World:
    """the Python classes a value description refers to + the objects built so far"""

    def __init__(self, enums, classes, mros):
        self.enums = enums  # enum id -> Enum class
        self.classes = classes  # class id -> Config class
        self.mros = mros  # class id -> [ids]
        self.objs = {}  # node id -> object
        self.ids = {}  # id(object) -> node id

    def fresh(self):
        w = World(self.enums, self.classes, self.mros)
        return w

    def obj(self, cls, nid):
        if nid not in self.objs:
            o = self.classes[cls]()
            self.objs[nid] = o
            self.ids[id(o)] = nid
        return self.objs[nid]


OTHERS = {
    ("bytes", True): lambda: b"x", ("bytes", False): lambda: b"",
    ("set", True): lambda: {1}, ("set", False): lambda: set(),
    ("complex", True): lambda: 1j, ("object", True): lambda: object(),
}


def build(d, w):
    k = d["k"]
    if k == "none":
        return None
    if k == "bool":
        return d["b"]
    if k == "int":
        return int(d["i"])
    if k == "float":
        return fl_build(d["f"])
    if k == "str":
        return d["s"]
    if k == "path":
        return Path(d["s"])
    if k == "enum":
        return w.enums[d["c"]][d["n"]]
    if k == "list":
        return [build(x, w) for x in d["vs"]]
    if k == "tuple":
        return tuple(build(x, w) for x in d["vs"])
    if k == "dict":
        return {build_key(kk): build(x, w) for kk, x in zip(d["ks"], d["vs"])}
    if k == "config":
        return w.obj(d["cls"] if "cls" in d else d["mro"][0], d["id"])
    return OTHERS[(d["tag"], d["truthy"])]()


def build_key(kd):
    if kd["k"] == "str":
        return kd["s"]
    if kd["k"] == "int":
        return int(kd["i"])
    return (1, 2)  # another hashable


def canon(o, w):
    """a Python value as a description (inverse of build)"""
    from enum import Enum
    from experimaestro import Config
    if o is None:
        return NONE
    if o is True or o is False:
        return {"k": "bool", "b": o}
    if isinstance(o, int) and type(o) is int:
        return D_int(o)
    if type(o) is float:
        return D_float(o)
    if type(o) is str:
        return D_str(o)
    if isinstance(o, Path):
        return {"k": "path", "s": str(o)}
    if isinstance(o, Enum):
        for c, E in w.enums.items():
            if type(o) is E:
                return {"k": "enum", "c": c, "n": o.name}
        return {"k": "other", "tag": "enum?", "truthy": True}
    if type(o) is list:
        return D_list([canon(x, w) for x in o])
    if type(o) is tuple:
        return {"k": "tuple", "vs": [canon(x, w) for x in o]}
    if type(o) is dict:
        return {"k": "dict", "ks": [canon_key(kk) for kk in o.keys()], "vs": [canon(x, w) for x in o.values()]}
    if isinstance(o, Config):
        nid = w.ids.get(id(o), -1)
        cls = next((c for c, K in w.classes.items() if type(o) is K.__getxpmtype__().configtype), -1)
        return {"k": "config", "cls": cls, "mro": w.mros.get(cls, []), "id": nid}
    tag = {bytes: "bytes", set: "set", complex: "complex"}.get(type(o), "object")
    try:
        t = bool(o)
    except Exception:
        t = True
    return {"k": "other", "tag": tag, "truthy": t}


def canon_key(kk):
    if type(kk) is str:
        return K_str(kk)
    if type(kk) is int:
        return {"k": "int", "i": str(kk)}
    return {"k": "other", "tag": "tuple"}


def with_mro(d, mros):
    """the description as the model wants it: configurations carry their MRO"""
    k = d["k"]
    if k == "config":
        return {"k": "config", "mro": d["mro"] if "mro" in d else mros[d["cls"]], "id": d["id"]}
    if k in ("list", "tuple"):
        return {"k": k, "vs": [with_mro(x, mros) for x in d["vs"]]}
    if k == "dict":
        return {"k": "dict", "ks": d["ks"], "vs": [with_mro(x, mros) for x in d["vs"]]}
    return d


def strip_cls(d):
    """drop what the model does not print (class of a configuration: the MRO says it)"""
    k = d["k"]
    if k == "config":
        return {"k": "config", "mro": d["mro"], "id": d["id"]}
    if k in ("list", "tuple"):
        return {"k": k, "vs": [strip_cls(x) for x in d["vs"]]}
    if k == "dict":
        return {"k": "dict", "ks": d["ks"], "vs": [strip_cls(x) for x in d["vs"]]}
    return d


# ---------------------------------------------------------------------------
# type expressions


def T(k, **kw):
    d = {"k": k}
    d.update(kw)
    return d


SCALARS = ["bool", "int", "float", "str", "path"]


def render_ty(t, names):
    k = t["k"]
    if k in ("bool", "int", "float", "str"):
        return k
    if k == "path":
        return "Path"
    if k == "enum":
        return f"E{t['c']}"
    if k == "cfg":
        return names[t["c"]]
    if k == "opt":
        return f"Optional[{render_ty(t['t'], names)}]"
    if k == "list":
        return f"List[{render_ty(t['t'], names)}]"
    if k == "dict":
        return f"Dict[str, {render_ty(t['t'], names)}]"
    if k == "union":
        return "Union[" + ", ".join(render_ty(x, names) for x in t["ts"]) + "]"
    return "XAny"


_UNION_ORDER = {}


def norm_unions(t):
    """`Param[Union[a, b]]` goes through typing's generic-alias cache, whose keys compare unions as *sets*:
    the order of the alternatives of a union is the order of the first union with these members created in
    the process.  Keep one order per member set so that the declared order is the effective one."""
    k = t["k"]
    if k in ("opt", "list", "dict"):
        return {"k": k, "t": norm_unions(t["t"])}
    if k == "union":
        ts = [norm_unions(x) for x in t["ts"]]
        key = frozenset(json.dumps(x, sort_keys=True) for x in ts)
        if key not in _UNION_ORDER:
            _UNION_ORDER[key] = ts
        return {"k": "union", "ts": _UNION_ORDER[key]}
    return t


def ty_depth(t):
    k = t["k"]
    if k in ("opt", "list", "dict"):
        return 1 + ty_depth(t["t"])
    if k == "union":
        return 1 + max(ty_depth(x) for x in t["ts"])
    return 0


def ty_kinds(t, acc):
    acc.append(t["k"])
    if t["k"] in ("opt", "list", "dict"):
        ty_kinds(t["t"], acc)
    if t["k"] == "union":
        for x in t["ts"]:
            ty_kinds(x, acc)
    return acc


def gen_inner(rng, depth, cfgs, allow_union=True):
    r = rng.random()
    if depth <= 0 or r < 0.42:
        r2 = rng.random()
        if r2 < 0.62:
            return T(rng.choice(SCALARS))
        if r2 < 0.78:
            return T("enum", c=rng.choice([0, 1]))
        return T("cfg", c=rng.choice(cfgs))
    if r < 0.82 and rng.random() < 0.04:
        return T(rng.choice(["list", "dict"]), t=T("any"))
    if r < 0.64:
        return T("list", t=gen_inner(rng, depth - 1, cfgs))
    if r < 0.82:
        return T("dict", t=gen_inner(rng, depth - 1, cfgs))
    if not allow_union:
        return gen_inner(rng, depth, cfgs, False)
    n = rng.choice([2, 2, 3])
    alts, seen = [], set()
    for _ in range(12):
        a = gen_inner(rng, depth - 1, cfgs, allow_union=False)
        s = json.dumps(a, sort_keys=True)
        if s not in seen:
            seen.add(s)
            alts.append(a)
        if len(alts) == n:
            break
    if len(alts) < 2:
        return T("list", t=alts[0])
    return T("union", ts=alts)


def gen_ty(rng, cfgs, maxdepth=3):
    r = rng.random()
    if r < 0.03:
        return T("any")
    d = rng.choice([0, 1, 1, 2, 2, 3][: maxdepth + 3])
    t = gen_inner(rng, d, cfgs)
    if r < 0.17 and t["k"] != "union":
        return T("opt", t=norm_unions(t))
    return norm_unions(t)


def gen_any_ty(rng, cfgs, depth=2):
    """also outside what `Type.fromType` accepts: Optional/Any below the top, Optional[Union]"""
    r = rng.random()
    if depth <= 0 or r < 0.3:
        return rng.choice([T("int"), T("str"), T("any"), T("cfg", c=cfgs[0]), T("enum", c=0), T("path")])
    if r < 0.5:
        x = gen_any_ty(rng, cfgs, depth - 1)
        return x if x["k"] == "opt" else T("opt", t=x)
    if r < 0.65:
        return T("list", t=gen_any_ty(rng, cfgs, depth - 1))
    if r < 0.8:
        return T("dict", t=gen_any_ty(rng, cfgs, depth - 1))
    alts = [gen_any_ty(rng, cfgs, depth - 1) for _ in range(rng.choice([2, 2, 3]))]
    if any(a["k"] in ("union", "opt") for a in alts) or len({json.dumps(a) for a in alts}) < len(alts):
        return T("union", ts=[T("int"), T("str")])
    return T("union", ts=alts)


# ---------------------------------------------------------------------------
# membership (the property's "value of the declared type"), on descriptions; independent of the model


def member(t, v, mros):
    k, vk = t["k"], v["k"]
    if k == "bool":
        return vk == "bool"
    if k == "int":
        return vk in ("int", "bool")
    if k == "float":
        return vk == "float"
    if k == "str":
        return vk == "str"
    if k == "path":
        return vk == "path"
    if k == "enum":
        return vk == "enum" and v["c"] == t["c"]
    if k == "cfg":
        return vk == "config" and t["c"] in (v.get("mro") or mros.get(v.get("cls"), []))
    if k == "opt":
        return vk == "none" or member(t["t"], v, mros)
    if k == "list":
        return vk == "list" and all(member(t["t"], x, mros) for x in v["vs"])
    if k == "dict":
        return vk == "dict" and all(kk["k"] == "str" for kk in v["ks"]) and all(member(t["t"], x, mros) for x in v["vs"])
    if k == "union":
        return any(member(x, v, mros) for x in t["ts"])
    return True


def why_not_member(t, v, mros, g=None):
    """(type constructor, value kind) at the first place where membership fails — names the defect class.
    `g` is the given value at the same place (when the shapes agree): a stored None where None was given
    inside a container of configurations is told apart from a stored None where a dict was given."""
    k, vk = t["k"], v["k"]
    if member(t, v, mros):
        return None
    if k == "opt":
        return why_not_member(t["t"], v, mros, g)
    same = g is not None and g["k"] == vk and vk in ("list", "dict") and len(g["vs"]) == len(v["vs"])
    if k == "list" and vk == "list":
        for i, x in enumerate(v["vs"]):
            r = why_not_member(t["t"], x, mros, g["vs"][i] if same else None)
            if r:
                return r
    if k == "dict" and vk == "dict":
        if not all(kk["k"] == "str" for kk in v["ks"]):
            return "dict-key<-" + next(kk["k"] for kk in v["ks"] if kk["k"] != "str")
        for i, x in enumerate(v["vs"]):
            r = why_not_member(t["t"], x, mros, g["vs"][i] if same else None)
            if r:
                return r
    if k == "union":
        rs = [why_not_member(alt, v, mros, g) for alt in t["ts"] if alt["k"] == vk and vk in ("list", "dict")]
        rs.sort(key=lambda r: (not r.startswith("cfg<-none"), not r.startswith("union<-none")))
        if rs:
            return rs[0]
        if vk == "none" and g is not None and g["k"] == "none" and any(a["k"] == "cfg" for a in t["ts"]):
            return "cfg<-none"  # a configuration alternative let the given None through
    return f"{k}<-{vk}"


def d_truthy(g):
    k = g["k"]
    if k == "none":
        return False
    if k == "bool":
        return g["b"]
    if k == "int":
        return int(g["i"]) != 0
    if k == "float":
        return not (g["f"]["k"] == "fin" and g["f"]["m"] == "0")
    if k == "str":
        return g["s"] != ""
    if k in ("list", "tuple"):
        return bool(g["vs"])
    if k == "dict":
        return bool(g["ks"])
    if k == "other":
        return g["truthy"]
    return True


def d_num(g):
    if g["k"] == "bool":
        return int(g["b"])
    if g["k"] == "int":
        return int(g["i"])
    return fl_build(g["f"])


def equalish(t, s, g, mros):
    """the stored value `s` is the given value `g` up to the documented coercions of the declared type `t`
    (integral float -> int, int -> float, str -> Path; bool() for bool) — stated on descriptions"""
    k = t["k"]
    if k == "bool":
        return s["k"] == "bool" and s["b"] == d_truthy(g)
    if k == "int":
        if s["k"] not in ("int", "bool"):
            return False
        if g["k"] == "float":
            x = fl_build(g["f"])
            return s["k"] == "int" and math.isfinite(x) and x == int(x) and int(s["i"]) == int(x)
        return s == g
    if k == "float":
        if s["k"] != "float":
            return False
        if g["k"] == "float":
            return s == g
        if g["k"] in ("int", "bool"):
            try:
                return s == D_float(float(d_num(g)))
            except OverflowError:
                return False
        return False
    if k == "path":
        if s["k"] != "path":
            return False
        if g["k"] == "str":
            return s["s"] == str(Path(g["s"]))
        if g["k"] == "dict":  # the serialised form {"$type": "path", "$value": ...}
            d = {kk.get("s"): x for kk, x in zip(g["ks"], g["vs"])}
            x = d.get("$value")
            return d.get("$type") == D_str("path") and x is not None and x["k"] in ("str", "path") and s["s"] == str(Path(x["s"]))
        return s == g
    if k in ("str", "enum"):
        return s == g and member(t, s, mros)
    if k == "cfg":
        return s["k"] == "config" and g["k"] == "config" and s["id"] == g["id"]
    if k == "opt":
        return (s["k"] == "none" and g["k"] == "none") or equalish(t["t"], s, g, mros)
    if k == "list":
        return s["k"] == "list" and g["k"] == "list" and len(s["vs"]) == len(g["vs"]) and \
            all(equalish(t["t"], a, b, mros) for a, b in zip(s["vs"], g["vs"]))
    if k == "dict":
        return s["k"] == "dict" and g["k"] == "dict" and s["ks"] == g["ks"] and len(s["vs"]) == len(g["vs"]) and \
            all(equalish(t["t"], a, b, mros) for a, b in zip(s["vs"], g["vs"]))
    if k == "union":
        return any(member(a, s, mros) and equalish(a, s, g, mros) for a in t["ts"])
    return s == g


def coercible(t, g, mros):
    """`g` is a member of `t` or becomes one by a documented coercion"""
    k = t["k"]
    if k == "bool":
        return True
    if k == "int":
        if g["k"] == "float":
            x = fl_build(g["f"])
            return math.isfinite(x) and x == int(x)
        return g["k"] in ("int", "bool")
    if k == "float":
        if g["k"] in ("int", "bool"):
            try:
                float(d_num(g))
                return True
            except OverflowError:
                return False
        return g["k"] == "float"
    if k == "path":
        return g["k"] in ("path", "str")
    if k == "opt":
        return g["k"] == "none" or coercible(t["t"], g, mros)
    if k == "list":
        return g["k"] == "list" and all(coercible(t["t"], x, mros) for x in g["vs"])
    if k == "dict":
        return g["k"] == "dict" and all(kk["k"] == "str" for kk in g["ks"]) and all(coercible(t["t"], x, mros) for x in g["vs"])
    if k == "union":
        return any(coercible(a, g, mros) for a in t["ts"])
    return member(t, g, mros)


def union_domain(t):
    """unions inside the domain of `validate_conforming_id_union`: alternatives that neither coerce
    to an unequal value nor swallow everything (no bool, float, path alternative)"""
    k = t["k"]
    if k in ("opt", "list", "dict"):
        return union_domain(t["t"])
    if k == "union":
        return all(union_alt(x) for x in t["ts"])
    return True


def union_alt(t):
    k = t["k"]
    if k in ("int", "str", "enum", "cfg"):
        return True
    if k in ("list", "dict"):
        return union_alt(t["t"])
    if k == "union":
        return all(union_alt(x) for x in t["ts"])
    return False


def has_union(t):
    return "union" in ty_kinds(t, [])


# ---------------------------------------------------------------------------
# candidate values

INTS = [0, 1, -1, 2, 3, -7, 255, 2**53, 2**53 + 1, -(2**53) - 1, 10**30, -(10**30), 2**1023, 2**1024, 2**1024 - 2**970,
        2**1024 - 2**970 - 1, 2**70 + 2**17]
FLOATS = [0.0, -0.0, 1.0, 2.0, -3.0, 2.5, -0.5, -2.5, -1e-300, 1e300, 1e-300, 5e-324, 2.0**53, float(2**70), math.inf, -math.inf, math.nan,
          1.7976931348623157e308, 1e22, 123456789.0]
STRS = ["", "a", "ab", "path", "$type", "x/y", "a//b/./c/", "/abs/p", "//net/x", "///t", "é", "中", "a b", ".", "..", "./r",
        "r/..", "/", "3", "2.5", "-1", "1e3", "nan", "inf", " 4 ", "True", "0"]
KEYS = ["a", "b", "k1", "$type", "$value", "type", "", "x/y"]
ENUMS = {0: ["A", "B", "C"], 1: ["A", "Z"]}


class ValGen:
    def __init__(self, rng, mros, mk_cfg, safe=False):
        self.rng = rng
        self.mros = mros
        self.mk_cfg = mk_cfg
        self.safe = safe  # values that the identifier computation of a real submit can digest (C01-C03 are other checks)  # class id -> config description (fresh or shared object of that class or a subclass)

    def scalar(self, k):
        rng = self.rng
        if k == "bool":
            return {"k": "bool", "b": rng.random() < 0.5}
        if k == "int":
            if rng.random() < 0.06:
                return {"k": "bool", "b": rng.random() < 0.5}
            if self.safe:
                return D_int(rng.choice([0, 1, -1, 2, 3, -7, 255, 2**53, 2**53 + 1, -(2**62)]) if rng.random() < 0.5 else rng.randint(-10**6, 10**6))
            return D_int(rng.choice(INTS) if rng.random() < 0.7 else rng.randint(-10**6, 10**6))
        if k == "float":
            return D_float(rng.choice(FLOATS) if rng.random() < 0.8 else rng.uniform(-1e6, 1e6))
        if k == "str":
            return D_str(rng.choice(STRS))
        return D_path(rng.choice(STRS))

    def conforming(self, t, size=3):
        rng = self.rng
        k = t["k"]
        if k in SCALARS:
            return self.scalar(k)
        if k == "enum":
            return {"k": "enum", "c": t["c"], "n": rng.choice(ENUMS[t["c"]])}
        if k == "cfg":
            return self.mk_cfg(t["c"])
        if k == "opt":
            return NONE if rng.random() < 0.3 else self.conforming(t["t"], size)
        if k == "list":
            return D_list([self.conforming(t["t"], size - 1) for _ in range(rng.choice([0, 1, 1, 2, 3][: size + 2]))])
        if k == "dict":
            keys = rng.sample(KEYS, rng.choice([0, 1, 1, 2, 3][: size + 2]))
            return D_dict([(K_str(kk), self.conforming(t["t"], size - 1)) for kk in keys])
        if k == "union":
            return self.conforming(rng.choice(t["ts"]), size)
        return self.cross()

    def cross(self):
        """a value of a random kind"""
        rng = self.rng
        r = rng.randrange(20)
        if r < 5:
            return self.scalar(rng.choice(SCALARS))
        if r == 5:
            return NONE
        if r == 6:
            return {"k": "enum", "c": rng.choice([0, 1]), "n": "A"}
        if r == 7:
            return self.mk_cfg(None)
        if r == 8:
            return D_list([self.cross() for _ in range(rng.choice([0, 1, 2]))])
        if r == 9:
            return {"k": "tuple", "vs": [self.scalar("int") for _ in range(rng.choice([0, 1, 2]))]}
        if r == 10:
            return D_dict([(K_str(kk), self.cross()) for kk in rng.sample(KEYS, rng.choice([0, 1, 2]))])
        if r == 11:
            return D_dict([({"k": "int", "i": "1"}, self.scalar("int"))])
        if r == 12:
            return rng.choice([
                D_dict([(K_str("$type"), D_str("path")), (K_str("$value"), D_str(rng.choice(STRS)))]),
                D_dict([(K_str("$type"), D_str("path"))]),
                D_dict([(K_str("$type"), D_str("path")), (K_str("$value"), D_int(3))]),
                D_dict([(K_str("$type"), D_str("other")), (K_str("$value"), D_str("x"))]),
                D_dict([(K_str("$value"), D_str("x")), (K_str("$type"), D_str("path"))]),
                D_dict([(K_str("$type"), D_str("path")), (K_str("$value"), D_path("p/q"))]),
            ])
        if r == 13:
            tag, tr = rng.choice(list(OTHERS.keys()))
            return {"k": "other", "tag": tag, "truthy": tr}
        if r == 14:
            return D_float(rng.choice([2.0, -3.0, 0.0, -0.0, 2.0**53, float(2**70), 1e22, math.inf, -math.inf, math.nan, 2.5]))
        if r == 15:
            return D_int(rng.choice(INTS))
        if r == 16:
            return D_str(rng.choice(STRS))
        if r == 17:
            return {"k": "bool", "b": rng.random() < 0.5}
        if r == 18:
            return D_list([self.scalar(rng.choice(["int", "str"])) for _ in range(rng.choice([1, 2]))])
        return D_list([NONE])

    def wrong(self, t):
        """a value whose outermost constructor is not one of `t` (coercible ones included)"""
        for _ in range(40):
            w = self.cross()
            if not member(t, w, self.mros):
                return w
        return {"k": "other", "tag": "object", "truthy": True}

    def positions(self, t, v, acc, path=()):
        """(path, type at that place) for every sub-value of a conforming value"""
        acc.append((path, t))
        k = t["k"]
        if k == "opt" and v["k"] != "none":
            acc.pop()
            self.positions(t["t"], v, acc, path)
        elif k == "list" and v["k"] == "list":
            for i, x in enumerate(v["vs"]):
                self.positions(t["t"], x, acc, path + (i,))
        elif k == "dict" and v["k"] == "dict":
            for i, x in enumerate(v["vs"]):
                self.positions(t["t"], x, acc, path + (i,))
        elif k == "union":
            alt = next((a for a in t["ts"] if member(a, v, self.mros)), None)
            if alt is not None and alt["k"] in ("list", "dict"):
                acc.pop()
                self.positions(alt, v, acc, path)
        return acc

    def mutate(self, t, v):
        """off by one constructor at one random depth; returns (value, depth)"""
        pos = self.positions(t, v, [])
        # deeper places are fewer: pick the depth first
        depths = sorted({len(p) for p, _ in pos})
        d = self.rng.choice(depths)
        path, tt = self.rng.choice([x for x in pos if len(x[0]) == d])
        if tt["k"] == "dict" and self.rng.random() < 0.25:
            sub = get_at(v, path)
            if sub["k"] == "dict" and sub["ks"]:
                ks = list(sub["ks"])
                ks[self.rng.randrange(len(ks))] = {"k": "int", "i": str(self.rng.choice([0, 1, 7]))}
                return set_at(v, path, {"k": "dict", "ks": ks, "vs": sub["vs"]}), d
        if tt["k"] == "list" and self.rng.random() < 0.15:
            sub = get_at(v, path)
            if sub["k"] == "list":
                return set_at(v, path, {"k": "tuple", "vs": sub["vs"]}), d
        return set_at(v, path, self.wrong(tt)), d


def get_at(v, path):
    for i in path:
        v = v["vs"][i]
    return v


def set_at(v, path, new):
    if not path:
        return new
    vs = list(v["vs"])
    vs[path[0]] = set_at(vs[path[0]], path[1:], new)
    out = dict(v)
    out["vs"] = vs
    return out


# ---------------------------------------------------------------------------
# generated packages (real source files on sys.path)

HEADER = '''"""generated by xv.props.c15 — scratch, removed at the end of the check"""
from enum import Enum
from pathlib import Path
from typing import Annotated, Dict, List, Optional, Union
from experimaestro import Config, Constant, LightweightTask, Meta, Param, Task, pathgenerator
from experimaestro import param, option, pathoption
from experimaestro.annotations import constant
from experimaestro.core.types import Any as XAny
'''

LIB = HEADER + '''

class E0(Enum):
    A = 1
    B = 2
    C = 3


class E1(Enum):
    A = 1
    Z = 26


class S0(Config):
    __xpmid__ = "{pkg}.s0"
    v: Param[int] = 0


class S1(S0):
    __xpmid__ = "{pkg}.s1"
    w: Param[Optional[str]]


class S2(Config):
    __xpmid__ = "{pkg}.s2"


class S3(S1):
    __xpmid__ = "{pkg}.s3"


class PGen(Config):
    __xpmid__ = "{pkg}.pgen"
    x: Annotated[Path, pathgenerator("out.txt")]


class PConst(Config):
    __xpmid__ = "{pkg}.pconst"
    x: Constant[int] = 3
'''

S_MROS = {0: [0, BASE], 1: [1, 0, BASE], 2: [2, BASE], 3: [3, 1, 0, BASE]}
S_NAMES = {0: "S0", 1: "S1", 2: "S2", 3: "S3"}


class Pkg:
    """one scratch package per check run"""

    def __init__(self, ctx):
        self.name = f"xvc15_{os.getpid()}_{ctx.seed}_{int(time.time() * 1000) % 100000}"
        self.root = ctx.tmpdir() / "pkgs"
        self.dir = self.root / self.name
        self.dir.mkdir(parents=True, exist_ok=True)
        (self.dir / "__init__.py").write_text("")
        (self.dir / "lib.py").write_text(LIB.replace("{pkg}", self.name))
        if str(self.root) not in sys.path:
            sys.path.insert(0, str(self.root))
        importlib.invalidate_caches()
        self.lib = importlib.import_module(f"{self.name}.lib")
        self.n = 0

    def module(self, body):
        self.n += 1
        mod = f"m{self.n}"
        (self.dir / f"{mod}.py").write_text(HEADER + f"from {self.name}.lib import *\n" + body)
        importlib.invalidate_caches()
        return mod, importlib.import_module(f"{self.name}.{mod}")

    def s_world(self):
        L = self.lib
        return World({0: L.E0, 1: L.E1}, {0: L.S0, 1: L.S1, 2: L.S2, 3: L.S3}, dict(S_MROS))


_PKG = {}


def pkg(ctx):
    if id(ctx) not in _PKG:
        logging.disable(logging.CRITICAL)
        _PKG.clear()
        _PKG[id(ctx)] = Pkg(ctx)
    return _PKG[id(ctx)]


def exc_class(e):
    if isinstance(e, (TypeError, ValueError)):
        return "invalid"
    if isinstance(e, AssertionError):
        return "assertion"
    if isinstance(e, OverflowError):
        return "overflow"
    if isinstance(e, AttributeError):
        return "attribute"
    return "other:" + type(e).__name__


# ---------------------------------------------------------------------------
# probing the four behaviour switches of the source (see Model/Validate.lean `Impl`)


def probe_impl(ctx):
    P = pkg(ctx)
    if getattr(P, "impl", None):
        return P.impl
    norm_unions(T("union", ts=[T("int"), T("str")]))
    norm_unions(T("union", ts=[T("list", t=T("enum", c=0)), T("str")]))
    body = f'''
class PU(Config):
    __xpmid__ = "{P.name}.probe.pu"
    u: Param[Union[int, str]]
    e: Param[E0]
    l: Param[List[S0]]
    n: Param[Union[List[E0], str]]


class PSub(Config):
    __xpmid__ = "{P.name}.probe.psub"
    x: Meta[int]


class PTop(Config):
    __xpmid__ = "{P.name}.probe.ptop"
    subs: Param[List[PSub]]


class PDir(Config):
    __xpmid__ = "{P.name}.probe.pdir"
    sub: Param[PSub]
'''
    _, M = P.module(body)
    impl = {}
    try:
        impl["unionDictNone"] = M.PU(u={"a": 1}).__xpm__.values.get("u", 0) is None
    except Exception:
        impl["unionDictNone"] = False
    try:
        M.PU(e=3)
        impl["enumAssert"] = False
    except Exception as e:
        # "assertion" = an exception that unions do not handle (they catch ValueError / TypeError); an exception that is
        # both a ValueError and an AssertionError (kept for callers of the old behaviour) counts as "invalid"
        impl["enumAssert"] = exc_class(e) == "assertion"
    try:
        impl["cfgNoneOk"] = M.PU(l=[None]).__xpm__.values.get("l") == [None]
    except Exception:
        impl["cfgNoneOk"] = False
    try:
        M.PU(n=3)
        impl["enumNameFails"] = False
    except AttributeError:
        impl["enumNameFails"] = True
    except Exception:
        impl["enumNameFails"] = False
    try:
        M.PTop(subs=[M.PSub()]).__xpm__.validate()
        impl["deepValidate"] = False
    except ValueError:
        impl["deepValidate"] = True
    o = M.PDir(sub=M.PSub())
    res = []
    for _ in range(2):
        try:
            o.__xpm__.validate()
            res.append("ok")
        except ValueError:
            res.append("missing")
    impl["resetOnFail"] = res == ["missing", "missing"]
    P.impl = impl
    ctx.extra_cov["source_variant"] = impl
    tr = ctx.extra_cov.get("switches_read_off_the_source")
    if tr is not None:
        ctx.extra_cov["switches_probed_equal_translated"] = (tr == impl)
        if tr != impl:
            ctx.notes.append(f"switches read off the source {tr} differ from the probed ones {impl}: the correspondence runs with the probed ones")
    ctx.extra_cov["switch_hypotheses_met_by_the_probed_source"] = {
        "validate_sound / set_sound for every type (else only where no Union / no nested configuration class occurs)":
            not impl["unionDictNone"] and not impl["cfgNoneOk"],
        "validate_conforming_id / set_conforming_id / scalar_coercions_exact (no switch needed)": True,
        "validate_conforming_id_union": not impl["unionDictNone"] and not impl["enumAssert"] and not impl["enumNameFails"],
        "validate_finds_missing / submit_rejects_missing over all edges (else validate_finds_missing_walk: direct values, pre/init tasks)":
            impl["deepValidate"],
        "validate_history_sound, failing validations keep the flags trustworthy": impl["resetOnFail"],
    }
    return impl


# ---------------------------------------------------------------------------
# set cases


def gen_set_cases(ctx, rng, ntypes):
    """[(arg, [(kind, value-description)])]"""
    out = []
    nid = [0]

    def mk_cfg(c):
        if c is None:
            c = rng.choice([0, 1, 2, 3])
        else:
            c = rng.choice([k for k, m in S_MROS.items() if c in m])
        nid[0] += 1
        return {"k": "config", "cls": c, "id": nid[0]}

    vg = ValGen(rng, S_MROS, mk_cfg)
    for _ in range(ntypes):
        t = gen_ty(rng, [0, 1, 2, 3])
        arg = {"ty": t, "default": None, "generator": False, "constant": False}
        inner = t["t"] if t["k"] == "opt" else t
        if t["k"] not in ("opt",) and not ({"cfg", "any", "union"} & set(ty_kinds(t, []))) and rng.random() < 0.15:
            # a default must be clonable (no Any) and is itself validated when the class is initialised (no Union: N2 would hit it)
            arg["default"] = vg.conforming(inner)
            if arg["default"]["k"] == "none":  # `= None` declares no default
                arg["default"] = None
        vals = []
        for _ in range(rng.choice([2, 3])):
            vals.append(("conforming", vg.conforming(t), 0))
        for _ in range(rng.choice([3, 4, 5])):
            base = vg.conforming(inner)
            m, d = vg.mutate(inner, base)
            vals.append(("mutated", m, d))
        for _ in range(rng.choice([1, 2])):
            vals.append(("cross", vg.cross(), 0))
        if rng.random() < 0.3:
            vals.append(("none", NONE, 0))
        if set(ty_kinds(t, [])) <= {"int", "str", "bool", "list", "opt", "enum"} and rng.random() < 0.9:
            # Argument.checker: `Annotated[T, Choices([...])]` — some of the conforming candidates are among the choices, some not
            ch = [v for k_, v, _ in vals[:1] if v["k"] != "none"] + [vg.conforming(inner)]
            if arg["default"] is not None:
                ch.append(arg["default"])   # the default goes through `set` when an object is created: a class whose default its own checker refuses cannot be instantiated
            arg["choices"] = [c for c in ch if c["k"] != "none"]
            if not arg["choices"]:
                del arg["choices"]
        out.append((arg, vals))
    return out


SPECIAL = [  # read-only arguments: generator, constant
    ("PGen", {"ty": T("path"), "default": None, "generator": True, "constant": False}, D_path("a/b")),
    ("PGen", {"ty": T("path"), "default": None, "generator": True, "constant": False}, NONE),
    ("PConst", {"ty": T("int"), "default": D_int(3), "generator": False, "constant": True}, D_int(4)),
    ("PConst", {"ty": T("int"), "default": D_int(3), "generator": False, "constant": True}, D_int(3)),
]


def arg_line(arg):
    d = {"ty": arg["ty"], "default": arg["default"] is not None, "generator": arg["generator"], "constant": arg["constant"]}
    if arg.get("choices"):
        d["choices"] = arg["choices"]
    return d


def in_choices(arg, value, w):
    """`Choices.check`: value == choice for some choice (python equality on the built values)"""
    return any(value == build(c, w) for c in arg["choices"])


def required(arg):
    return arg["ty"]["k"] != "opt" and arg["default"] is None


def _clonable(vd):
    """values `clone()` handles (a declared default is cloned for every instance): scalars, paths, enums, lists, dicts"""
    k = vd["k"]
    if k in ("bool", "int", "float", "str", "path", "enum", "none"):
        return True
    if k == "list":
        return all(_clonable(x) for x in vd["vs"])
    if k == "dict":
        return all(kk["k"] in ("str", "int") for kk in vd["ks"]) and all(_clonable(x) for x in vd["vs"])
    return False


def run_set_cases(ctx, groups, with_model=True, source="generated"):
    """groups: [(arg, [(kind, value, depth)])] -> assigns through the real code, monitors, compares with the model"""
    P = pkg(ctx)
    impl = probe_impl(ctx)
    W0 = P.s_world()
    body = ["import json as _json", "from xv.props import c15 as _H", f"import {P.name}.lib as _L",
            "from experimaestro.checkers import Choices as _Choices",
            "_W = _H.World({0: _L.E0, 1: _L.E1}, {0: _L.S0, 1: _L.S1, 2: _L.S2, 3: _L.S3}, dict(_H.S_MROS))"]
    for i, (arg, _) in enumerate(groups):
        ann = render_ty(arg["ty"], S_NAMES)
        dflt = ""
        if arg["default"] is not None:
            dflt = f" = _H.build(_json.loads({json.dumps(json.dumps(arg['default']))}), _W)"
        hint = f"Param[{ann}]"
        if arg.get("choices"):
            hint = f"Annotated[{ann}, _Choices([_H.build(_c, _W) for _c in _json.loads({json.dumps(json.dumps(arg['choices']))})])]"
        body.append(f"\n\nclass C{i}(Config):\n    __xpmid__ = \"{P.name}.set{P.n + 1}.c{i}\"\n    x: {hint}{dflt}\n")
    # fourth entry point: the value is the DECLARED DEFAULT of the parameter (validated and coerced when the class is first
    # instantiated); the class is built inside a factory so that a rejected default raises at the call, like an assignment
    as_default = {}
    for i, (arg, vals) in enumerate(groups):
        # (a declared default is validated by the type only — `addArgument` calls `argument.type.validate(default)`, not the
        # checker: arguments with a checker are not exercised through that entry point)
        if arg["default"] is None and not arg.get("choices") and not ({"cfg", "any", "union"} & set(ty_kinds(arg["ty"], []))):
            for j, (kind, vd, depth) in enumerate(vals):
                if (i + j) % 4 == 0 and vd["k"] != "none" and kind != "none" and _clonable(vd):
                    ann = render_ty(arg["ty"], S_NAMES)
                    body.append(f"\n\ndef mkD{i}_{j}():\n    class D{i}_{j}(Config):\n        __xpmid__ = \"{P.name}.set{P.n + 1}.d{i}x{j}\"\n"
                                f"        x: Param[{ann}] = _H.build(_json.loads({json.dumps(json.dumps(vd))}), _W)\n    return D{i}_{j}()\n")
                    as_default[(i, j)] = True
    _, M = P.module("\n".join(body))
    lines, impls, metas = [], [], []
    for i, (arg, vals) in enumerate(groups):
        cls = getattr(M, f"C{i}")
        for j, (kind, vd, depth) in enumerate(vals):
            one_set_case(ctx, cls, arg, kind, vd, depth, W0, impl, lines, impls, metas, source)
            if (i, j) in as_default:
                one_set_case(ctx, cls, arg, kind, vd, depth, W0, impl, lines, impls, metas, source, factory=getattr(M, f"mkD{i}_{j}"))
    for name, arg, vd in SPECIAL if source == "generated" else []:
        one_set_case(ctx, getattr(P.lib, name), arg, "readonly", vd, 0, W0, impl, lines, impls, metas, source)
    if with_model and lines:
        compare(ctx, lines, impls, metas)


def one_set_case(ctx, cls, arg, kind, vd, depth, W0, impl, lines, impls, metas, source, factory=None):
    rng_via = (len(lines) % 3 == 0)
    # third public entry point: copyconfig(cfg, x=v) (it lifts the read-only restriction by design: not used for constants / generated)
    via_copy = (len(lines) % 7 == 3) and not arg.get("constant") and not arg.get("generator") and factory is None
    w = W0.fresh()
    t = arg["ty"]
    vdm = with_mro(vd, S_MROS)
    case = {"op": "set", "arg": arg_line(arg), "argd": arg, "v": vdm, "kind": kind, "via": "default" if factory is not None else "copyconfig" if via_copy else ("setattr" if rng_via else "ctor")}
    try:
        v = build(vd, w)
    except Exception as e:  # not a buildable candidate
        ctx.count("unbuildable", type(e).__name__)
        return
    out, stored_d = None, None
    try:
        if factory is not None:
            o = factory()
        elif via_copy:
            from experimaestro import copyconfig
            o = copyconfig(cls(), x=v)
        elif rng_via:
            o = cls()
            o.x = v
        else:
            o = cls(x=v)
        readback = o.x  # the public observable; the internal table is a cross-check when it is there
        stored = getattr(o.__xpm__, "values", {}).get("x", readback)
        stored_d = canon(stored, w)
        out = {"r": "ok", "v": strip_cls(stored_d)}
        if not (readback is stored or readback == stored):
            ctx.monitor_fail("readback-differs", f"{render_ty(t, S_NAMES)}: attribute reads {readback!r}, stored {stored!r}", case)
    except Exception as e:
        out = {"r": "err", "e": exc_class(e)}
        stored = None
    # ---- monitors (implementation only)
    is_member = member(t, vdm, S_MROS)
    tyname = render_ty(t, S_NAMES)
    if out["r"] == "ok":
        sd = strip_cls(stored_d)
        ok_none = sd["k"] == "none" and not required(arg) and vd["k"] == "none"
        if not ok_none and not member(t, sd, S_MROS):
            why = why_not_member(t["t"] if t["k"] == "opt" else t, sd, S_MROS, vdm)
            ctx.monitor_fail(f"stored-nonmember:{why}",
                             f"Param[{tyname}] given {v!r} stores {stored!r}, which is not a {tyname} ({why}) and no exception is raised", case)
        elif not ok_none and not equalish(t, sd, vdm, S_MROS):
            ctx.monitor_fail(f"stored-not-the-given-value:{'union' if has_union(t) else t['k']}",
                             f"Param[{tyname}] given {v!r} stores {stored!r}: not the given value up to the documented coercions", case)
    # (checkers are not part of the property's statement: no monitor of their own, the model comparison covers them)
    refused = bool(arg.get("choices")) and out["r"] == "err" and vd["k"] != "none"
    if refused:
        # a conforming value outside the choices must be rejected: tell the checker's refusal from the type's by asking the type alone
        try:
            refused = not in_choices(arg, cls.__getxpmtype__().arguments["x"].type.validate(v), w)
        except Exception:
            refused = False
    ctx.count("set_checker", "none" if not arg.get("choices") else ("refused" if refused else out["r"]))
    if kind != "readonly" and not (vd["k"] == "none" and required(arg)) and coercible(t, vdm, S_MROS) and not refused:
        in_domain = union_domain(t)
        if not in_domain:
            ctx.count("conforming_outside_union_domain", out["r"])
        elif out["r"] == "err":
            ctx.monitor_fail(f"acceptable-rejected:{out['e']}:{'union' if has_union(t) else t['k']}",
                             f"Param[{tyname}] rejects the {'conforming' if is_member else 'coercible'} value {v!r} with {out['e']}", case)
        elif is_member and not (stored is v or stored == v):
            ctx.monitor_fail(f"conforming-changed:{'union' if has_union(t) else t['k']}",
                             f"Param[{tyname}] given the conforming value {v!r} reads back {stored!r}", case)
    # ---- bookkeeping
    line = {"op": "set", "impl": impl, "arg": arg_line(arg), "v": vdm}
    lines.append(line)
    impls.append(out)
    metas.append({"member": is_member, "case": case,
                  "eq": None if out["r"] != "ok" else bool(stored is v or stored == v),
                  "member_out": None if out["r"] != "ok" else (member(t, strip_cls(stored_d), S_MROS) or (strip_cls(stored_d)["k"] == "none" and not required(arg)))})
    nt = ty_depth(t) >= 1 and (kind in ("conforming", "mutated"))
    ctx.case(case, nt)
    ctx.count("set_kind", kind)
    ctx.count("set_via", case["via"])
    ctx.count("set_outcome", out["r"] if out["r"] == "ok" else out["e"])
    ctx.count("type_depth", ty_depth(t))
    if kind == "mutated":
        ctx.count("mutation_depth", depth)
    for kk in set(ty_kinds(t, [])):
        ctx.count("type_constructor", kk)
    ctx.count("value_kind", vd["k"])


_QUEUE = []  # (kind, line, impl, meta): every model question of a run goes to the driver in one call


def compare(ctx, lines, impls, metas):
    _QUEUE.extend(("set", l, i, m) for l, i, m in zip(lines, impls, metas))


def flush(ctx):
    """one driver run for everything queued, then the comparisons"""
    q = list(_QUEUE)
    del _QUEUE[:]
    if not q:
        return
    try:
        outs = common.run_driver("C15", [l for _, l, _, _ in q])
    except Exception as e:
        ctx.disagree({"driver": "C15"}, None, None, f"model driver failed: {e}")
        return
    for (kind, line, i, meta), m in zip(q, outs):
        ctx.traces_validated += 1
        if kind == "set":
            compare_set(ctx, line, m, i, meta)
        elif kind == "decl":
            if m != i:
                ctx.disagree(line, m, i, "declarable: model and implementation differ")
        elif kind == "history":
            compare_history(ctx, line, m, i, meta)
        elif kind == "lib":
            compare_lib(ctx, line, m, i, meta)
        else:
            compare_graph(ctx, line, m, i, meta)


def compare_set(ctx, line, m, i, meta):
    mm = {k: m[k] for k in ("r", "v", "e") if k in m}
    if mm != i:
        ctx.disagree(line, mm, i, "set: model and implementation differ")
        return
    if m.get("conf_in") != meta["member"]:
        ctx.disagree(line, m.get("conf_in"), meta["member"], "conforms (model) differs from isinstance-membership (python)")
    if m["r"] == "ok":
        if m.get("eq") != meta["eq"]:
            ctx.disagree(line, m.get("eq"), meta["eq"], "pyEq (model) differs from == (python)")
        if m.get("conf_out") != meta["member_out"]:
            ctx.disagree(line, m.get("conf_out"), meta["member_out"], "conforms of the stored value differs")


# ---------------------------------------------------------------------------
# declarability of annotations (`Type.fromType`)


def run_decl_cases(ctx, rng, n):
    P = pkg(ctx)
    norm_unions(T("union", ts=[T("int"), T("str")]))
    tys = [gen_any_ty(rng, [0, 1, 2, 3]) for _ in range(n)]
    tys += [T("opt", t=T("union", ts=[T("int"), T("str")])), T("list", t=T("opt", t=T("int"))), T("list", t=T("any")), T("any"),
            T("union", ts=[T("any"), T("int")]), T("union", ts=[T("int"), T("any")]), T("union", ts=[T("int"), T("str"), T("any")]),
            T("opt", t=T("any")), T("list", t=T("union", ts=[T("int"), T("any")])),
            T("opt", t=T("cfg", c=0)), T("dict", t=T("list", t=T("cfg", c=1)))]
    tys = [norm_unions(t) for t in tys]
    body = []
    for i, t in enumerate(tys):
        body.append(f"\n\ndef mk{i}():\n    class D{i}(Config):\n        __xpmid__ = \"{P.name}.decl{P.n + 1}.d{i}\"\n"
                    f"        x: Param[{render_ty(t, S_NAMES)}]\n    D{i}.__getxpmtype__().arguments\n    return D{i}()\n")
    _, M = P.module("\n".join(body))
    lines, impls = [], []
    for i, t in enumerate(tys):
        try:
            getattr(M, f"mk{i}")()
            ok = True
        except Exception:
            ok = False
        lines.append({"op": "decl", "impl": {}, "ty": t})
        impls.append({"ok": ok})
        ctx.case({"op": "decl", "ty": t}, ty_depth(t) >= 1)
        ctx.count("decl_outcome", ok)
    _QUEUE.extend(("decl", l, i, None) for l, i in zip(lines, impls))


# ---------------------------------------------------------------------------
# configuration graphs


def gen_lib(rng, hist=False):
    """a class library: classes[i] only refers to classes[j], j < i (plus `Config` itself).
    hist: for histories of submissions — more task classes, and tasks may be parameter values of later classes"""
    n = rng.choice([6, 7, 8] if hist else [5, 6, 7, 8])
    ntask = rng.choice([3, 4]) if hist else 2
    # multiple inheritance (diamonds, two unrelated parents) with re-declared parameters: in about half of the libraries,
    # which then get two more configuration classes
    mi = rng.random() < 0.6
    if mi:
        n += 3
    classes = []
    for i in range(n):
        base = "Task" if i >= n - ntask else ("LightweightTask" if i == 1 else "Config")
        parent = None
        parents = []
        same = [j for j, c in enumerate(classes) if c["base"] == base and base == "Config"]
        if same and rng.random() < (0.75 if mi else 0.2):
            parent = rng.choice(same)
            parents = [parent]
            if mi and len(same) >= 2 and rng.random() < 0.85:
                # a second base: preferably one that shares an ancestor with the first (a diamond)
                others = [j for j in same if j != parent and j not in classes[parent]["mro"] and parent not in classes[j]["mro"]]
                dia = [j for j in others if set(classes[j]["mro"]) & set(classes[parent]["mro"]) - {BASE}]
                pick = dia if dia and rng.random() < 0.7 else others
                if pick:
                    parents = [parent, rng.choice(pick)]
                    if rng.random() < 0.5:
                        parents.reverse()
                    parent = parents[0]
        cfgs = [j for j, c in enumerate(classes) if c["base"] == "Config"]
        if hist:
            tk = [j for j, c in enumerate(classes) if c["base"] == "Task"]
            cfgs = cfgs + tk + tk  # tasks as parameter values, favoured
        own = []
        if parents:
            # re-declarations of inherited parameters: another scalar type, Optional added/removed, default added/removed
            inherited = lib_table(classes, c3_mro(None, parents, classes) or list(classes[parent]["mro"]), None)
            for x, _, d in inherited:
                inner = d["ty"]["t"] if d["ty"]["k"] == "opt" else d["ty"]
                if d["generator"] or d["constant"] or inner["k"] not in ("int", "float", "str", "bool") or rng.random() >= (0.4 if mi else 0.0):
                    continue
                nd_ = {"name": x, "ty": inner, "meta": d["meta"], "default": None, "generator": False, "constant": False, "dkey": f"{x}@{i}"}
                how = rng.choice(["type", "type", "opt", "default"])
                # `ArgumentOptions.create` takes `getattr(cls, name, None)` as the default: a default declared by any ancestor is
                # inherited as a class attribute, so a re-declaration below it always brings its own
                inh_default = any(a["name"] == x and a["default"] is not None for q in classes for a in q["own"])
                if inh_default:
                    if how == "type":
                        nd_["ty"] = T(rng.choice([k for k in ("int", "float", "str", "bool") if k != inner["k"]]))
                    nd_["default"] = "conforming"
                    own.append(nd_)
                    continue
                if how == "type":
                    nd_["ty"] = T(rng.choice([k for k in ("int", "float", "str", "bool") if k != inner["k"]]))
                    if d["ty"]["k"] == "opt" and rng.random() < 0.5:
                        nd_["ty"] = T("opt", t=nd_["ty"])
                elif how == "opt":
                    if d["ty"]["k"] != "opt":
                        nd_["ty"] = T("opt", t=inner)
                elif d["default"] is None and d["ty"]["k"] != "opt":
                    nd_["default"] = "conforming"
                own.append(nd_)
        args = []
        for a in range(rng.choice([2, 3, 4] if base == "Task" else [1, 2, 2, 3, 4])):
            name = f"a{i}_{a}"
            r = rng.random()
            if cfgs and a == 0 and (base == "Task" or rng.random() < 0.5):
                r = 0.35 + 0.57 * r
            if not cfgs or r < 0.35:
                ty = gen_inner(rng, rng.choice([0, 0, 1]), [0], allow_union=False)
                if {"cfg", "any"} & set(ty_kinds(ty, [])):
                    ty = T(rng.choice(SCALARS))
                if ty["k"] != "path" and "path" in ty_kinds(ty, []):
                    # the identifier computation of a real submit has no case for a Path inside a list/dict (C01-C03's business)
                    ty = json.loads(json.dumps(ty).replace('"path"', '"str"'))
            elif r < 0.6:
                ty = T("cfg", c=rng.choice(cfgs))
            elif r < 0.92:
                ty = T(rng.choice(["list", "dict"]), t=T("cfg", c=rng.choice(cfgs)))
                if rng.random() < 0.3:
                    ty = T(rng.choice(["list", "dict"]), t=ty)
            elif hist:
                ty = T("cfg", c=rng.choice(cfgs))  # no `Config`-typed back references: histories stay acyclic
            else:
                ty = T("opt", t=T("cfg", c=BASE))
            arg = {"name": name, "ty": ty, "meta": rng.random() < 0.3, "default": None, "generator": False, "constant": False}
            f = rng.random()
            has_cfg = "cfg" in ty_kinds(ty, [])
            if ty["k"] == "opt":
                pass
            elif f < 0.18:
                arg["ty"] = T("opt", t=ty)
            elif f < 0.32 and not has_cfg:
                arg["default"] = "conforming"
            elif f < 0.38:
                arg.update(ty=T("path"), generator=True)
            elif f < 0.43 and not has_cfg:
                arg.update(default="conforming", constant=True)
            args.append(arg)
        own = own + args
        if hist and base == "Task" and rng.random() < 0.75:
            # a required parameter that the identifier ignores (Param[Path], Meta[...]): a missing one is not
            # caught by an accidental KeyError of the hash computation
            kind = rng.choice(["path", "meta-int", "meta-str"])
            own.append({"name": f"a{i}_ign", "ty": T("path") if kind == "path" else T(kind[5:]), "meta": kind != "path",
                        "default": None, "generator": False, "constant": False})
        mro = c3_mro(i, parents, classes)
        if mro is None:   # no consistent linearisation (Python refuses such a class statement): keep the first base only
            parents = parents[:1]
            mro = c3_mro(i, parents, classes)
        cl = {"name": f"G{i}", "base": base, "parent": parent, "parents": parents, "mro": mro, "own": own}
        if len(parents) > 1 and lib_owners(classes + [cl], i, "dfs") != lib_owners(classes + [cl], i, "mro"):
            # the nested ChainMaps of the source (depth-first) and Python's MRO resolve some name differently (finding C15-N5):
            # outside the domain of the generated graphs; such hierarchies are exercised by the table cases and the witness
            cl["parents"] = parents = parents[:1]
            cl["mro"] = c3_mro(i, parents, classes)
        cl["args"] = [d for _, _, d in lib_table(classes + [cl], cl["mro"], None)]
        # the older public way of declaring parameters: class decorators @param / @option / @pathoption / @constant
        cl["deco"] = rng.random() < 0.3 and len(parents) <= 1 and not any("dkey" in a for a in own)
        if rng.random() < 0.3:
            # a user hook `__validate__`: raises ValueError when a scalar parameter has a given value, and (C17's idiom) may
            # complete an unset optional parameter; inherited by the subclasses like any method
            trig = [a for a in own if a["ty"]["k"] in ("int", "str") and not a["generator"] and not a["constant"]]
            comp = [a for a in own if a["ty"] == T("opt", t=T("int")) and not a["generator"] and not a["constant"] and "dkey" not in a]
            if trig:
                a = rng.choice(trig)
                cl["hook"] = {"name": a["name"], "v": D_int(7) if a["ty"]["k"] == "int" else D_str("hk")}
                if comp and not hist and rng.random() < 0.5:
                    cl["hook"]["complete"] = rng.choice(comp)["name"]
        classes.append(cl)
    return classes


def eff_hook(classes, i):
    """the `__validate__` an instance of class i runs (the first one along the MRO) as (index of the parameter in the argument table of
    class i, trigger value), or None"""
    for c in classes[i]["mro"]:
        if c != BASE and classes[c].get("hook"):
            h = classes[c]["hook"]
            ks = [k for k, a in enumerate(classes[i]["args"]) if a["name"] == h["name"]]
            return (ks[0], h["v"]) if ks else None
    return None


def hook_lines(c):
    h = c.get("hook")
    if not h:
        return []
    out = ["    def __validate__(self):"]
    if h.get("complete"):
        out += [f"        if self.{h['complete']} is None:", f"            self.{h['complete']} = 3"]
    v = h["v"]
    lit = v["i"] if v["k"] == "int" else json.dumps(v["s"])
    out += [f"        if self.{h['name']} == {lit}:", f"            raise ValueError(\"{c['name']}: {h['name']} is refused by the hook\")"]
    return out


def c3_mro(i, parents, classes):
    """Python's C3 linearisation over class indices (`Config` itself = BASE last); i = None: the merge of the parents only"""
    seqs = [[x for x in classes[p]["mro"] if x != BASE] for p in parents] + [list(parents)]
    res = []
    while any(seqs):
        for sq in seqs:
            if sq and not any(sq[0] in t[1:] for t in seqs):
                h = sq[0]
                break
        else:
            return None
        res.append(h)
        for t in seqs:
            if t and t[0] == h:
                del t[0]
    return ([] if i is None else [i]) + res + [BASE]


def cls_parents(c):
    return c["parents"] if "parents" in c else ([c["parent"]] if c.get("parent") is not None else [])


def lin_dfs(classes, i):
    """the order in which a lookup in the nested ChainMaps of ObjectType.__initialize__ meets the classes"""
    return [i] + [x for p in cls_parents(classes[i]) for x in lin_dfs(classes, p)]


def lib_table(classes, lin, _):
    """mirror of Model/ValidateMro.lean `argTable`: [(name, declaring class, declaration)], names at the place of their first
    declaration walking the linearisation backwards, declaration = the first one along the linearisation"""
    lin = [c for c in lin if c != BASE]
    names = []
    for c in reversed(lin):
        for a in classes[c]["own"]:
            if a["name"] not in names:
                names.append(a["name"])
    out = []
    for x in names:
        for c in lin:
            d = [a for a in classes[c]["own"] if a["name"] == x]
            if d:
                out.append((x, c, d[0]))
                break
    return out


def lib_owners(classes, i, lin):
    L = lin_dfs(classes, i) if lin == "dfs" else classes[i]["mro"]
    return sorted((x, c) for x, c, _ in lib_table(classes, L, None))


def dkey(a):
    return a.get("dkey", a["name"])


def render_lib(P, tag, classes, defaults):
    names = {i: c["name"] for i, c in enumerate(classes)}
    names[BASE] = "Config"
    body = ["import json as _json", "from xv.props import c15 as _H", f"import {P.name}.lib as _L",
            "_W = _H.World({0: _L.E0, 1: _L.E1}, {}, {})"]
    for i, c in enumerate(classes):
        par = ", ".join(classes[q]["name"] for q in cls_parents(c)) or c["base"]
        if c.get("deco"):
            body.append("\n")
            for a in reversed(c["own"]):   # decorators apply bottom-up: the declaration order stays the one of `own`
                inner = a["ty"]["t"] if a["ty"]["k"] == "opt" else a["ty"]
                ann = render_ty(inner, names)
                extra = ", required=False" if a["ty"]["k"] == "opt" else ""
                if a["default"] is not None:
                    dv = f"_H.build(_json.loads({json.dumps(json.dumps(defaults[dkey(a)]))}), _W)"
                if a["generator"]:
                    body.append(f"@pathoption(\"{a['name']}\", \"{a['name']}.txt\")")
                elif a["constant"]:
                    body.append(f"@constant(\"{a['name']}\", {dv}, type={ann})")
                else:
                    deco = "option" if a["meta"] else "param"
                    d = f", default={dv}" if a["default"] is not None else ""
                    body.append(f"@{deco}(\"{a['name']}\", type={ann}{d}{extra})")
            body.append(f"class {c['name']}({par}):\n    __xpmid__ = \"{P.name}.{tag}.g{i}\"")
            if c["base"] in ("Task", "LightweightTask"):
                body.append("    def execute(self):\n        pass")
            body.extend(hook_lines(c))
            continue
        body.append(f"\n\nclass {c['name']}({par}):\n    __xpmid__ = \"{P.name}.{tag}.g{i}\"")
        for a in c["own"]:
            ann = render_ty(a["ty"], names)
            if a["generator"]:
                body.append(f"    {a['name']}: Annotated[Path, pathgenerator(\"{a['name']}.txt\")]")
                continue
            hint = "Constant" if a["constant"] else ("Meta" if a["meta"] else "Param")
            d = ""
            if a["default"] is not None:
                d = f" = _H.build(_json.loads({json.dumps(json.dumps(defaults[dkey(a)]))}), _W)"
            body.append(f"    {a['name']}: {hint}[{ann}]{d}")
        if not c["own"]:
            body.append("    pass")
        if c["base"] in ("Task", "LightweightTask"):
            body.append("    def execute(self):\n        pass")
        body.extend(hook_lines(c))
    return "\n".join(body) + "\n"


def arg_required(a):
    return a["ty"]["k"] != "opt" and a["default"] is None


def ignored_arg(a):
    return a["meta"] or a["ty"]["k"] == "path"


def gen_graph(rng, classes, mros, complete=False, hist=False):
    nodes = []
    done = set()
    cfg_ok = [i for i, c in enumerate(classes) if c["base"] == "Config"]
    lws = [i for i, c in enumerate(classes) if c["base"] == "LightweightTask"]

    def mk(c, depth):
        if c == BASE:
            if nodes and (depth >= 3 or rng.random() < 0.8):
                n = rng.randrange(len(nodes))
                return {"k": "config", "cls": nodes[n]["cls"], "id": n}
            c = rng.choice(cfg_ok)
        shared = [n for n, nd in enumerate(nodes) if c in mros[nd["cls"]] and (not hist or n in done)]
        if shared and rng.random() < 0.2:
            n = rng.choice(shared)
            return {"k": "config", "cls": nodes[n]["cls"], "id": n}
        # a subclass may refer back to higher classes: below depth 4 only the class itself (references then go strictly down)
        cc = rng.choice([j for j in range(len(classes)) if c in mros[j]]) if depth < 4 else c
        nid = len(nodes)
        nd = {"cls": cc, "vals": [None] * len(classes[cc]["args"]), "pre": [], "init": []}
        nodes.append(nd)
        vg = ValGen(rng, mros, lambda c2: mk(c2, depth + 1), safe=True)
        for k, a in enumerate(classes[cc]["args"]):
            if a["generator"] or a["constant"]:
                continue
            if a["ty"]["k"] == "opt" and rng.random() < 0.4:
                continue
            if a["default"] is not None and rng.random() < 0.6:
                continue
            inner = a["ty"]["t"] if a["ty"]["k"] == "opt" else a["ty"]
            nd["vals"][k] = vg.conforming(inner, size=max(0, 3 - depth))
            eh = eff_hook(classes, cc)
            if eh and eh[0] == k and inner["k"] == eh[1]["k"] and rng.random() < 0.25:
                nd["vals"][k] = dict(eh[1])   # the value the `__validate__` hook of this class refuses
            if nd["vals"][k]["k"] == "none":
                nd["vals"][k] = None
        if lws and depth < 3 and rng.random() < 0.15:
            nd["pre"] = [mk(rng.choice(lws), depth + 1)["id"]]
        done.add(nid)  # histories are acyclic: only finished nodes are shared
        return {"k": "config", "cls": cc, "id": nid}

    tasks = [i for i, c in enumerate(classes) if c["base"] == "Task"]
    root = mk(rng.choice(tasks[-2:] if hist else tasks), 0)["id"]
    if lws and rng.random() < 0.2:
        nodes[root]["init"] = [mk(rng.choice(lws), 1)["id"]]
    g = {"nodes": nodes, "root": root}
    removed = []
    if not complete:
        for _ in range(1 if rng.random() < 0.9 else 2):
            reach = reachable(g, classes, deep=True)
            cands = [(n, k) for n in reach for k, a in enumerate(classes[nodes[n]["cls"]]["args"])
                     if nodes[n]["vals"][k] is not None and arg_required(a) and not a["generator"]]
            if not cands:
                break
            if hist and rng.random() < 0.75:
                ign = [(n, k) for n, k in cands if ignored_arg(classes[nodes[n]["cls"]]["args"][k])]
                cands = ign or cands
            # removal depth spread: group by distance from the root
            dist = distances(g, classes)
            ds = sorted({dist[n] for n, _ in cands})
            d = rng.choice(ds)
            n, k = rng.choice([c for c in cands if dist[c[0]] == d])
            removed.append((n, k, d, nodes[n]["vals"][k]) if hist else (n, k, d))
            nodes[n]["vals"][k] = None
    g["removed"] = removed
    return g


def val_refs(v, deep):
    if v is None:
        return []
    if v["k"] == "config":
        return [v["id"]]
    if deep and v["k"] in ("list", "dict"):
        return [r for x in v["vs"] for r in val_refs(x, True)]
    return []


def node_succs(g, n, deep):
    nd = g["nodes"][n]
    return [r for v in nd["vals"] for r in val_refs(v, deep)] + nd["pre"] + nd["init"]


def reachable(g, classes, deep):
    seen, todo = [], [g["root"]]
    while todo:
        n = todo.pop()
        if n in seen:
            continue
        seen.append(n)
        todo += node_succs(g, n, deep)
    return seen


def distances(g, classes):
    dist, todo = {g["root"]: 0}, [g["root"]]
    while todo:
        n = todo.pop(0)
        for m in node_succs(g, n, True):
            if m not in dist:
                dist[m] = dist[n] + 1
                todo.append(m)
    return dist


def node_missing(g, classes, n):
    nd = g["nodes"][n]
    return any(nd["vals"][k] is None and arg_required(a) and not a["generator"] for k, a in enumerate(classes[nd["cls"]]["args"]))


def has_cycle(g):
    color = {}

    def dfs(n):
        color[n] = 1
        for m in node_succs(g, n, True):
            if color.get(m) == 1 or (m not in color and dfs(m)):
                return True
        color[n] = 2
        return False

    return dfs(g["root"])


def build_graph(g, classes, W):
    """fresh objects for every node; values assigned with setattr (validated by the real `set`)"""
    w = W.fresh()
    for n, nd in enumerate(g["nodes"]):
        w.obj(nd["cls"], n)
    for n, nd in enumerate(g["nodes"]):
        o = w.objs[n]
        for a, v in zip(classes[nd["cls"]]["args"], nd["vals"]):
            if v is not None:
                setattr(o, a["name"], build(v, w))
        if nd["pre"]:
            o.add_pretasks(*[w.objs[m] for m in nd["pre"]])
    return w


class Instant:
    """an `experiment` whose jobs finish at once (public extension points only)"""

    def __init__(self, ctx):
        from experimaestro.connectors import Process, ProcessBuilder
        from experimaestro.connectors.local import LocalConnector
        from experimaestro.launchers.direct import DirectLauncher

        class InstantProcess(Process):
            def __init__(self, script):
                self.script = Path(script)

            def wait(self):
                self.script.with_suffix(".done").touch()
                p = self.script.with_suffix(".pid")
                if p.exists():
                    p.unlink()
                return 0

            def tospec(self):
                return {"type": "local", "pid": os.getpid()}

        class InstantBuilder(ProcessBuilder):
            def start(self, task_mode=False):
                return InstantProcess(self.command[-1])

        class InstantLauncher(DirectLauncher):
            def processbuilder(self):
                return InstantBuilder()

        self.ws = ctx.tmpdir() / "ws"
        self.ws.mkdir(exist_ok=True)
        os.environ["XPM_WORKDIR"] = str(self.ws / "xpmwork")
        self.launcher = InstantLauncher(LocalConnector(self.ws / "conn"))
        self.n = 0

    def submit(self, root, init):
        """-> (outcome, number of jobs in the scheduler registry after the call)"""
        from experimaestro import experiment
        self.n += 1
        jobs = -1
        try:
            with experiment(self.ws, f"e{self.n}", port=-1, launcher=self.launcher) as xp:
                try:
                    root.submit(init_tasks=init) if init else root.submit()
                    out = "accepted"
                except ValueError:
                    out = "rejected-validation"
                except BaseException as e:
                    out = "rejected-other:" + type(e).__name__
                    self.last_exc = repr(e)[:300]
                jobs = len(xp.scheduler.jobs)
        except BaseException as e:  # what happens to a registered job afterwards is not this property's business
            self.after = type(e).__name__
        unfinished_registered = jobs
        return out, unfinished_registered


_INSTANT = {}


def instant(ctx):
    if id(ctx) not in _INSTANT:
        _INSTANT.clear()
        _INSTANT[id(ctx)] = Instant(ctx)
    return _INSTANT[id(ctx)]


def graph_line(impl, classes, g, mros):
    return {"op": "graph", "impl": impl,
            "classes": [[{"ty": a["ty"], "default": a["default"] is not None, "generator": a["generator"], "constant": a["constant"]}
                         for a in c["args"]] for c in classes],
            "nodes": [{"cls": nd["cls"], "vals": [None if v is None else with_mro(v, mros) for v in nd["vals"]], "pre": nd["pre"], "init": nd["init"]}
                      for nd in g["nodes"]],
            "hooks": [[i, eh[0], eh[1]] for i in range(len(classes)) for eh in [eff_hook(classes, i)] if eh],
            "root": g["root"]}


def lib_world(P, M, classes):
    from experimaestro import Config
    cl = {i: getattr(M, c["name"]) for i, c in enumerate(classes)}
    cl[BASE] = Config
    mros = {i: c["mro"] for i, c in enumerate(classes)}
    mros[BASE] = [BASE]
    return World({0: P.lib.E0, 1: P.lib.E1}, cl, mros), mros


def make_lib(ctx, rng, classes=None, defaults=None):
    P = pkg(ctx)
    classes = classes or gen_lib(rng)
    if defaults is None:
        vg = ValGen(rng, {}, lambda c: NONE, safe=True)
        defaults = {dkey(a): vg.conforming(a["ty"]) for c in classes for a in c["own"] if a["default"] is not None}
    tag = f"lib{P.n + 1}"
    _, M = P.module(render_lib(P, tag, classes, defaults))
    W, mros = lib_world(P, M, classes)
    return classes, defaults, W, mros


def classes_py(W):
    return W.classes


def run_graph_case(ctx, classes, defaults, W, mros, g, lines, impls, metas, with_submit=True, force_resubmit=None):
    impl = probe_impl(ctx)
    case = {"op": "graph", "classes": [{k: c[k] for k in ("name", "base", "parent", "parents", "own", "args", "mro", "hook") if k in c} for c in classes], "defaults": defaults,
            "nodes": g["nodes"], "root": g["root"], "removed": g.get("removed", [])}
    reach_deep = reachable(g, classes, True)
    reach_top = reachable(g, classes, False)
    miss_deep = [n for n in reach_deep if node_missing(g, classes, n)]
    miss_top = [n for n in reach_top if node_missing(g, classes, n)]
    cyc = has_cycle(g)
    # (b) the validation walk itself
    try:
        w = build_graph(g, classes, W)
    except Exception as e:  # the real constructor/setattr refuses a conforming graph: an outcome, not a harness error
        ctx.disagree(case, "graph of conforming values", f"building raised {type(e).__name__}: {e}"[:300], "building a configuration graph of conforming values")
        ctx.count("graph_build_error", type(e).__name__)
        return
    root = w.objs[g["root"]]
    if g["nodes"][g["root"]]["init"]:
        root.__xpm__.init_tasks = [w.objs[m] for m in g["nodes"][g["root"]]["init"]]

    def call_validate():
        try:
            root.__xpm__.validate()
            return "ok"
        except ValueError:
            return "missing"
        except BaseException as e:
            return "other:" + type(e).__name__

    v1 = call_validate()
    # the flags are an internal detail: compared when present (diagnostic), skipped after a rename
    flags = sorted(n for n, o in w.objs.items() if getattr(o.__xpm__, "_validated", None) is True) \
        if hasattr(root.__xpm__, "_validated") else None
    v2 = call_validate()
    out = {"validate": v1, "again": v2, "flags": flags}
    # (c) submit on fresh objects (a cyclic graph that passes validation only runs into the RecursionError of
    # `updatedependencies`: cyclic configurations cannot be submitted at all, DESIGN §9)
    if with_submit and cyc and v1 == "ok":
        ctx.count("submit_outcome", "skipped-cyclic")
    elif with_submit:
        w2 = build_graph(g, classes, W)
        r2 = w2.objs[g["root"]]
        init = [w2.objs[m] for m in g["nodes"][g["root"]]["init"]]
        sub, jobs = instant(ctx).submit(r2, init)
        out.update(submit=sub, jobs=jobs)
        # ---- monitor: the property's second sentence
        if miss_deep and not sub.startswith("accepted") and jobs != 0:
            ctx.monitor_fail("submit-registers-before-rejecting",
                             f"submit raised ({sub}) for a task with a missing required value at node {miss_deep[0]}, but the scheduler registry "
                             f"already holds {jobs} job(s)", case)
        elif miss_deep and sub.startswith("accepted"):
            where = "direct" if miss_top else "inside-container"
            n = miss_deep[0]
            ctx.monitor_fail(f"submit-accepts-missing:{where}",
                             f"submit accepted a task although node {n} ({classes[g['nodes'][n]['cls']]['name']}) reachable "
                             f"{'through configuration values' if miss_top else 'only through a list/dict value'} misses a required value; "
                             f"registry holds {jobs} job(s)", case)
        ctx.count("submit_outcome", sub.split(":")[0])
        # ---- monitor: the same incomplete sub-configuration inside a second, new task (the `_validated`
        # flag of the first, failed validation must not hide it)
        if sub == "rejected-validation" and force_resubmit is not False and not node_missing(g, classes, g["root"]) \
                and (force_resubmit or (len(lines) % 3 == 0)):
            nd = g["nodes"][g["root"]]
            r3 = classes_py(W)[nd["cls"]]()
            for a, v in zip(classes[nd["cls"]]["args"], nd["vals"]):
                if v is not None:
                    setattr(r3, a["name"], build(v, w2))
            if nd["pre"]:
                r3.add_pretasks(*[w2.objs[m] for m in nd["pre"]])
            sub3, jobs3 = instant(ctx).submit(r3, init)
            ctx.count("resubmit_outcome", sub3.split(":")[0])
            out["resubmit"] = sub3.split(":")[0]
            if sub3.startswith("accepted") or jobs3 != 0:
                ctx.monitor_fail("resubmit-accepts-missing",
                                 f"a task was rejected because node {(miss_top or miss_deep or ['?'])[0]} misses a required value; a second, new task holding the same "
                                 f"sub-configurations is accepted by submit (registry holds {jobs3} job(s)): the _validated flag set by the failed validation hides the gap",
                                 dict(case, resubmit=True))
    lines.append(graph_line(impl, classes, g, mros))
    impls.append(out)
    metas.append({"miss_deep": bool(miss_deep), "miss_top": bool(miss_top), "cyclic": cyc, "case": case})
    depth = max([d for _, _, d in g.get("removed", [])] or [0])
    nt = len(reach_deep) >= 3 and (depth >= 1 or not g.get("removed"))
    ctx.case(case, nt)
    ctx.count("graph_nodes", min(len(g["nodes"]), 12))
    ctx.count("graph_removed", len(g.get("removed", [])))
    ctx.count("graph_removal_depth", depth if g.get("removed") else "-")
    ctx.count("graph_missing", "none" if not miss_deep else ("direct" if miss_top else "container-only"))
    ctx.count("graph_cyclic", cyc)
    hooked = [n for n in reach_deep if eff_hook(classes, g["nodes"][n]["cls"])]
    trig = [n for n in hooked for eh in [eff_hook(classes, g["nodes"][n]["cls"])] if g["nodes"][n]["vals"][eh[0]] == eh[1]]
    ctx.count("graph_hooks", "none" if not hooked else ("a reachable hook raises" if trig else "reachable hooks pass"))
    ctx.count("validate_outcome", v1)


def compare_graphs(ctx, lines, impls, metas):
    _QUEUE.extend(("graph", l, i, m) for l, i, m in zip(lines, impls, metas))


def compare_graph(ctx, line, m, i, meta):
    if m.get("missing_deep") != meta["miss_deep"]:
        ctx.disagree(meta["case"], m.get("missing_deep"), meta["miss_deep"], "reachable-missing (model, all edges) differs from the python computation")
    mv = {"validate": m["validate"], "again": m["again"], "flags": m["flags"] if i["flags"] is not None else None}
    iv = {k: i[k] for k in ("validate", "again", "flags")}
    if mv != iv:
        ctx.disagree(meta["case"], mv, iv, "ConfigInformation.validate: model and implementation differ")
        return
    if "submit" not in i:
        return
    sub = i["submit"]
    if m["submit"] == "ok":
        fine = (sub == "accepted" and i["jobs"] == 1) or \
               (sub.startswith("rejected-other") and i["jobs"] == 0 and (meta["miss_deep"] or meta["cyclic"]))
        if sub.startswith("rejected-other"):
            ctx.count("accepted_by_validate_rejected_later", "missing-inside-container" if meta["miss_deep"] else "cyclic")
    else:
        fine = sub == "rejected-validation" and i["jobs"] == 0
    if not fine:
        ctx.disagree(meta["case"], {"submit": m["submit"], "jobs": m["jobs"]}, {"submit": sub, "jobs": i["jobs"]}, "submit: model and implementation differ")


def run_graphs(ctx, rng, nlibs, per_lib, with_model=True):
    for _ in range(nlibs):
        classes, defaults, W, mros = make_lib(ctx, rng)
        check_tables(ctx, classes, defaults, W, with_model=with_model)
        lines, impls, metas = [], [], []
        for _ in range(per_lib):
            g = gen_graph(rng, classes, mros, complete=rng.random() < 0.2)
            run_graph_case(ctx, classes, defaults, W, mros, g, lines, impls, metas)
        if with_model:
            compare_graphs(ctx, lines, impls, metas)



# ---------------------------------------------------------------------------
# argument tables under (multiple) inheritance: Model/ValidateMro.lean


def real_tables(classes, W):
    """per class {name: (index of the class whose declaration `xpmtype.arguments[name]` is, required)} read off the real code,
    and the real `__mro__` as class indices"""
    xt = {i: W.classes[i].__getxpmtype__() for i in range(len(classes))}
    idx = {W.classes[i]: i for i in range(len(classes))}
    tabs, mros = [], []
    for i in range(len(classes)):
        t = {}
        for name, arg in xt[i].arguments.items():
            owner = [j for j in xt if xt[j] is getattr(arg, "objecttype", None)]
            t[name] = (owner[0] if owner else -1, bool(arg.required))
        tabs.append(t)
        mros.append([idx[k] for k in W.classes[i].__mro__ if k in idx] + [BASE])
    return tabs, mros


def lib_line(impl, classes, lin):
    return {"op": "lib", "impl": impl, "lin": lin,
            "classes": [{"bases": cls_parents(c), "mro": [x for x in c["mro"] if x != BASE],
                         "own": [{"name": a["name"], "ty": a["ty"], "default": a["default"] is not None, "generator": a["generator"],
                                  "constant": a["constant"]} for a in c["own"]]} for c in classes]}


_LIN = {}


def probe_lin(ctx):
    """which linearisation the argument table of the tree under test follows (`Lin` of Model/ValidateMro.lean): read off the
    witness hierarchy of C15-N5, where the two differ"""
    if "lin" not in _LIN:
        classes, defaults, W, mros = make_lib(ctx, None, json.loads(json.dumps(N5_CLASSES)), {})
        tabs, _ = real_tables(classes, W)
        _LIN["lin"] = "mro" if tabs[3].get("count", (None,))[0] == 2 else "dfs"
        ctx.extra_cov["argument_table_linearisation_probed"] = _LIN["lin"]
    return _LIN["lin"]


def check_tables(ctx, classes, defaults, W, source="generated", with_model=True):
    """the argument table of every class of a library: model (`argTable` along the probed linearisation) vs the real
    `xpmtype.arguments`; monitor (implementation only): the declaration in force for a name is the one of the first class of
    Python's MRO that declares it — when it is not, assignments that the MRO-first declaration forbids are tried for real"""
    impl = probe_impl(ctx)
    lin = probe_lin(ctx)
    tabs, rmros = real_tables(classes, W)
    case = {"op": "lib", "classes": [{k: c[k] for k in ("name", "base", "parent", "parents", "own", "args", "mro", "hook") if k in c} for c in classes],
            "defaults": defaults}
    for i, c in enumerate(classes):
        if rmros[i] != c["mro"]:
            raise RuntimeError(f"harness: C3 linearisation {c['mro']} differs from Python's {rmros[i]} for {c['name']}")
    multi = any(len(cls_parents(c)) > 1 for c in classes)
    redecl = sum(1 for c in classes for a in c["own"] if any(a["name"] == x for p in cls_parents(c) for x, _, _ in lib_table(classes, classes[p]["mro"], None)))
    ctx.count("lib_shape", ("multiple-inheritance" if multi else "single-inheritance") + ("+redeclared" if redecl else ""))
    mlist = [len(cls_parents(c)) > 1 for c in classes]
    ctx.count("classes_with_several_bases", sum(mlist))
    mros = {i: c["mro"] for i, c in enumerate(classes)}
    for i, c in enumerate(classes):
        declared = {x: (o, d) for x, o, d in lib_table(classes, c["mro"], None)}
        dfs = dict(lib_owners(classes, i, "dfs"))
        for x, (o_d, d) in sorted(declared.items()):
            o_r, req_r = tabs[i].get(x, (-1, None))
            if o_r == o_d:
                continue
            which = "depth-first" if o_r == dfs.get(x) else "other-order"
            ctx.count("table_owner_differs_from_mro", which)
            inner = d["ty"]["t"] if d["ty"]["k"] == "opt" else d["ty"]
            for vd in (D_float(1.5), D_int(3), D_str("x"), {"k": "bool", "b": True}, NONE):
                w = W.fresh()
                try:
                    o = W.classes[i](**{x: build(vd, w)})
                    stored = canon(o.__xpm__.values.get(x), w)
                except Exception:
                    continue
                sub = dict(case, cls=i, name=x, v=vd, declared_by=classes[o_d]["name"], table_uses=classes[o_r]["name"] if o_r >= 0 else None)
                if stored["k"] == "none":
                    if vd["k"] == "none" and required(d) and not d["generator"]:
                        ctx.monitor_fail(f"inherited-declaration:{which}",
                                         f"{c['name']}.{x} is declared required by {classes[o_d]['name']} (first in the MRO of {c['name']}); "
                                         f"assigning None is accepted (the argument table uses the declaration of {sub['table_uses']})", sub)
                elif not member(inner, stored, mros):
                    ctx.monitor_fail(f"inherited-declaration:{which}",
                                     f"{c['name']}.{x} is declared {render_ty(d['ty'], {j: k['name'] for j, k in enumerate(classes)})} by "
                                     f"{classes[o_d]['name']} (first in the MRO of {c['name']}); {vd} is stored as {stored} "
                                     f"(the argument table uses the declaration of {sub['table_uses']})", sub)
    ctx.case(case, multi or redecl > 0)
    if with_model:
        impl_out = {"tables": [sorted([x, o, r] for x, (o, r) in t.items()) for t in tabs]}
        _QUEUE.append(("lib", lib_line(impl, classes, lin), impl_out, {"case": case}))


def compare_lib(ctx, line, m, i, meta):
    mm = {"tables": [sorted(t) for t in m.get("tables", [])]}
    if mm != i:
        bad = [k for k, (a, b) in enumerate(zip(mm["tables"], i["tables"])) if a != b]
        ctx.disagree(meta["case"], {k: mm["tables"][k] for k in bad[:3]}, {k: i["tables"][k] for k in bad[:3]},
                     f"argument table (name, declaring class, required) along the {line['lin']} linearisation: model and xpmtype.arguments differ")


def gen_table_lib(rng):
    """small hierarchies of configuration classes with scalar parameters, many re-declarations, any shape of multiple
    inheritance (also those on which depth-first and MRO disagree: known finding C15-N5)"""
    n = rng.choice([4, 5, 6])
    classes = []
    for i in range(n):
        cand = list(range(i))
        parents = []
        if cand and rng.random() < 0.8:
            parents = rng.sample(cand, min(len(cand), rng.choice([1, 1, 2, 2, 3])))
            parents = [q for q in parents if not any(q != r and q in classes[r]["mro"] for r in parents)]
        mro = c3_mro(i, parents, classes)
        while mro is None:
            parents = parents[:-1]
            mro = c3_mro(i, parents, classes)
        own = []
        names = [f"p{k}" for k in range(4)]
        for x in rng.sample(names, rng.choice([0, 1, 1, 2])):
            ty = T(rng.choice(["int", "float", "str", "bool"]))
            a = {"name": x, "ty": ty, "meta": False, "default": None, "generator": False, "constant": False, "dkey": f"{x}@{i}"}
            f = rng.random()
            if any(b["name"] == x and b["default"] is not None for q in classes for b in q["own"]):
                a["default"] = "conforming"   # see gen_lib: a default declared above is inherited as a class attribute
            elif f < 0.3:
                a["ty"] = T("opt", t=ty)
            elif f < 0.5:
                a["default"] = "conforming"
            own.append(a)
        cl = {"name": f"G{i}", "base": "Config", "parent": parents[0] if parents else None, "parents": parents, "mro": mro, "own": own, "deco": False}
        cl["args"] = [d for _, _, d in lib_table(classes + [cl], mro, None)]
        classes.append(cl)
    return classes


def run_table_cases(ctx, rng, n, with_model=True):
    for _ in range(n):
        classes, defaults, W, mros = make_lib(ctx, rng, gen_table_lib(rng))
        check_tables(ctx, classes, defaults, W, with_model=with_model)


def _n5_arg(name, ty, cls):
    return {"name": name, "ty": ty, "meta": False, "default": None, "generator": False, "constant": False, "dkey": f"{name}@{cls}"}


# C15-N5: Base(count: float, seed: Optional[int]); Fixed(Base) inherits; Logged(Base) re-declares count: str, seed: int;
# C(Fixed, Logged) — Python's MRO is C, Fixed, Logged, Base; the nested ChainMaps reach Base through Fixed first
N5_CLASSES = [
    {"name": "G0", "base": "Config", "parent": None, "parents": [], "mro": [0, BASE], "deco": False,
     "own": [_n5_arg("count", T("float"), 0), _n5_arg("seed", T("opt", t=T("int")), 0)]},
    {"name": "G1", "base": "Config", "parent": 0, "parents": [0], "mro": [1, 0, BASE], "deco": False, "own": []},
    {"name": "G2", "base": "Config", "parent": 0, "parents": [0], "mro": [2, 0, BASE], "deco": False,
     "own": [_n5_arg("count", T("str"), 2), _n5_arg("seed", T("int"), 2)]},
    {"name": "G3", "base": "Config", "parent": 1, "parents": [1, 2], "mro": [3, 1, 2, 0, BASE], "deco": False, "own": []},
]
for _c in N5_CLASSES:
    _c["args"] = [d for _, _, d in lib_table(N5_CLASSES, _c["mro"], None)]
N5_CASE = {"kind": "lib", "classes": N5_CLASSES, "defaults": {}}


# ---------------------------------------------------------------------------
# histories: several assignments and submit attempts over the same objects


def task_bearing(ty, classes):
    """the type mentions a Task class: such a slot can only be assigned once the tasks went through submit()"""
    k = ty["k"]
    if k == "cfg":
        return ty["c"] != BASE and classes[ty["c"]]["base"] == "Task"
    if k in ("opt", "list", "dict"):
        return task_bearing(ty["t"], classes)
    return False


def gen_history(rng, classes, mros, complete=False):
    """a configuration graph in which tasks hold tasks, turned into a history: plain values first, then, in
    post-order, the task-bearing slots of a node and `submit()` of every task node (inner tasks first), then
    variations: completing the removed value, a new outer task over the same objects, a second submit, an
    early assignment of a task that has no job yet, an assignment to a sealed object"""
    g = gen_graph(rng, classes, mros, complete=complete, hist=True)
    nodes, root = g["nodes"], g["root"]
    final = [list(nd["vals"]) for nd in nodes]
    ops = []
    deferred = {}
    for n, nd in enumerate(nodes):
        for k, a in enumerate(classes[nd["cls"]]["args"]):
            if final[n][k] is None:
                continue
            if task_bearing(a["ty"], classes):
                deferred.setdefault(n, []).append(k)
            else:
                ops.append({"o": "assign", "n": n, "k": k, "v": final[n][k]})
    rng.shuffle(ops)
    seen, order = set(), []

    def visit(n):
        if n in seen:
            return
        seen.add(n)
        for m in node_succs(g, n, True):
            visit(m)
        order.append(n)

    visit(root)
    early = rng.random() < 0.25
    for n in order:
        for k in deferred.get(n, []):
            ops.append({"o": "assign", "n": n, "k": k, "v": final[n][k]})
        if classes[nodes[n]["cls"]]["base"] == "Task":
            ops.append({"o": "submit", "n": n})
    if early:
        # a task-bearing slot assigned before its tasks went through submit(): refused ("must be submitted before giving it")
        cand = [(n, k) for n in order for k in deferred.get(n, [])]
        if cand:
            n, k = rng.choice(cand)
            first_submit = next(i for i, o in enumerate(ops) if o["o"] == "submit")
            if val_refs(final[n][k], True):
                ops.insert(rng.randrange(first_submit + 1), {"o": "assign", "n": n, "k": k, "v": final[n][k]})
    start = [{"cls": nd["cls"], "vals": [None] * len(nd["vals"]), "pre": nd["pre"], "init": nd["init"]} for nd in nodes]
    h = {"nodes": start, "ops": ops, "removed": [list(r[:3]) for r in g["removed"]], "root": root}
    # ---- variations after the first round
    r = rng.random()
    removed = g["removed"]
    if removed and r < 0.6:
        for (n, k, d, orig) in removed:
            ops.append({"o": "assign", "n": n, "k": k, "v": orig})  # complete what was missing (refused if the object is sealed)
        # a new outer task over the same objects (the old one keeps its job: "already submitted")
        new = len(start)
        start.append({"cls": nodes[root]["cls"], "vals": [None] * len(nodes[root]["vals"]), "pre": [], "init": []})
        for k, v in enumerate(final[root]):
            if v is None and (root, k) in [(a, b) for a, b, _, _ in removed]:
                v = next(o for a, b, _, o in removed if (a, b) == (root, k))
            if v is not None:
                ops.append({"o": "assign", "n": new, "k": k, "v": v})
        ops.append({"o": "submit", "n": new})
    elif r < 0.8:
        tn = [n for n in order if classes[nodes[n]["cls"]]["base"] == "Task"]
        ops.append({"o": "submit", "n": rng.choice(tn)})  # a second submit of the same task
    elif r < 0.9 and order:
        n = rng.choice(order)
        ks = [k for k, v in enumerate(final[n]) if v is not None]
        if ks:
            k = rng.choice(ks)
            ops.append({"o": "assign", "n": n, "k": k, "v": final[n][k]})  # sealed if an accepted task reaches it
    return h


def hist_line(impl, classes, h, mros):
    return {"op": "history", "impl": impl,
            "classes": [[{"ty": a["ty"], "default": a["default"] is not None, "generator": a["generator"], "constant": a["constant"]}
                         for a in c["args"]] for c in classes],
            "tasks": [i for i, c in enumerate(classes) if c["base"] == "Task"],
            "hooks": [[i, eh[0], eh[1]] for i in range(len(classes)) for eh in [eff_hook(classes, i)] if eh],
            "nodes": [{"cls": nd["cls"], "vals": [None] * len(nd["vals"]), "pre": nd["pre"], "init": nd["init"]} for nd in h["nodes"]],
            "ops": [o if o["o"] == "submit" else {"o": "assign", "n": o["n"], "k": o["k"], "v": with_mro(o["v"], mros)} for o in h["ops"]]}


def run_history_case(ctx, classes, defaults, W, mros, h, lines, impls, metas):
    """the history on the real objects inside one experiment; monitors state the property's second sentence
    at every submit of the history"""
    from experimaestro import experiment
    impl = probe_impl(ctx)
    case = {"op": "history", "classes": [{k: c[k] for k in ("name", "base", "parent", "parents", "own", "args", "mro", "hook") if k in c} for c in classes], "defaults": defaults,
            "nodes": h["nodes"], "ops": h["ops"], "removed": h.get("removed", []), "root": h.get("root", 0)}
    w = W.fresh()
    nodes = h["nodes"]
    try:
        for n, nd in enumerate(nodes):
            w.obj(nd["cls"], n)
        for n, nd in enumerate(nodes):
            if nd["pre"]:
                w.objs[n].add_pretasks(*[w.objs[m] for m in nd["pre"]])
    except Exception as e:
        ctx.disagree(case, "objects of the library", f"building raised {type(e).__name__}: {e}"[:300], "creating the objects of a history")
        return
    cur = {"nodes": [{"cls": nd["cls"], "vals": list(nd["vals"]), "pre": nd["pre"], "init": nd["init"]} for nd in nodes], "root": 0}
    steps = []
    accepted = []
    I = instant(ctx)
    I.n += 1
    has_flag = hasattr(w.objs[0].__xpm__, "_validated")
    try:
        with experiment(I.ws, f"h{I.n}", port=-1, launcher=I.launcher) as xp:
            for i, op in enumerate(h["ops"]):
                o = w.objs[op["n"]]
                before = len(xp.scheduler.jobs)
                if op["o"] == "assign":
                    name = classes[nodes[op["n"]]["cls"]]["args"][op["k"]]["name"]
                    try:
                        setattr(o, name, build(op["v"], w))
                        out = "stored"
                        cur["nodes"][op["n"]]["vals"][op["k"]] = op["v"]
                    except AttributeError:
                        out = "readonly"
                    except (TypeError, ValueError):
                        out = "invalid"
                    except Exception as e:
                        out = "other:" + type(e).__name__
                else:
                    cur["root"] = op["n"]
                    miss = [m for m in reachable(cur, classes, True) if node_missing(cur, classes, m)]
                    init = [w.objs[m] for m in nodes[op["n"]]["init"]]
                    had_job = getattr(o.__xpm__, "job", None) is not None
                    try:
                        o.submit(init_tasks=init) if init else o.submit()
                        out = "accepted"
                        accepted.append(op["n"])
                    except ValueError:
                        out = "rejected-missing"
                    except Exception as e:
                        out = "already" if type(e) is Exception and had_job else "other:" + type(e).__name__
                    after = len(xp.scheduler.jobs)
                    # ---- monitors (implementation only)
                    prefix = dict(case, ops=h["ops"][: i + 1])
                    if miss and (out == "accepted" or after != before):
                        ctx.monitor_fail("history-submit-accepts-missing",
                                         f"step {i}: submit of node {op['n']} ({classes[nodes[op['n']]['cls']]['name']}) is {out} and the registry goes "
                                         f"{before} -> {after} although node {miss[0]} ({classes[nodes[miss[0]]['cls']]['name']}), reachable from it, "
                                         f"misses a required value; history: {describe_ops(h['ops'][: i + 1], classes, nodes)}", prefix)
                    hooked = [m for m in reachable(cur, classes, True) if eff_hook(classes, nodes[m]["cls"])]
                    ctx.count("history_submit_hooks", "a reachable class has a hook" if hooked else "none")
                    if not miss and out == "rejected-missing" and not had_job and not hooked:
                        ctx.monitor_fail("history-submit-rejects-complete",
                                         f"step {i}: submit of node {op['n']} raises ValueError although no reachable node misses a required value "
                                         f"(a value completed between two attempts must be seen); history: {describe_ops(h['ops'][: i + 1], classes, nodes)}", prefix)
                    if out != "accepted" and after != before:
                        ctx.monitor_fail("history-registry-changed-by-rejected-submit",
                                         f"step {i}: submit of node {op['n']} is {out} but the registry goes {before} -> {after}", prefix)
                    ctx.count("history_submit", out.split(":")[0] + ("/missing" if miss else "/complete"))
                ids = set()
                for n in accepted:
                    j = getattr(w.objs[n].__xpm__, "job", None)
                    ids.add(getattr(j, "identifier", n))
                steps.append({"out": out, "accepted": len(accepted), "distinct": len(ids), "registry": len(xp.scheduler.jobs),
                              "flags": sorted(n for n, x in w.objs.items() if getattr(x.__xpm__, "_validated", None) is True) if has_flag else None,
                              "job": sorted(n for n, x in w.objs.items() if getattr(x.__xpm__, "job", None) is not None)})
    except BaseException as e:  # what happens to registered jobs afterwards is not this property's business
        I.after = type(e).__name__
    if len(steps) != len(h["ops"]):
        ctx.count("history_cut_short", len(steps))
        return
    lines.append(hist_line(impl, classes, h, mros))
    impls.append(steps)
    metas.append({"case": case})
    nsub = sum(1 for o in h["ops"] if o["o"] == "submit")
    ctx.case(case, nsub >= 2)
    ctx.count("history_ops", min(len(h["ops"]), 40) // 5 * 5)
    ctx.count("history_submits", nsub)
    for st, op in zip(steps, h["ops"]):
        if op["o"] == "assign":
            ctx.count("history_assign", st["out"].split(":")[0])


def describe_ops(ops, classes, nodes):
    out = []
    for o in ops[-12:]:
        nm = classes[nodes[o["n"]]["cls"]]["name"]
        if o["o"] == "submit":
            out.append(f"n{o['n']}:{nm}.submit()")
        else:
            a = classes[nodes[o["n"]]["cls"]]["args"][o["k"]]["name"]
            refs = val_refs(o["v"], True)
            out.append(f"n{o['n']}:{nm}.{a}=" + (("<" + ",".join(f"n{r}" for r in refs) + ">") if refs else o["v"]["k"]))
    return "; ".join(out)


def compare_history(ctx, line, m, steps, meta):
    ms = m.get("steps", [])
    if len(ms) != len(steps):
        ctx.disagree(meta["case"], len(ms), len(steps), "history: number of steps")
        return
    for i, (a, b) in enumerate(zip(ms, steps)):
        mm = {"out": a["out"], "registry": a["registry"], "job": a["job"], "flags": a["flags"] if b["flags"] is not None else None}
        ii = {"out": b["out"], "registry": b["accepted"], "job": b["job"], "flags": b["flags"]}
        if mm != ii:
            ctx.disagree(dict(meta["case"], failing_step=i), mm, ii, f"history step {i}: model and implementation differ")
            return
        if b["registry"] != b["distinct"]:
            ctx.disagree(dict(meta["case"], failing_step=i), b["distinct"], b["registry"], f"history step {i}: scheduler registry size vs accepted tasks (distinct identifiers)")
            return


def run_histories(ctx, rng, nlibs, per_lib, with_model=True):
    for _ in range(nlibs):
        classes, defaults, W, mros = make_lib(ctx, rng, gen_lib(rng, hist=True))
        check_tables(ctx, classes, defaults, W, with_model=with_model)
        lines, impls, metas = [], [], []
        for _ in range(per_lib):
            h = gen_history(rng, classes, mros, complete=rng.random() < 0.25)
            run_history_case(ctx, classes, defaults, W, mros, h, lines, impls, metas)
        if with_model:
            _QUEUE.extend(("history", l, i, m) for l, i, m in zip(lines, impls, metas))


# ---------------------------------------------------------------------------
# corpus: the witnesses of the findings and a few past disagreements, run first

F10_CASE = {"kind": "set", "arg": {"ty": T("union", ts=[T("int"), T("str")]), "default": None, "generator": False, "constant": False},
            "v": D_dict([(K_str("a"), D_int(1))])}
N1_CASE = {"kind": "set", "arg": {"ty": T("list", t=T("cfg", c=0)), "default": None, "generator": False, "constant": False},
           "v": D_list([NONE])}
N2_CASE = {"kind": "set", "arg": {"ty": T("union", ts=[T("enum", c=0), T("int")]), "default": None, "generator": False, "constant": False},
           "v": D_int(3)}


def f11_case(meta=True, container="list"):
    classes = [
        {"name": "G0", "base": "Config", "parent": None, "mro": [0, BASE],
         "args": [{"name": "a0_0", "ty": T("int"), "meta": meta, "default": None, "generator": False, "constant": False}]},
        {"name": "G1", "base": "Task", "parent": None, "mro": [1, BASE],
         "args": [{"name": "a1_0", "ty": T(container, t=T("cfg", c=0)), "meta": False, "default": None, "generator": False, "constant": False}]},
    ]
    for c in classes:
        c["own"] = c["args"]
    sub = {"k": "config", "cls": 0, "id": 1}
    val = D_list([sub]) if container == "list" else D_dict([(K_str("k"), sub)])
    return {"kind": "graph", "classes": classes, "defaults": {},
            "nodes": [{"cls": 1, "vals": [val], "pre": [], "init": []}, {"cls": 0, "vals": [None], "pre": [], "init": []}],
            "root": 0, "removed": [[1, 0, 1]]}


def n3_case():
    """Task(s: Param[Sub]) with Sub.x: Meta[int] missing, submitted twice (the second time inside a new task object)"""
    c = f11_case(True, "list")
    c["classes"][1]["args"][0]["ty"] = T("cfg", c=0)
    c["nodes"][0]["vals"] = [{"k": "config", "cls": 0, "id": 1}]
    c["resubmit"] = True
    return c


def skipjob_case(kind="path", position="direct"):
    """seeded/C15-skipjob: a task P with an unset required parameter that the identifier ignores is submitted and rejected
    (its `job` stays set); the same P is then given to another task T (directly / in a list / in a dict) and T is submitted"""
    ign = {"name": "corpus", "ty": T("path") if kind == "path" else T("int"), "meta": kind != "path", "default": None,
           "generator": False, "constant": False}
    size = {"name": "size", "ty": T("int"), "meta": False, "default": "conforming", "generator": False, "constant": False}
    pty = T("cfg", c=0)
    dty = pty if position == "direct" else T(position, t=pty)
    data = {"name": "data", "ty": dty, "meta": False, "default": None, "generator": False, "constant": False}
    classes = [{"name": "G0", "base": "Task", "parent": None, "mro": [0, BASE], "args": [ign, size]},
               {"name": "G1", "base": "Task", "parent": None, "mro": [1, BASE], "args": [data]}]
    pv = {"k": "config", "cls": 0, "id": 1}
    val = pv if position == "direct" else (D_list([pv]) if position == "list" else D_dict([(K_str("a"), pv)]))
    return {"kind": "history", "classes": classes, "defaults": {"size": D_int(10)},
            "nodes": [{"cls": 1, "vals": [None], "pre": [], "init": []}, {"cls": 0, "vals": [None, None], "pre": [], "init": []}],
            "ops": [{"o": "assign", "n": 1, "k": 1, "v": D_int(20)}, {"o": "submit", "n": 1},
                    {"o": "assign", "n": 0, "k": 0, "v": val}, {"o": "submit", "n": 0}],
            "removed": [[1, 0, 1]], "root": 0}


def _scalar_case(ty, v, choices=None):
    arg = {"ty": T(ty), "default": None, "generator": False, "constant": False}
    if choices:
        arg["choices"] = choices
    return {"kind": "set", "arg": arg, "v": v}


# the boundaries of the scalar validators (each entry of the tables that translate/typesrc.py reads), always run
SCALAR_CORPUS = [_scalar_case("int", D_float(x)) for x in (-2.5, 2.5, -0.5, -3.0, 1e300, math.inf, -math.inf, math.nan, -0.0)] + \
    [_scalar_case("int", v) for v in (D_str("3"), {"k": "bool", "b": True}, NONE, D_list([D_int(1)]))] + \
    [_scalar_case("float", v) for v in (D_str("1.5"), D_int(2**1024), D_int(3), {"k": "bool", "b": True}, D_float(math.nan))] + \
    [_scalar_case("str", v) for v in (D_int(1), D_path("a"), D_str(""))] + \
    [_scalar_case("bool", v) for v in (D_int(0), D_str(""), D_str("x"), D_list([]))] + \
    [_scalar_case("path", v) for v in (D_str("a//b/./c"), D_path("/x"), D_int(1), D_dict([(K_str("$type"), D_str("path")), (K_str("$value"), D_str("p/q"))]),
                                       D_dict([(K_str("$value"), D_str("p/q"))]), D_dict([(K_str("a"), D_int(1))]))] + \
    [_scalar_case("int", v, [D_int(1), D_int(2)]) for v in (D_int(2), D_int(5), D_float(2.0), D_str("a"))] + \
    [_scalar_case("str", v, [D_str("a"), D_str("b")]) for v in (D_str("a"), D_str("c"))]

CORPUS = SCALAR_CORPUS + [N5_CASE, F10_CASE, N1_CASE, N2_CASE, f11_case(True, "list"), f11_case(False, "list"), f11_case(True, "dict"), n3_case()] + \
    [skipjob_case(k, pos) for k in ("path", "meta") for pos in ("direct", "list", "dict")]


def run_case_list(ctx, cases, with_model=True):
    sets = [c for c in cases if c["kind"] == "set"]
    for c in sets:
        c["arg"]["ty"] = norm_unions(c["arg"]["ty"])
    if sets:
        run_set_cases(ctx, [(c["arg"], [("corpus", c["v"], 0)]) for c in sets], with_model, source="corpus")
    for c in cases:
        if c["kind"] == "history":
            classes = c["classes"]
            for cl in classes:
                cl.setdefault("own", cl["args"] if cl["parent"] is None else
                              [a for a in cl["args"] if a["name"] not in {x["name"] for x in classes[cl["parent"]]["args"]}])
            classes, defaults, W, mros = make_lib(ctx, None, classes, c.get("defaults", {}))
            lines, impls, metas = [], [], []
            run_history_case(ctx, classes, defaults, W, mros, c, lines, impls, metas)
            if with_model:
                _QUEUE.extend(("history", l, i, m) for l, i, m in zip(lines, impls, metas))
    for c in cases:
        if c["kind"] == "lib":
            classes, defaults, W, mros = make_lib(ctx, None, c["classes"], c.get("defaults", {}))
            check_tables(ctx, classes, defaults, W, source="corpus", with_model=with_model)
    for c in cases:
        if c["kind"] != "graph":
            continue
        classes = c["classes"]
        for cl in classes:
            cl.setdefault("own", [a for a in cl["args"] if cl["parent"] is None or a["name"] not in {x["name"] for x in classes[cl["parent"]]["args"]}])
        classes, defaults, W, mros = make_lib(ctx, None, classes, c.get("defaults", {}))
        g = {"nodes": c["nodes"], "root": c["root"], "removed": [tuple(x) for x in c.get("removed", [])]}
        lines, impls, metas = [], [], []
        run_graph_case(ctx, classes, defaults, W, mros, g, lines, impls, metas, force_resubmit=c.get("resubmit", False))
        if with_model:
            compare_graphs(ctx, lines, impls, metas)


# ---------------------------------------------------------------------------


def correspond(ctx):
    ctx.rule = ("set cases: a type expression from the grammar (bool int float str path enum cfg opt list dict union any; depth 0-3) becomes the "
                "annotation of a generated Config class, candidate values are conforming / off by one constructor at one random depth / cross-type / "
                "None, assigned by constructor or setattr; non-trivial = type with at least one of opt/list/dict/union and a conforming or mutated value. "
                "graph cases: random class library (5-8 classes, inheritance, Param/Meta, Optional, defaults, generators, constants, List/Dict/nested "
                "containers of configurations, Optional[Config] back references), random graph with sharing, pre-tasks and init tasks, one (10%: two, "
                "20%: no) required value removed at a reachable node chosen by distance from the root; non-trivial = at least 3 reachable nodes and the "
                "removal below the root. history cases: class library in which tasks are parameter values of later tasks (direct, list, dict, nested), "
                "many with a required parameter the identifier ignores (Param[Path], Meta); the graph is turned into a history of assignments and submit "
                "attempts in one experiment (inner tasks first: a rejected inner task keeps its job and is then held by the outer one), followed by a "
                "variation: complete the removed value and submit a new outer task over the same objects / submit a task twice / assign a task without "
                "job / assign to a sealed object; non-trivial = at least two submit attempts; distinct = distinct case hash")
    ctx.assumptions += [
        "parameter values are not task instances, not subclasses of str/int/float, and are not mutated after assignment",
        "no Argument.checker and no user __validate__ hook",
        "Union alternatives are pairwise different annotations and never directly another Union (typing flattens these)",
        "dict keys of declared types are str (Dict[str, T])",
        "histories: assignments go to objects that no accepted submit reaches (those are sealed; a few sealed ones are assigned on purpose), "
        "graphs of histories are acyclic, a completed value is never changed again",
    ]
    rng = ctx.rng
    probe_impl(ctx)
    run_case_list(ctx, [json.loads(json.dumps(c)) for c in CORPUS])
    t0 = time.time()
    ntypes = ctx.scale(260, 3200)
    batch = 130 if ctx.quick() else 400
    done = 0
    while done < ntypes:
        k = min(batch, ntypes - done)
        run_set_cases(ctx, gen_set_cases(ctx, rng, k))
        done += k
    run_decl_cases(ctx, rng, ctx.scale(40, 400))
    t1 = time.time()
    run_table_cases(ctx, rng, ctx.scale(10, 250))
    nlibs, per = ctx.scale((11, 16), (110, 22))
    run_graphs(ctx, rng, nlibs, per)
    t2 = time.time()
    nlibs, per = ctx.scale((8, 12), (60, 15))
    run_histories(ctx, rng, nlibs, per)
    t3 = time.time()
    flush(ctx)
    ctx.notes.append(f"phases: set+decl {t1 - t0:.0f}s, graphs {t2 - t1:.0f}s, histories {t3 - t2:.0f}s, model driver {time.time() - t3:.0f}s")


def search(ctx):
    """implementation-only monitors over a larger stream (run when a proof or the correspondence broke)"""
    del _QUEUE[:]
    t0 = time.time()
    budget = ctx.scale(40, 300)
    rng = random.Random(f"search-{ctx.seed}")
    known = {f["key"] for f in common.load_findings(PROP) if f.get("status") == "known"}
    while time.time() - t0 < budget and not [m for m in ctx.monitor_failures if m["key"] not in known]:
        run_set_cases(ctx, gen_set_cases(ctx, rng, 150), with_model=False)
        run_table_cases(ctx, rng, 10, with_model=False)
        run_graphs(ctx, rng, 3, 15, with_model=False)
        run_histories(ctx, rng, 3, 10, with_model=False)


def run_witness(ctx, finding):
    w = finding.get("witness")
    if w:
        run_case_list(ctx, [json.loads(json.dumps(w))], with_model=False)


def replay(ctx, obj):
    cases = []
    for f in obj.get("failures", []):
        c = f["case"]
        print("replaying", json.dumps(c)[:300])
        if c.get("op") == "set":
            cases.append({"kind": "set", "arg": c["argd"], "v": c["v"]})
        elif c.get("op") == "history":
            cases.append({"kind": "history", "classes": c["classes"], "defaults": c.get("defaults", {}), "nodes": c["nodes"], "ops": c["ops"],
                          "removed": c.get("removed", []), "root": c.get("root", 0)})
        elif c.get("op") == "lib":
            cases.append({"kind": "lib", "classes": c["classes"], "defaults": c.get("defaults", {})})
        elif c.get("op") == "graph":
            cases.append({"kind": "graph", "classes": c["classes"], "defaults": c.get("defaults", {}), "nodes": c["nodes"], "root": c["root"],
                          "removed": c.get("removed", []), "resubmit": c.get("resubmit", False)})
    for d in obj.get("disagreements", []):
        print("disagreement:", json.dumps(d)[:400])
    prove(ctx)
    probe_impl(ctx)
    if cases:
        run_case_list(ctx, cases)
        flush(ctx)
    else:
        correspond(ctx)
    return common.verdict(ctx, search)
