import XpmVerif.Basic.JsonUtil
import XpmVerif.Basic.Sha256
import XpmVerif.Model.IdentImpl
import XpmVerif.Model.Deps
import XpmVerif.Generated.HashFlags
import XpmVerif.Model.ArgDecl
import XpmVerif.Model.ClassTable
import XpmVerif.Model.IdentEnv
/-! Line-protocol driver for M1 (identifiers, sealing): C01 C02 C03 C14 C20. -/
open Lean XpmVerif XpmVerif.J XpmVerif.Ident

def hexVal (c : Char) : Nat :=
  if c.isDigit then c.toNat - '0'.toNat else if 'a' ≤ c ∧ c ≤ 'f' then c.toNat - 'a'.toNat + 10 else c.toNat - 'A'.toNat + 10
def unhex (s : String) : List Nat :=
  let rec go : List Char → List Nat
    | a :: b :: r => (hexVal a * 16 + hexVal b) :: go r
    | _ => []
  go s.toList
def hexOf (l : List Nat) : String :=
  let d := "0123456789abcdef".toList.toArray
  l.foldl (fun s x => (s.push d[x / 16]!).push d[x % 16]!) ""

partial def valOf (j : Json) : Val :=
  if isNull j then .none else
  match j.getObjVal? "b" with
  | .ok b => .bool (J.bool b)
  | _ =>
  match j.getObjVal? "i" with
  | .ok i => .int ((J.str i).toInt?.getD 0)
  | _ =>
  match j.getObjVal? "f" with
  | .ok f => .float ((unhex (J.str f)).foldl (fun a b => a * 256 + b) 0)
  | _ =>
  match j.getObjVal? "s" with
  | .ok s => .str (unhex (J.str s))
  | _ =>
  match j.getObjVal? "e" with
  | .ok s => .enum (unhex (J.str s))
  | _ =>
  match j.getObjVal? "p" with
  | .ok s => .path (unhex (J.str s))
  | _ =>
  match j.getObjVal? "l" with
  | .ok l => .list ((arr l).map valOf)
  | _ =>
  match j.getObjVal? "d" with
  | .ok d => .dict ((arr d).map (fun kv => unhex (J.str ((arr kv).getD 0 Json.null)))) ((arr d).map (fun kv => valOf ((arr kv).getD 1 Json.null)))
  | _ =>
  match j.getObjVal? "r" with
  | .ok r => .ref (nat r)
  | _ => .none

/-! declarations (`Model/ArgDecl.lean`): `{"name","kind","ty","optional","attr"}` with `attr` = null | {"value": v} |
    {"fieldValue": v} | "fieldFactory" | "fieldEmpty" -/
def kindOf : String → ArgDecl.Kind
  | "meta" => .metaParam | "option" => .option | "constant" => .constant | "pathgen" => .pathgen | "factory" => .factory
  | _ => .param
def tyOf : String → ArgDecl.TyTag
  | "int" => .int | "float" => .float | "str" => .str | "bool" => .bool | "path" => .path | "enum" => .enum
  | "cfg" => .cfg | "list" => .list | "dict" => .dict | _ => .any
def attrOf (j : Json) : ArgDecl.ClassAttr :=
  if isNull j then .absent else
  match j.getStr? with
  | .ok "fieldFactory" => .fieldFactory
  | .ok _ => .fieldEmpty
  | _ =>
  match j.getObjVal? "value" with
  | .ok v => .value (valOf v)
  | _ =>
  match j.getObjVal? "fieldValue" with
  | .ok v => .fieldValue (valOf v)
  | _ => .absent
def declOf (j : Json) : ArgDecl.Decl :=
  { name := unhex (strF j "name"), kind := kindOf (strF j "kind"), ty := tyOf (strF j "ty"), optional := boolF j "optional",
    attr := attrOf (fld j "attr") }

/-- class table (`Model/ClassTable.lean`): `[{"bases": [i], "mro": [i], "own": [decl]}]` -/
def tableOf (j : Json) : ArgDecl.ClassTable :=
  (arr j).map (fun c => { bases := (arrF c "bases").map nat, mro := (arrF c "mro").map nat, own := (arrF c "own").map declOf })

def flagsOfArg : Option Arg → Json
  | none => Json.str "rejected"
  | some a => Json.mkObj [("ignored", a.ignored), ("generator", a.generator), ("constant", a.constant),
      ("required", a.required), ("hasDefault", a.default.isSome)]

/-- the flags `mkArg` derives for a declaration, as compared with the real `Argument` object. -/
def flagsJ (d : ArgDecl.Decl) : Json :=
  match ArgDecl.mkArg d with
  | none => Json.str "rejected"
  | some a => Json.mkObj [("ignored", a.ignored), ("generator", a.generator), ("constant", a.constant),
      ("required", a.required), ("hasDefault", a.default.isSome)]

/-- an argument of a node: derived from its declaration when the harness sends one (flags by `mkArg`), else the
    flags read from the real object (declaration forms outside the model). -/
def withDefaultVal (d : ArgDecl.Decl) (dv : Val) : ArgDecl.Decl :=
  { d with attr := match d.attr with | .value _ => .value dv | .fieldValue _ => .fieldValue dv | a => a }

/-- an argument sent as (class, parameter name): the declaration in force is resolved by the model through the class table
    of the library (`ArgDecl.effDecl`, rule from the source), the flags derived by `mkArg`; `dv` = the declared default as a
    model value (it may refer to nodes of the graph). -/
def argOfTable (t : ArgDecl.ClassTable) (j : Json) : Arg :=
  let nm := unhex (strF j "name")
  match (ArgDecl.effDecl t Gen.ArgFlags.inheritRule (natF j "cls") nm).bind
      (fun d => (withDefaultVal d (valOf (fld j "dv"))).toArg (valOf (fld j "value"))) with
  | some a => a
  | none => { name := nm, value := valOf (fld j "value") }

def argOf (t : ArgDecl.ClassTable) (j : Json) : Arg :=
  if !isNull (fld j "cls") then argOfTable t j else
  if !isNull (fld j "decl") then
    match (declOf (fld j "decl")).toArg (valOf (fld j "value")) with
    | some a => a
    | none => { name := unhex (strF (fld j "decl") "name"), value := valOf (fld j "value") }
  else
  { name := unhex (strF j "name"), ignored := boolF j "ignored", generator := boolF j "generator",
    constant := boolF j "constant", required := boolF j "required",
    default := (if isNull (fld j "default") then none else some (valOf (fld j "default"))),
    value := valOf (fld j "value") }

def optBool (j : Json) : Option Bool := if isNull j then none else some (J.bool j)

def nodeOf (t : ArgDecl.ClassTable) (j : Json) : Node :=
  { typeId := unhex (strF j "typeId"), args := (arrF j "args").map (argOf t), task := optNat (fld j "task"),
    mflag := optBool (fld j "meta"), sealed := boolF j "sealed",
    preTasks := (arrF j "pre").map nat, initTasks := (arrF j "init").map nat }

/-- the non-signature fields of a node (`Model/IdentEnv.lean`): tags, added dependencies. -/
def depOf (j : Json) : ExtraDep :=
  match j.getObjVal? "job" with
  | .ok n => .job (nat n)
  | _ => .token (natF j "token") (natF j "count")
def xnodeOf (t : ArgDecl.ClassTable) (j : Json) : XNode :=
  { toNode := nodeOf t j,
    tags := (arrF j "tags").map (fun kv => (unhex (J.str ((arr kv).getD 0 Json.null)), valOf ((arr kv).getD 1 Json.null))),
    extraDeps := (arrF j "deps").map depOf }
def envOf (j : Json) : SubmitEnv :=
  { launcher := optNat (fld j "launcher"), workspace := natF j "workspace",
    runMode := match strF j "runmode" with | "dry-run" => .dryRun | "generate-only" => .generateOnly | _ => .normal }

abbrev D := List Nat
def hc : HC D := { H := Sha256.hashBytes, emb := id, le := bytesLe }

def okJ : Json := Json.mkObj [("ok", true)]

/-- driver state: the machine and the class tables of the libraries registered by `lib` lines. -/
abbrev DSt := XSt D × List (String × ArgDecl.ClassTable)

def stepX (tables : List (String × ArgDecl.ClassTable)) (xs : XSt D) (j : Json) : XSt D × Json :=
  let outJ (out : Out D) : Json := match out with
      | .ok => okJ
      | .id d => Json.mkObj [("id", hexOf d)]
      | .sealedError => Json.mkObj [("err", "sealed")]
  let xrun1 (op : XOp) : XSt D × Json :=
    let (s', out) := xstep hc Gen.loopFlagStored xs op
    (s', outJ out)
  let run (op : Op) : XSt D × Json := xrun1 (.core op)
  let s := xs.st
  let keep (r : St D × Json) : XSt D × Json := ({ xs with st := r.1 }, r.2)
  match strF j "op" with
  | "graph" =>
    -- the extended graph (tags, added dependencies, submission environment) is built from the line; the identifier machine
    -- starts from its erasure
    let t := ((tables.find? (fun kt => kt.1 == strF j "lib")).map (·.2)).getD []
    let x : XGraph := { nodes := (arrF j "nodes").map (xnodeOf t), env := envOf (fld j "env") }
    ({ st := { g := x.core, c := Caches.empty },
       tags := (x.nodes.zipIdx.map (fun (nd, i) => nd.tags.map (fun kv => (i, kv.1, kv.2)))).flatten,
       deps := (x.nodes.zipIdx.map (fun (nd, i) => nd.extraDeps.map (fun d => (i, d)))).flatten,
       env := x.env },
     okJ)
  | "tag" => xrun1 (.tag (natF j "n") (unhex (strF j "k")) (valOf (fld j "v")))
  | "adddep" => xrun1 (.addDep (natF j "n") (depOf (fld j "dep")))
  | "env" => xrun1 (.setEnv (envOf (fld j "env")))
  | "extras" =>  -- what the model holds of the non-signature inputs (echoed to the harness)
    (xs, Json.mkObj [("tags", xs.tags.length), ("deps", xs.deps.length), ("workspace", xs.env.workspace),
      ("launcher", match xs.env.launcher with | some l => (l : Json) | none => Json.null),
      ("runmode", match xs.env.runMode with | .normal => "normal" | .dryRun => "dry-run" | .generateOnly => "generate-only")])
  | "seal" => run (.sealOp (natF j "n"))
  | "raw" => run (.reqRaw (natF j "n"))
  | "full" => run (.reqFull (natF j "n"))
  | "set" => run (.set (natF j "n") (unhex (strF j "name")) (valOf (fld j "v")))
  | "setmeta" => run (.setMeta (natF j "n") (optBool (fld j "b")))
  | "addpre" => run (.addPretask (natF j "n") (natF j "p"))
  | "spec" =>   -- cache-free specification of the full identifier
    keep (s, Json.mkObj [("id", hexOf (fullId hc s.g (natF j "n")))])
  | "deps" =>   -- dependencies collected when node n is submitted (its own `task` field is still unset)
    let n := natF j "n"
    let g' := setNode s.g n (fun nd => { nd with task := none })
    let explicit := (arrF j "explicit").map nat
    let loaded := (arrF j "loaded").map nat      -- nodes obtained by deserialisation (`__xpm__.loaded`)
    let all := (collectDeps g' (fun k => loaded.contains k) n ++ explicit).eraseDups
    keep (s, Json.mkObj [("deps", Json.arr ((all.toArray.qsort (· < ·)).map (fun (k : Nat) => (k : Json))))])
  | "flags" =>  -- flags derived from the declarations of a class library: [[flags per declaration] per class]
    if !isNull (fld j "table") then
      -- with the class table: the model resolves which declaration is in force for each parameter name of each class
      -- (`classArg`: own declaration, else through the bases by the rule read from the source; class attribute along the MRO)
      let t := tableOf (fld j "table")
      keep (s, Json.mkObj [("flags", Json.arr ((arrF j "classes").map (fun c =>
        Json.arr (((arrF c "names").map (fun nm =>
          match ArgDecl.effDecl t Gen.ArgFlags.inheritRule (natF c "idx") (unhex (J.str nm)) with
          | none => Json.str "missing"
          | some d => flagsOfArg (ArgDecl.mkArg d))).toArray))).toArray),
        ("rule", match Gen.ArgFlags.inheritRule with | .depthFirst => "depthFirst" | .mro => "mro")])
    else
    keep (s, Json.mkObj [("flags", Json.arr ((arrF j "classes").map (fun c =>
      Json.arr (((arrF c "decls").map (fun d => flagsJ (declOf d))).toArray))).toArray)])
  | "sealed" => keep (s, Json.mkObj [("sealed", Json.arr ((s.g.nodes.map (fun nd => (nd.sealed : Json))).toArray))])
  | op => (xs, Json.mkObj [("error", Json.str s!"bad-op {op}")])

def stepJ (s : DSt) (j : Json) : DSt × Json :=
  match strF j "op" with
  | "lib" => ((s.1, (strF j "key", tableOf (fld j "table")) :: s.2), okJ)
  | _ => let (xs, out) := stepX s.2 s.1 j; ((xs, s.2), out)

def main : IO Unit := J.loop stepJ ({ st := { g := { nodes := [] }, c := Caches.empty } }, [])
