"""Worker (C05, real processes): a job that WAITS in one scheduler while another scheduler completes it.

usage: python -m xv.impl.c05_waitdone_worker <in.json> <out.json>
in:  {"kind": "waitdone", "cases": [case], "parallel": n}
     case: {"id", "xs": [x…] (the jobs B submits and that must wait), "a_xs": [x…] (those the other scheduler completes meanwhile),
            "hold": seconds the body lasts, "fail_first": the first execution of every body fails (the other scheduler then leaves a
            failure marker, not a success marker), "settle": seconds B stays WAITING before the other scheduler starts}
out: [{"log": [[kind, x, pid, t]…], "intervals": {x: [[pid, t0, t1, "end"|"fail"|"open"]…]}, "finals": {"b": {x: state}, "a": {x: state}},
       "done_before_release": [x…] (success markers present when the waiting jobs were released), "steps": […], "error": None|str}]

Scheduler B (experiment `xpB`, its own process): a `Gated` blocker task holds the only slot of a `ProcessCounterToken(1)`; the jobs
`Racer(x)` are submitted with a dependency on that token (tokens are not part of the identifier): they are WAITING — no success
marker, no process.  Scheduler A (experiment `xpA`, another process, same workspace) submits the same configurations for `a_xs`
without the token, runs them to completion and exits.  Then the blocker is released: B's jobs become READY and B starts them.
Every step is sequenced through files and process termination (no timing race)."""
import json
import os
import shutil
import signal
import subprocess
import sys
import tempfile
import time
from concurrent.futures import ThreadPoolExecutor
from pathlib import Path

from .restart_worker import PY, lines_to_intervals, pid_alive, prepare, read_log, wait_for

XPB = '''import json, os, sys, time
from pathlib import Path
case = json.loads(Path(sys.argv[1]).read_text())
ws = Path(case["ws"])
os.environ["XPM_WORKDIR"] = str(ws / "xpmwork-b")
sys.path.insert(0, case["libroot"])
import logging
logging.basicConfig(level=logging.ERROR)
import xvlib as L
from experimaestro import experiment
from experimaestro.scheduler import JobState
from experimaestro.tokens import ProcessCounterToken

def until(cond, what, seconds=150.0):
    end = time.time() + seconds
    while not cond():
        if time.time() > end:
            raise RuntimeError("timeout waiting for " + what)
        time.sleep(0.02)

final = {"error": None, "states": {}}
jobs = {}
try:
    with experiment(ws, "xpB", port=-1) as xp:
        xp.setenv("PYTHONPATH", case["pythonpath"])
        token = ProcessCounterToken(1)
        blocker = L.Gated(x=0, logf=ws / "task.log", gate=ws / "gate")
        blocker.add_dependencies(token.dependency(1))
        blocker.submit()
        until(lambda: (ws / "task.log").exists() and any(l.startswith("start 0 ") for l in (ws / "task.log").read_text().splitlines()), "the blocker to start")
        for x in case["xs"]:
            t = L.Racer(x=x, hold=case["hold"], fail_first=case["fail_first"], logf=ws / "task.log")
            t.add_dependencies(token.dependency(1))
            t.submit()
            jobs[x] = t.__xpm__.job
        until(lambda: all(j.state == JobState.WAITING for j in jobs.values()), "the jobs to be WAITING in B")
        time.sleep(case["settle"])
        (ws / "b.waiting.json").write_text(json.dumps({str(x): {"done": j.donepath.exists(), "state": j.state.name, "donepath": str(j.donepath)} for x, j in jobs.items()}))
        until(lambda: (ws / "a.exited").exists(), "the other scheduler to finish", 400.0)
        (ws / "b.released.json").write_text(json.dumps({str(x): j.donepath.exists() for x, j in jobs.items()}))
        (ws / "gate").touch()
        xp.wait()
except BaseException as e:
    final["error"] = f"{type(e).__name__}: {e}"
    (ws / "gate").touch()
final["states"] = {str(x): j.state.name for x, j in jobs.items()}
(ws / "final.b.json").write_text(json.dumps(final))
'''

XPA = '''import json, os, sys, time
from pathlib import Path
case = json.loads(Path(sys.argv[1]).read_text())
ws = Path(case["ws"])
os.environ["XPM_WORKDIR"] = str(ws / "xpmwork-a")
sys.path.insert(0, case["libroot"])
import logging
logging.basicConfig(level=logging.ERROR)
import xvlib as L
from experimaestro import experiment

final = {"error": None, "states": {}}
jobs = {}
try:
    with experiment(ws, "xpA", port=-1) as xp:
        xp.setenv("PYTHONPATH", case["pythonpath"])
        for x in case["a_xs"]:
            t = L.Racer(x=x, hold=case["hold"], fail_first=case["fail_first"], logf=ws / "task.log")
            t.submit()
            jobs[x] = t.__xpm__.job
        xp.wait()
except BaseException as e:
    final["error"] = f"{type(e).__name__}: {e}"
final["states"] = {str(x): j.state.name for x, j in jobs.items()}
(ws / "final.a.json").write_text(json.dumps(final))
'''


def run_waitdone_case(case, timeout=300):
    root = Path(tempfile.mkdtemp(prefix="xv-c05w-"))
    obs = {"id": case["id"], "error": None, "steps": []}
    pb = pa = None
    try:
        ws, env, full = prepare(root, case)
        (root / "xpb.py").write_text(XPB)
        (root / "xpa.py").write_text(XPA)
        pb = subprocess.Popen([PY, str(root / "xpb.py"), str(root / "case.json")], env=env, stdout=subprocess.DEVNULL,
                              stderr=open(root / "errb", "w"), cwd=str(root))
        if not wait_for(lambda: (ws / "b.waiting.json").exists() or pb.poll() is not None, 240) or pb.poll() is not None:
            raise RuntimeError("scheduler B did not reach the waiting state: " + (root / "errb").read_text()[-300:])
        obs["waiting"] = json.loads((ws / "b.waiting.json").read_text())
        obs["steps"].append("B: jobs WAITING")
        pa = subprocess.Popen([PY, str(root / "xpa.py"), str(root / "case.json")], env=env, stdout=subprocess.DEVNULL,
                              stderr=open(root / "erra", "w"), cwd=str(root))
        try:
            rca = pa.wait(timeout=timeout)
        except subprocess.TimeoutExpired:
            rca = "timeout"
            pa.kill()
        obs["steps"].append(f"A: exited rc={rca}")
        (ws / "a.exited").touch()
        try:
            rcb = pb.wait(timeout=timeout)
        except subprocess.TimeoutExpired:
            rcb = "timeout"
            pb.kill()
        obs["steps"].append(f"B: released, exited rc={rcb}")
        lines = [l for l in read_log(ws / "task.log") if l[1] != 0]
        obs["log"] = [[k, x, pid, t] for k, x, pid, t in lines]
        obs["intervals"] = lines_to_intervals(lines)
        rd = lambda n: json.loads((ws / n).read_text()) if (ws / n).exists() else None
        obs["finals"] = {"a": rd("final.a.json"), "b": rd("final.b.json")}
        rel = rd("b.released.json") or {}
        obs["done_before_release"] = sorted(int(x) for x, d in rel.items() if d)
        obs["rcs"] = [rca, rcb]
        obs["err"] = ((root / "errb").read_text()[-300:] if rcb != 0 else "") + ((root / "erra").read_text()[-300:] if rca != 0 else "")
    except Exception as e:
        obs["error"] = f"{type(e).__name__}: {e}"
    finally:
        try:
            (root / "ws" / "gate").touch()
        except Exception:
            pass
        for p in (pa, pb):
            if p is not None and p.poll() is None:
                try:
                    p.wait(timeout=5)
                except Exception:
                    p.kill()
        try:
            for l in read_log(root / "ws" / "task.log"):
                if pid_alive(l[2]):
                    os.kill(l[2], signal.SIGKILL)
        except Exception:
            pass
        shutil.rmtree(root, ignore_errors=True)
    return obs


def main():
    data = json.loads(Path(sys.argv[1]).read_text())
    with ThreadPoolExecutor(max_workers=data.get("parallel", 4)) as ex:
        res = list(ex.map(run_waitdone_case, data["cases"]))
    Path(sys.argv[2]).write_text(json.dumps(res))


if __name__ == "__main__":
    main()
