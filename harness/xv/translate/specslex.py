"""Python-AST -> Lean translator for the *terminals* of the request grammar of launcherfinder/parser.py.

Reads (never imports) ``src/experimaestro/launcherfinder/parser.py`` and emits ``XpmVerif/Generated/SpecsLex.lean`` with

* ``genLits``        the literal of every terminal position of the grammar rules, by role
                     (``mem_spec`` = (kwMem, eq, <regex>), ``cuda`` = (kwCuda, lpar, …, rpar, …), separators …);
                     a role spelled in two ways gets two entries (the obligation ``genLits = refLits`` then fails)
* ``genReMem``       the ``RegExMatch`` of ``mem_spec``            as a ``Re`` (``Model/SpecsLexBase.lean``)
* ``genReNum``       the ``RegExMatch``es of ``cores_spec``, ``multiplier``, ``duration`` (number), distinct ones
* ``genReUnit``      the unit ``RegExMatch`` of ``duration``
* ``genParserOpts``  keyword arguments of ``ParserPython(...)`` that change tokenisation and differ from arpeggio's defaults

Regular expressions are read with Python's own parser (``re._parser``), so spelling variants of the same expression
(``[GM]`` / ``(G|M)`` / ``(?:G|M)``, ``[0-9]`` / ``\\d``) give the same or an equivalent ``Re``; the obligations in
``Properties/C18Lex.lean`` are semantic (for every input the generated expression matches the span the lexer cuts).

Outside the subset (other regex operators, flags, a rule whose terminals have another shape, computed literals):
``Untranslatable`` -> the reference definitions are written with a comment and the caller gets
``(True, "untranslated: <why>; falls back on the correspondence")`` (the character-level differential of C18 decides).
"""
import ast
from pathlib import Path

try:  # Python >= 3.11
    import re._parser as sre_parse
    import re._constants as sre_c
except ImportError:  # pragma: no cover
    import sre_parse
    import sre_constants as sre_c


class Untranslatable(Exception):
    pass


SRC = "src/experimaestro/launcherfinder/parser.py"
OUT = "XpmVerif/Generated/SpecsLex.lean"

# rule -> roles of its terminals in order ("L:<tok>" literal, "R:<which>" regular expression)
RULES = {
    "mem_spec": ["L:kwMem", "L:eq", "R:mem"],
    "cores_spec": ["L:kwCores", "L:eq", "R:num"],
    "multiplier": ["L:star", "R:num"],
    "cuda": ["L:kwCuda", "L:lpar", "L:rpar"],
    "cpu": ["L:kwCpu", "L:lpar", "L:rpar"],
    "duration": ["L:kwDuration", "L:eq", "R:num", "R:unit"],
    "cuda_specs": ["L:comma"],
    "cpu_specs": ["L:comma"],
    "one_spec": ["L:amp"],
    "grammar": ["L:bar"],
}
ROLE_ORDER = ["kwDuration", "kwCuda", "kwCpu", "kwMem", "kwCores", "lpar", "rpar", "comma", "eq", "star", "amp", "bar"]
# arpeggio's defaults for the ParserPython keyword arguments that matter for tokenisation / tree shape
OPT_DEFAULTS = {"ws": "'\\t\\n\\r '", "skipws": "True", "ignore_case": "False", "autokwd": "False", "reduce_tree": "False",
                "comment_def": "None"}
OPT_IGNORED = {"syntax_classes", "debug", "memoization", "file"}


def lean_char(c):
    if len(c) != 1 or not (32 <= ord(c) < 127) or c in "'\\":
        raise Untranslatable(f"character {c!r} outside printable ASCII")
    return f"'{c}'"


def lean_chars(s):
    if not s:
        raise Untranslatable("empty literal")
    return "[" + ", ".join(lean_char(c) for c in s) + "]"


# ------------------------------------------------------------------ regular expressions


def re_seq(items):
    items = [i for i in items if i != "Re.eps"]
    if not items:
        return "Re.eps"
    out = items[-1]
    for i in reversed(items[:-1]):
        out = f"(Re.seq {i} {out})"
    return out


def re_alt(items):
    out = items[-1]
    for i in reversed(items[:-1]):
        out = f"(Re.alt {i} {out})"
    return out


def is_digit_class(av):
    """`\\d` or `[0-9]` (ASCII domain)"""
    if len(av) != 1:
        return False
    op, v = av[0]
    if op == sre_c.CATEGORY and v == sre_c.CATEGORY_DIGIT:
        return True
    return op == sre_c.RANGE and v == (48, 57)


def tr_item(op, av):
    if op == sre_c.LITERAL:
        return f"(Re.chr {lean_char(chr(av))})"
    if op == sre_c.IN:
        if is_digit_class(av):
            return "Re.digit"
        if all(o == sre_c.LITERAL for o, _ in av):
            return re_alt([f"(Re.chr {lean_char(chr(v))})" for _, v in av])
        raise Untranslatable("character class other than digits / a set of literals")
    if op == sre_c.SUBPATTERN:
        _group, add, dele, sub = av
        if add or dele:
            raise Untranslatable("inline regex flags")
        return tr_sub(sub)
    if op == sre_c.BRANCH:
        _, alts = av
        return re_alt([tr_sub(a) for a in alts])
    if op == sre_c.MAX_REPEAT:
        lo, hi, sub = av
        if (lo, hi) == (0, 1):
            return f"(Re.opt {tr_sub(sub)})"
        items = list(sub)
        if lo == 1 and hi == sre_c.MAXREPEAT and len(items) == 1 and items[0][0] == sre_c.IN and is_digit_class(items[0][1]):
            return "Re.plusDigit"
        raise Untranslatable(f"repetition {{{lo},{hi}}} outside the subset (`?`, `\\d+`)")
    raise Untranslatable(f"regex operator {op} outside the subset")


def tr_sub(sub):
    return re_seq([tr_item(op, av) for op, av in sub])


def tr_regex(pattern):
    try:
        parsed = sre_parse.parse(pattern)
    except Exception as e:  # an invalid expression: the real module fails too
        raise Untranslatable(f"regex {pattern!r} does not parse: {e}")
    if parsed.state.flags & ~sre_c.SRE_FLAG_UNICODE:
        raise Untranslatable("regex flags")
    out = tr_sub(parsed)
    return out[1:-1] if out.startswith("(") else out


# ------------------------------------------------------------------ grammar rules


class Grammar:
    def __init__(self, tree):
        self.consts = {}   # module-level NAME = "literal" / RegExMatch(...)
        self.funcs = {}
        for node in tree.body:
            if isinstance(node, ast.Assign) and len(node.targets) == 1 and isinstance(node.targets[0], ast.Name):
                self.consts[node.targets[0].id] = node.value
            elif isinstance(node, ast.FunctionDef):
                self.funcs[node.name] = node

    def returned(self, name):
        f = self.funcs.get(name)
        if f is None:
            raise Untranslatable(f"rule {name} not found")
        body = [s for s in f.body if not (isinstance(s, ast.Expr) and isinstance(s.value, ast.Constant))]  # docstring
        if len(body) != 1 or not isinstance(body[0], ast.Return) or body[0].value is None:
            raise Untranslatable(f"rule {name}: body is not a single return")
        return body[0].value

    def terminals(self, e, depth=0):
        """terminals of a rule expression in order: ('L', str) / ('R', pattern); references to other rules are skipped"""
        if depth > 4:
            raise Untranslatable("constant indirection too deep")
        if isinstance(e, ast.Constant) and isinstance(e.value, str):
            return [("L", e.value)]
        if isinstance(e, ast.Name):
            if e.id in self.funcs:
                return []
            if e.id in self.consts:
                return self.terminals(self.consts[e.id], depth + 1)
            raise Untranslatable(f"unknown name {e.id}")
        if isinstance(e, (ast.Tuple, ast.List)):
            return [t for x in e.elts for t in self.terminals(x, depth)]
        if isinstance(e, ast.Call) and isinstance(e.func, ast.Name):
            fn = e.func.id
            if fn == "RegExMatch":
                if len(e.args) != 1 or e.keywords or not (isinstance(e.args[0], ast.Constant) and isinstance(e.args[0].value, str)):
                    raise Untranslatable("RegExMatch with options or a computed pattern")
                return [("R", e.args[0].value)]
            if fn in ("StrMatch", "SuppressStrMatch"):
                if len(e.args) != 1 or e.keywords:
                    raise Untranslatable(f"{fn} with options")
                return self.terminals(e.args[0], depth)
            if fn in ("ZeroOrMore", "OneOrMore"):
                out = [t for a in e.args for t in self.terminals(a, depth)]
                for kw in e.keywords:
                    if kw.arg == "sep":
                        out += self.terminals(kw.value, depth)
                    else:
                        raise Untranslatable(f"{fn}({kw.arg}=…)")
                return out
            if fn in ("OrderedChoice", "Optional", "Sequence"):
                if e.keywords:
                    raise Untranslatable(f"{fn} with options")
                return [t for a in e.args for t in self.terminals(a, depth)]
            if fn == "EndOfFile" and not e.args and not e.keywords:
                return []
        raise Untranslatable(f"grammar expression {ast.unparse(e)[:60]!r} outside the subset")


def parser_opts(tree):
    opts = []
    calls = [n for n in ast.walk(tree) if isinstance(n, ast.Call) and isinstance(n.func, ast.Name) and n.func.id == "ParserPython"]
    if len(calls) != 1:
        raise Untranslatable(f"{len(calls)} calls of ParserPython")
    for kw in calls[0].keywords:
        if kw.arg is None:
            raise Untranslatable("ParserPython(**…)")
        if kw.arg in OPT_IGNORED:
            continue
        v = ast.unparse(kw.value)
        if kw.arg in OPT_DEFAULTS:
            try:
                same = ast.literal_eval(kw.value) == ast.literal_eval(OPT_DEFAULTS[kw.arg])
            except Exception:
                same = False
            if same:
                continue
        opts.append((kw.arg, v))
    return sorted(opts)


HEADER = """/- GENERATED by harness/xv/translate/specslex.py from
   src/experimaestro/launcherfinder/parser.py -- do not edit; rewritten on every run. -/
import XpmVerif.Model.SpecsLexBase
namespace XpmVerif.Specs
"""


def lean_str(s):
    return '"' + s.replace("\\", "\\\\").replace('"', '\\"') + '"'


def translate(src):
    tree = ast.parse(src)
    g = Grammar(tree)
    lits = {}      # role -> spellings in order of appearance
    regs = {"mem": [], "num": [], "unit": []}
    pats = {"mem": [], "num": [], "unit": []}
    for rule, roles in RULES.items():
        terms = g.terminals(g.returned(rule))
        if [k for k, _ in terms] != [r[0] for r in roles]:
            raise Untranslatable(f"rule {rule}: terminals {[k for k, _ in terms]} do not have the shape {[r[0] for r in roles]}")
        for (kind, text), role in zip(terms, roles):
            name = role[2:]
            if kind == "L":
                if text not in lits.setdefault(name, []):
                    lits[name].append(text)
            else:
                r = tr_regex(text)
                if r not in regs[name]:
                    regs[name].append(r)
                    pats[name].append(text)
    if len(regs["mem"]) != 1 or len(regs["unit"]) != 1:
        raise Untranslatable("mem/unit expression missing")
    entries = [f"({lean_chars(s)}, Tok.{role})" for role in ROLE_ORDER for s in sorted(lits.get(role, []))]
    opts = parser_opts(tree)
    out = [HEADER]
    out.append("/-- the literals of the grammar rules, by role (rule, position) -/")
    out.append("def genLits : List (List Char × Tok) :=\n  [" + ", ".join(entries) + "]\n")
    out.append(f"/-- mem_spec: `{pats['mem'][0]}` -/")
    out.append(f"def genReMem : Re := {regs['mem'][0]}\n")
    out.append("/-- cores_spec / multiplier / duration: " + ", ".join(f"`{p}`" for p in pats["num"]) + " -/")
    out.append("def genReNum : List Re := [" + ", ".join(regs["num"]) + "]\n")
    out.append(f"/-- duration: `{pats['unit'][0]}` -/")
    out.append(f"def genReUnit : Re := {regs['unit'][0]}\n")
    out.append("/-- keyword arguments of `ParserPython(...)` that change tokenisation (ws, skipws, ignore_case, autokwd, ...) -/")
    out.append("def genParserOpts : List (String × String) := [" + ", ".join(f"({lean_str(k)}, {lean_str(v)})" for k, v in opts) + "]\n")
    out.append("end XpmVerif.Specs\n")
    return "\n".join(out)


def generate(repo: Path, lean_dir: Path):
    """returns (ok, message); rewrites the file only when the content changes"""
    src = (Path(repo) / SRC).read_text()
    out = Path(lean_dir) / OUT
    try:
        text = translate(src)
        ok, msg = True, "translated (literals by role, 3 regular expressions, parser options)"
    except Untranslatable as e:
        ref = (Path(__file__).parent / "specslex_reference.lean.txt").read_text()
        why = str(e)[:160].replace("\n", " ")
        text = ref.replace("namespace XpmVerif.Specs", f"-- REFERENCE DEFINITIONS (source shape not recognised: {why})\nnamespace XpmVerif.Specs", 1)
        ok, msg = True, f"untranslated: {why}; falls back on the correspondence"
    except SyntaxError as e:
        text = HEADER + f"\n#eval (TRANSLATION_FAILED : Nat) -- {str(e)[:200]}\n\nend XpmVerif.Specs\n"
        ok, msg = False, f"untranslatable: {e}"
    if not out.exists() or out.read_text() != text:
        out.write_text(text)
    return ok, msg


if __name__ == "__main__":
    import sys
    print(translate(Path(sys.argv[1]).read_text()))
