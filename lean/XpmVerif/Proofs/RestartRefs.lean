import XpmVerif.Proofs.RestartSim
/-! C11, adoption: two facts about the callbacks of M2 that hold in ANY state (no invariant of M2 is used, so they apply
    to the scheduler of the restart world with adopted jobs):
    * `RI P`: every reference to a dependency — a queued `check` / `notifyCheck`, an entry of a dependent list — satisfies
      `P`; a callback only copies references from the lists to the queue, and a first segment adds the references
      `(x, d)`, `d < deps.length` (`runCb_ri`);
    * the number of plain callbacks a callback appends is bounded by the lengths of the dependent lists and of the
      `held` list of the acting job (`runCb_gGrow`). -/
set_option linter.unusedSimpArgs false
set_option linter.unusedVariables false
namespace XpmVerif.RestartAbs
open XpmVerif.Sched hiding Reachable flOK submitPre submitPost sumTo
open XpmVerif.SchedFinal XpmVerif.Restart XpmVerif.RestartTerm

/-- every reference to a dependency satisfies `P`. -/
structure RI (P : Nat → Nat → Prop) (s : St) : Prop where
  cb : ∀ j d, (Cb.check j d ∈ s.ready ∨ Cb.notifyCheck j d ∈ s.ready) → P j d
  tok : ∀ t p, p ∈ s.tokDeps t → P p.1 p.2
  job : ∀ o p, p ∈ s.jobDeps o → P p.1 p.2

theorem RI.mono {P Q : Nat → Nat → Prop} {s : St} (h : RI P s) (hpq : ∀ j d, P j d → Q j d) : RI Q s :=
  ⟨fun j d hm => hpq j d (h.cb j d hm), fun t p hp => hpq _ _ (h.tok t p hp), fun o p hp => hpq _ _ (h.job o p hp)⟩

theorem RI.same {P : Nat → Nat → Prop} {s s' : St} (h : RI P s) (hr : s'.ready = s.ready) (ht : s'.tokDeps = s.tokDeps)
    (hj : s'.jobDeps = s.jobDeps) : RI P s' :=
  ⟨fun j d hm => h.cb j d (by rw [hr] at hm; exact hm), fun t p hp => h.tok t p (by rw [ht] at hp; exact hp),
   fun o p hp => h.job o p (by rw [hj] at hp; exact hp)⟩

/-- the queue grows by callbacks that are no dependency checks. -/
theorem RI.grow {P : Nat → Nat → Prop} {s s' : St} (h : RI P s) (new : List Cb) (hr : s'.ready = s.ready ++ new)
    (hnew : ∀ j d, (Cb.check j d ∈ new ∨ Cb.notifyCheck j d ∈ new) → P j d)
    (ht : s'.tokDeps = s.tokDeps) (hj : s'.jobDeps = s.jobDeps) : RI P s' := by
  refine ⟨?_, fun t p hp => h.tok t p (by rw [ht] at hp; exact hp), fun o p hp => h.job o p (by rw [hj] at hp; exact hp)⟩
  intro j d hm
  rw [hr] at hm
  simp only [List.mem_append] at hm
  rcases hm with (hm | hm) | (hm | hm)
  · exact h.cb j d (Or.inl hm)
  · exact hnew j d (Or.inl hm)
  · exact h.cb j d (Or.inr hm)
  · exact hnew j d (Or.inr hm)

theorem RI.put {P : Nat → Nat → Prop} {s : St} (h : RI P s) (x : Nat) (jb : Job) (cbs : List Cb) (ths : List (TK × Nat))
    (hc : ∀ cb ∈ cbs, notChk cb) : RI P (s.put x jb cbs ths) :=
  h.grow cbs rfl (fun j d hm => by
    rcases hm with hm | hm
    · exact absurd (hc _ hm) (by simp [notChk])
    · exact absurd (hc _ hm) (by simp [notChk])) rfl rfl

theorem notChk_wake (b : Bool) (x : Nat) : ∀ cb ∈ (if b = true then [Cb.wake x] else []), notChk cb := by
  intro cb hcb; cases b <;> simp at hcb; subst hcb; trivial

theorem RI.check {P : Nat → Nat → Prop} {s : St} (h : RI P s) (fl : Flags) (x d : Nat) : RI P (s.check fl x d) := by
  unfold St.check
  exact h.put x _ _ _ (notChk_wake _ x)

theorem RI.pop {P : Nat → Nat → Prop} {s : St} (h : RI P s) {cb : Cb} {rest : List Cb} (hr : s.ready = cb :: rest) :
    RI P ({ s with ready := rest } : St) :=
  ⟨fun j d hm => h.cb j d (by
      rw [hr]
      rcases hm with hm | hm
      · exact Or.inl (List.mem_cons_of_mem _ hm)
      · exact Or.inr (List.mem_cons_of_mem _ hm)), h.tok, h.job⟩

theorem RI.finish {P : Nat → Nat → Prop} {s : St} (h : RI P s) (x : Nat) : RI P (s.finish x) := by
  have hs := finish_shape s x
  exact h.same (by rw [hs.ready]; simp) hs.tokDeps hs.jobDeps

theorem RI.loopHead {P : Nat → Nat → Prop} {s : St} (h : RI P s) (x : Nat) : RI P (s.loopHead x) := by
  have hs := loopHead_shape s x
  exact h.same (by rw [hs.ready]; simp) hs.tokDeps hs.jobDeps

theorem RI.regOne {P : Nat → Nat → Prop} {s : St} (h : RI P s) (x d : Nat) (hp : P x d) : RI P (SchedFinal.regOne s x d) := by
  unfold SchedFinal.regOne
  split
  · refine ⟨h.cb, h.tok, ?_⟩
    intro o p hpm
    simp only [upd] at hpm
    split at hpm
    · simp only [List.mem_append, List.mem_singleton] at hpm
      rcases hpm with hpm | hpm
      · rename_i e; subst e; exact h.job _ p hpm
      · subst hpm; exact hp
    · exact h.job o p hpm
  · refine ⟨h.cb, ?_, h.job⟩
    intro t p hpm
    simp only [upd] at hpm
    split at hpm
    · simp only [List.mem_append, List.mem_singleton] at hpm
      rcases hpm with hpm | hpm
      · rename_i e; subst e; exact h.tok _ p hpm
      · subst hpm; exact hp
    · exact h.tok t p hpm

theorem RI.registerDeps {P : Nat → Nat → Prop} (fl : Flags) (x : Nat) : ∀ (k d : Nat) (s : St), RI P s →
    (∀ d', d ≤ d' → d' < d + k → P x d') → RI P (St.registerDeps fl s x k d) := by
  intro k
  induction k with
  | zero => intro d s h _; exact h
  | succ k ih =>
    intro d s h hp
    rw [registerDeps_succ]
    exact ih (d + 1) _ ((h.regOne x d (hp d (Nat.le_refl _) (by omega))).check fl x d)
      (fun d' h1 h2 => hp d' (by omega) (by omega))

theorem RI.startPrefix {P : Nat → Nat → Prop} {s : St} (h : RI P s) (fl : Flags) (x : Nat)
    (hp : ∀ d, d < (s.jobs x).deps.length → P x d) : RI P (startPrefix fl s x) := by
  rw [startPrefix_eq]
  have hb : RI P (prefBody fl s x) := by
    unfold prefBody
    simp only []
    split
    · exact (h.put x _ [] [] (by simp)).put x _ [] [] (by simp)
    · exact RI.registerDeps fl x _ 0 _ ((h.put x _ [] [] (by simp)).put x _ [] [] (by simp))
        (fun d' _ h2 => hp d' (by simpa using h2))
  unfold markStep
  split
  · exact hb.put x _ [] [] (by simp)
  · exact hb

theorem RI.startJob {P : Nat → Nat → Prop} {s : St} (h : RI P s) (fl : Flags) (x : Nat)
    (hp : ∀ d, d < (s.jobs x).deps.length → P x d) : RI P (s.startJob fl x) := by
  rw [Restart.startJob_eq]
  exact (h.startPrefix fl x hp).loopHead x

theorem RI.relOne {P : Nat → Nat → Prop} {s : St} (h : RI P s) (x d : Nat) : RI P (SchedFinal.relOne s x d) := by
  unfold SchedFinal.relOne
  split
  · exact h
  · rename_i t c _
    refine h.grow _ rfl ?_ rfl rfl
    intro j d' hm
    rcases hm with hm | hm
    · simp only [List.mem_map] at hm
      obtain ⟨p, _, hp⟩ := hm; cases hp
    · simp only [List.mem_map] at hm
      obtain ⟨p, hpm, hp⟩ := hm
      cases hp
      exact h.tok t p hpm

theorem RI.releaseAll {P : Nat → Nat → Prop} (x : Nat) (ds : List Nat) (s : St) (h : RI P s) : RI P (St.releaseAll s x ds) :=
  releaseAll_ind (RI P) x (fun _ => True) (fun s' d _ h' => h'.relOne x d) (fun s' h' => h'.put x _ [] [] (by simp))
    ds s (fun _ _ => trivial) h

theorem RI.acquireAll {P : Nat → Nat → Prop} (x : Nat) (k d : Nat) (s : St) (h : RI P s) : RI P (St.acquireAll s x k d).1 :=
  (acquireAll_ind (RI P) x (d + k) (fun s' d' _ _ h' => by
    unfold acqOne
    split
    · exact h'.put x _ [] [] (by simp)
    · rename_i t c _
      have h'' : RI P ({ s' with avail := upd s'.avail t (s'.avail t - c) } : St) := ⟨h'.cb, h'.tok, h'.job⟩
      exact h''.put x _ [] [] (by simp)) k d s rfl h).1

theorem RI.doneStep {P : Nat → Nat → Prop} {s : St} (h : RI P s) (x : Nat) : RI P (SchedFinal.doneStep s x) := by
  unfold SchedFinal.doneStep
  refine RI.put (s := ({ s with unfinished := _, waiter := _, ready := _ } : St)) ?_ x _ [] [] (by simp)
  refine h.grow _ rfl ?_ rfl rfl
  intro j d hm
  rcases hm with hm | hm
  · simp only [List.mem_append, List.mem_map] at hm
    rcases hm with hm | ⟨p, hpm, hp⟩
    · split at hm <;> simp at hm
    · cases hp; exact h.job x p hpm
  · simp only [List.mem_append, List.mem_map] at hm
    rcases hm with hm | ⟨p, hpm, hp⟩
    · split at hm <;> simp at hm
    · cases hp

theorem RI.resume {P : Nat → Nat → Prop} {s : St} (h : RI P s) (fl : Flags) (x : Nat) : RI P (s.resume fl x) := by
  cases hp : (s.jobs x).pc with
  | lockEnter =>
    rw [resume_lockEnter fl s x hp]
    have h1 := RI.acquireAll x (s.jobs x).deps.length 0 s h
    generalize St.acquireAll s x (s.jobs x).deps.length 0 = r at h1
    obtain ⟨s1, fa⟩ := r
    unfold enterTail
    cases fa with
    | some d =>
      simp only []
      refine RI.put ?_ x _ [] _ (by simp)
      refine RI.check ?_ fl x d
      unfold abortRelease
      split
      · exact RI.releaseAll x _ s1 h1
      · exact h1
    | none => exact h1.put x _ [] _ (by simp)
  | lockExitAbort =>
    rw [resume_lockExitAbort fl s x hp]
    unfold abortTail
    simp only []
    exact ((RI.releaseAll x _ s h).put x _ _ [] (notChk_wake _ x)).loopHead x
  | lockExitRun => rw [resume_lockExitRun fl s x hp]; exact h.put x _ [] _ (by simp)
  | codeWait =>
    rw [resume_codeWait fl s x hp]
    unfold codeTail
    exact ((RI.releaseAll x _ s h).put x _ [] [] (by simp)).finish x
  | doneHandler => rw [resume_doneHandler fl s x hp]; exact h.doneStep x
  | none => rw [resume_other fl s x (by simp [hp, pcKind])]; exact h
  | created => rw [resume_other fl s x (by simp [hp, pcKind])]; exact h
  | evtWait => rw [resume_other fl s x (by simp [hp, pcKind])]; exact h
  | finished r => rw [resume_other fl s x (by simp [hp, pcKind])]; exact h

/-- **references through a callback**: a first segment adds the references to the dependencies of its job. -/
theorem runCb_ri {P : Nat → Nat → Prop} {s : St} (h : RI P s) (fl : Flags) (cb : Cb)
    (hp : ∀ x, cb = .start x → ∀ d, d < (s.jobs x).deps.length → P x d) : RI P (s.runCb fl cb) := by
  cases cb with
  | register j =>
    have hf := register_frameD fl s j
    exact h.same (register_jobs fl s j).2.1 hf.1 hf.2
  | start j => exact h.startJob fl j (hp j rfl)
  | wake j =>
    simp only [St.runCb]
    split
    · exact h.put j _ [] _ (by simp)
    · exact (h.put j _ [] [] (by simp)).loopHead j
  | resume j => exact h.resume fl j
  | check j d => exact h.check fl j d
  | notifyCheck j d =>
    rcases notifyCheck_cases fl s j d with e | e <;> rw [e]
    · exact h.check fl j d
    · exact h
  | waiterRun =>
    have hf := waiterRun_frameD s
    exact h.same (waiterRun_jobs s).2.1 hf.1 hf.2

/-! ### growth of the queue -/

theorem startPrefix_grow (fl : Flags) (s : St) (x : Nat) : Grow s (startPrefix fl s x) 0 0 := by
  rw [startPrefix_eq]
  have hb : Grow s (prefBody fl s x) 0 0 := by
    unfold prefBody
    simp only []
    split
    · exact Grow.trans' (g := 0) (t := 0) (Grow.put s x _ [] []) (Grow.put _ x _ [] []) (by simp) (by simp)
    · exact Grow.trans' (g := 0) (t := 0) (Grow.trans' (g := 0) (t := 0) (Grow.put s x _ [] []) (Grow.put _ x _ [] []) (by simp) (by simp))
        (registerDeps_grow fl _ x _ _) (by simp) (by simp)
  unfold markStep
  split
  · exact Grow.trans' (g := 0) (t := 0) hb (Grow.put _ x _ [] []) (by simp) (by simp)
  · exact hb

/-- **plain callbacks appended by one callback**. -/
theorem runCb_gGrow (fl : Flags) (s : St) (cb : Cb) (D H : Nat) (hD : ∀ t, (s.tokDeps t).length ≤ D)
    (hJ : ∀ o, (s.jobDeps o).length ≤ D)
    (hH : ∀ x, cb = .resume x → (s.jobs x).held.length + (s.jobs x).deps.length ≤ H) :
    gCount (s.runCb fl cb).ready ≤ gCount s.ready + (H * D + D + 1) := by
  cases cb with
  | register j => simp only [St.runCb]; rw [(register_jobs fl s j).2.1]; omega
  | waiterRun => simp only [St.runCb]; rw [(waiterRun_jobs s).2.1]; omega
  | start j => have := (startJob_grow fl s j).1; simp only [St.runCb]; omega
  | wake j => have := (wake_grow fl s j).1; omega
  | check j d => have := (check_grow fl s j d).1; simp only [St.runCb]; omega
  | notifyCheck j d =>
    rcases notifyCheck_cases fl s j d with e | e <;> rw [e]
    · have := (check_grow fl s j d).1; omega
    · omega
  | resume x =>
    have hHx := hH x rfl
    simp only [St.runCb]
    cases hp : (s.jobs x).pc with
    | lockEnter =>
      rw [resume_lockEnter fl s x hp]
      have h1 := acquireAll_grow s x (s.jobs x).deps.length 0
      have h2 := acquireAll_held_len x (s.jobs x).deps.length 0 s
      have h3 := acquireAll_frameD s x (s.jobs x).deps.length 0
      have h4 := enterTail_grow fl (St.acquireAll s x (s.jobs x).deps.length 0) x D (by intro t; rw [h3.1]; exact hD t)
      have := h1.1; have := h4.1
      have hm : ((St.acquireAll s x (s.jobs x).deps.length 0).1.jobs x).held.length * D ≤ H * D :=
        Nat.mul_le_mul_right D (by omega)
      omega
    | lockExitAbort =>
      rw [resume_lockExitAbort fl s x hp]
      have h1 := releaseAll_grow s x D (s.jobs x).held s hD
      have h2 := abortTail_grow fl (St.releaseAll s x (s.jobs x).held) x
      have := h1.1; have := h2.1
      have hm : (s.jobs x).held.length * D ≤ H * D := Nat.mul_le_mul_right D (by omega)
      omega
    | lockExitRun =>
      rw [resume_lockExitRun fl s x hp]
      simp
    | codeWait =>
      rw [resume_codeWait fl s x hp]
      have h1 := releaseAll_grow s x D (s.jobs x).held s hD
      have h2 := codeTail_grow (St.releaseAll s x (s.jobs x).held) x
      have := h1.1; have := h2.1
      have hm : (s.jobs x).held.length * D ≤ H * D := Nat.mul_le_mul_right D (by omega)
      omega
    | doneHandler =>
      rw [resume_doneHandler fl s x hp]
      have := (doneStep_grow s x).1
      have := hJ x
      omega
    | none => rw [resume_other fl s x (by simp [hp, pcKind])]; omega
    | created => rw [resume_other fl s x (by simp [hp, pcKind])]; omega
    | evtWait => rw [resume_other fl s x (by simp [hp, pcKind])]; omega
    | finished r => rw [resume_other fl s x (by simp [hp, pcKind])]; omega

end XpmVerif.RestartAbs
