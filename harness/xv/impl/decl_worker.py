"""Worker: one real class per declaration form; reports the flags of the resulting `Argument` or that the class definition is
rejected (C02, declarations: the forms the generated libraries do not contain — `field(default=…)`, `field()`, a constant
without value, a path generator with a default, `Optional` Meta/Option/Constant …).

usage: python -m xv.impl.decl_worker <in.json> <out.json>
in:  {"pkg": str, "decls": [{"name", "decl", "ty", "optional", "attr": None|"value"|"fieldValue"|"fieldFactory"|"fieldEmpty"}]}
out: {"line": driver line {"op": "flags", …}, "impl": {"flags": [[flags | "rejected"] per class]}, "sources": [str]}"""
import importlib
import json
import shutil
import sys
import tempfile
from pathlib import Path

LIT = {"int": "3", "str": "'d'", "path": "Path('p.txt')", "float": "1.5", "bool": "True"}
TY = {"int": "int", "str": "str", "path": "Path", "float": "float", "bool": "bool"}


def decl_source(i, pkg, d):
    t = TY[d["ty"]]
    if d["optional"]:
        t = f"Optional[{t}]"
    if d["decl"] == "pathgen":
        ann = f"Annotated[{t}, pathgenerator('o.txt')]"
    else:
        ann = {"param": "Param", "meta": "Meta", "option": "Option", "constant": "Constant"}[d["decl"]] + f"[{t}]"
    lit = LIT[d["ty"]]
    rhs = {None: "", "value": f" = {lit}", "fieldValue": f" = field(default={lit})", "fieldFactory": f" = field(default_factory=lambda: {lit})",
           "fieldEmpty": " = field()"}[d["attr"]]
    return f"class D{i}(Config):\n    __xpmid__ = '{pkg}.d{i}'\n    {d['name']}: {ann}{rhs}\n"


VALS = {"int": ("1", "2"), "str": ("'a'", "'b'"), "path": ("Path('a')", "Path('b')")}


def neutral_pairs(d, accepted_flags):
    """the documented signature-neutral variations that apply to this declaration form (C02, on the declaration as written —
    not on the flags): list of (rule, [constructor keyword source, …]) whose instances must all have the same identifier;
    "seal" = the identifier is requested again after sealing"""
    if d["decl"] == "constant":
        return []
    v1, v2 = VALS[d["ty"]]
    has_default = d["attr"] in ("value", "fieldValue")
    generated = d["decl"] == "pathgen" or d["attr"] == "fieldFactory"
    out = []
    if generated:
        return [("generated", ["", "seal"])]
    if d["decl"] in ("meta", "option"):
        out.append(("meta-option-value", [f"x={v1}", f"x={v2}"]))
    elif d["ty"] == "path":
        out.append(("path-value", [f"x={v1}", f"x={v2}"]))
    if has_default:
        out.append(("explicit-default", ["", f"x={LIT[d['ty']]}"]))
    if d["optional"] and d["attr"] is None:
        out.append(("unset-optional", ["", "x=None"]))
    return out


def run_monitor(mod, i, d):
    from .cfgbuild import SealContext
    res = []
    for rule, variants in neutral_pairs(d, None):
        ids = []
        try:
            o = None
            for kw in variants:
                if kw == "seal":
                    o.__xpm__.seal(SealContext.get())
                else:
                    o = eval(f"mod.D{i}({kw})", {"mod": mod, "Path": Path})
                ids.append(o.__xpm__.full_identifier.all.hex())
            res.append({"rule": rule, "variants": variants, "ids": ids})
        except Exception as e:
            res.append({"rule": rule, "variants": variants, "ids": ids, "error": f"{type(e).__name__}: {e}"[:200]})
    return res


def main():
    from . import cfgbuild
    data = json.loads(Path(sys.argv[1]).read_text())
    root = Path(tempfile.mkdtemp(prefix="xvdecl-"))
    try:
        pkg = data["pkg"]
        (root / pkg).mkdir()
        srcs = [decl_source(i, pkg, d) for i, d in enumerate(data["decls"])]
        (root / pkg / "__init__.py").write_text(
            "from pathlib import Path\nfrom typing import Optional, Annotated\n"
            "from experimaestro import Config, Param, Meta, Option, Constant, pathgenerator, field\n\n" + "\n".join(srcs))
        sys.path.insert(0, str(root))
        mod = importlib.import_module(pkg)
        classes, impl, monitors = [], [], []
        for i, d in enumerate(data["decls"]):
            spec = {"name": d["name"], "decl": d["decl"], "ty": d["ty"], "optional": d["optional"]}
            if d["attr"] in ("fieldFactory", "fieldEmpty"):
                spec["attr"] = d["attr"]
            elif d["attr"] is not None:
                spec["default"] = 0
                spec["field"] = d["attr"] == "fieldValue"
            classes.append({"cls": f"D{i}", "decls": [cfgbuild.decl_json(spec, {"i": "0"})]})
            try:
                a = getattr(mod, f"D{i}").__getxpmtype__().arguments[d["name"]]
                impl.append([cfgbuild.real_flags(a)])
                monitors.append(run_monitor(mod, i, d))
            except (Exception, AssertionError) as e:
                impl.append(["rejected"])
                monitors.append([])
        out = {"line": {"op": "flags", "classes": classes}, "impl": {"flags": impl}, "sources": srcs, "monitors": monitors}
    finally:
        shutil.rmtree(root, ignore_errors=True)
    Path(sys.argv[2]).write_text(json.dumps(out))


if __name__ == "__main__":
    main()
