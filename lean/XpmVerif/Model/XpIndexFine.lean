import XpmVerif.Model.XpIndex
import XpmVerif.Model.XpIndexEff
import XpmVerif.Generated.XpIndexSrc
/-! M7-fine — the job index at the granularity of single file operations.

Every process runs *programs*: lists of atomic effects.  The three programs are not written here: they are
the sequences `Gen.enterSeq`, `Gen.exitSeq`, `Gen.linkSeq` that `harness/xv/translate/xpindexsrc.py` reads off
`experiment.__enter__`, `experiment.__exit__` and the link step of `Scheduler.aio_submit`, restricted to the
statements the run mode (and, for `__exit__`, the presence of an exception) lets through (`XpEff.select`).
One `tick p n` = process `p` performs the next atomic step of its program: one statement, or — for the two
loops — one iteration (`rotate`: one link of `jobs` handled, `dropBak` = `rmtree`: one link of `jobs.bak`
removed, the directory itself last); `n` names the link the directory scan delivers (any order).
Between any two ticks of a process any operation of another process, or the death of the process (`die`), or
an exception inside `__enter__` (`enterRaises`: `__exit__` is *not* called, the lock object stays with the
process), can happen.  Run modes: `start p m` with `m` = normal / generate-only / dry-run. -/
namespace XpmVerif.XpFine
open XpmVerif.XpIndex (Entry Link Proc names hasName unlock)
open XpmVerif.XpEff

inductive Kind where
  | idle | entering | stuck | inside | linking | exiting
deriving DecidableEq, Repr

/-- control state of one process -/
structure PSt where
  kind : Kind := .idle
  mode : Mode := .normal
  /-- an exception escaped the block (meaningful while `exiting`) -/
  exc : Bool := false
  /-- the process owns the `fcntl` lock (set by `takeLock`, cleared by `releaseLock`) -/
  lk : Bool := false
  /-- the job being linked (meaningful while `linking`) -/
  l : Link := 0
  /-- what is left of the program in progress -/
  todo : List Eff := []
deriving DecidableEq, Repr

structure St where
  jobs : List Entry
  bak : Option (List Entry)
  lock : Option Proc
  ph : Proc → PSt
  /-- ghost: links created (`symlink_to`) by the run that took the lock last -/
  cur : List Link

def init : St := { jobs := [], bak := none, lock := none, ph := fun _ => {}, cur := [] }

def enterProg (m : Mode) : List Eff := select Gen.enterSeq m false
def exitProg (m : Mode) (exc : Bool) : List Eff := select Gen.exitSeq m exc
def linkProg : List Eff := select Gen.linkSeq .normal false

def upd (f : Proc → PSt) (p : Proc) (v : PSt) : Proc → PSt := fun q => if q = p then v else f q

/-- lock ownership after an effect -/
def lkAfter (lk : Bool) : Eff → Bool
  | .takeLock => true
  | .releaseLock => false
  | _ => lk

/-- a program whose end is reached hands over to the next phase -/
def PSt.settle (ps : PSt) : PSt :=
  if ps.todo = [] then
    match ps.kind with
    | .entering => { ps with kind := .inside }
    | .linking => { ps with kind := .inside }
    | .exiting => if ps.lk then { ps with kind := .stuck } else {}
    | _ => ps
  else ps

/-- the process-local part of a tick (`adv` = the step is over: the lock was free / the loop is exhausted) -/
def PSt.next (ps : PSt) (adv : Bool) : PSt :=
  match ps.todo with
  | [] => ps
  | e :: rest => if adv then ({ ps with lk := lkAfter ps.lk e, todo := rest }).settle else ps

/-- the link the scan delivers: the one named `n` if there is one, else the first -/
def pick (es : List Entry) (n : Link) : Option Entry :=
  match es.find? (fun e => e.name == n) with
  | some e => some e
  | none => es.head?

def act (a : Act) (jobs bak : List Entry) (e : Entry) : List Entry × List Entry :=
  match a with
  | .skip => (jobs, bak)
  | .unlink => (jobs.filter (fun x => x.name != e.name), bak)
  | .rename => (jobs.filter (fun x => x.name != e.name), bak.filter (fun x => x.name != e.name) ++ [e])

/-- file-system part of one atomic step: new `jobs`, `jobs.bak`, ghost `cur`, and whether the statement is over -/
def fsEff (jobs : List Entry) (bak : Option (List Entry)) (cur : List Link) (l n : Link) :
    Eff → List Entry × Option (List Entry) × List Link × Bool
  | .mkBak => (jobs, some (bak.getD []), cur, true)
  | .rotate d f _ =>
    match pick jobs n with
    | none => (jobs, bak, cur, true)
    | some e =>
      let r := act (if hasName (bak.getD []) e.name then d else f) jobs (bak.getD []) e
      (r.1, some r.2, cur, false)
  | .dropBak =>
    match bak with
    | none => (jobs, none, cur, true)
    | some [] => (jobs, none, cur, true)
    | some (x :: xs) =>
      let e := (pick (x :: xs) n).getD x
      (jobs, some ((x :: xs).filter (fun y => y.name != e.name)), cur, false)
  | .unlinkIf t => (if t.onLink then jobs.filter (fun x => x.name != l) else jobs, bak, cur, true)
  | .symlinkIf t =>
    if hasName jobs l then (jobs, bak, cur, true)   -- test false, or `FileExistsError`
    else if t.onAbsent then ({ name := l, target := l } :: jobs, bak, l :: cur, true)
    else (jobs, bak, cur, true)
  | _ => (jobs, bak, cur, true)

def tick (s : St) (p : Proc) (n : Link) : St :=
  match (s.ph p).todo with
  | [] => s
  | e :: _ =>
    if e = .takeLock then
      if s.lock.isSome then s   -- the lock is polled until it is free
      else { s with lock := some p, ph := upd s.ph p ((s.ph p).next true),
                    cur := if (s.ph p).mode = .normal then [] else s.cur }
    else if e = .releaseLock then
      { s with lock := unlock s.lock p, ph := upd s.ph p ((s.ph p).next true) }
    else
      let r := fsEff s.jobs s.bak s.cur (s.ph p).l n e
      { s with jobs := r.1, bak := r.2.1, cur := r.2.2.1, ph := upd s.ph p ((s.ph p).next r.2.2.2) }

inductive Op where
  /-- `p` calls `__enter__` of an experiment object in run mode `m` -/
  | start (p : Proc) (m : Mode)
  /-- `p` performs the next atomic step of its program -/
  | tick (p : Proc) (n : Link)
  /-- an exception leaves `__enter__` between two statements: no `__exit__`, the lock (if taken) stays -/
  | enterRaises (p : Proc)
  /-- `p`, inside the block of a normal run, begins the link step of `aio_submit` for job `l` -/
  | submit (p : Proc) (l : Link)
  /-- the block of `p` ends (`exc` = an exception escaped it): `__exit__` begins -/
  | endBlock (p : Proc) (exc : Bool)
  /-- `p` dies, anywhere: the operating system drops its lock, files stay -/
  | die (p : Proc)

def Op.proc : Op → Proc
  | .start p _ | .tick p _ | .enterRaises p | .submit p _ | .endBlock p _ | .die p => p

def step (s : St) : Op → St
  | .start p m =>
    if (s.ph p).kind = .idle then
      { s with ph := upd s.ph p ({ s.ph p with kind := .entering, mode := m, todo := enterProg m }).settle }
    else s
  | .tick p n => tick s p n
  | .enterRaises p =>
    if (s.ph p).kind = .entering then
      { s with ph := upd s.ph p (if (s.ph p).lk then { s.ph p with kind := .stuck, todo := [] } else {}) }
    else s
  | .submit p l =>
    if (s.ph p).kind = .inside ∧ (s.ph p).mode = .normal then
      { s with ph := upd s.ph p ({ s.ph p with kind := .linking, l := l, todo := linkProg }).settle }
    else s
  | .endBlock p exc =>
    if (s.ph p).kind = .inside then
      let ps : PSt := { s.ph p with kind := .exiting, exc := exc, todo := exitProg (s.ph p).mode exc }
      { s with ph := upd s.ph p ps.settle }
    else s
  | .die p => { s with lock := unlock s.lock p, ph := upd s.ph p {} }

def run (ops : List Op) (s : St) : St := ops.foldl step s

/-- names linked in `jobs` or `jobs.bak` -/
def idxNames (s : St) : List Link := names s.jobs ++ names (s.bak.getD [])

/-- every write of a program happens while the process owns the lock -/
def guarded : Bool → List Eff → Bool
  | _, [] => true
  | lk, e :: r => (lk || !e.writes) && guarded (lkAfter lk e) r

def finalLk (lk : Bool) (t : List Eff) : Bool := t.foldl lkAfter lk

/-- which effects the model accepts in which program (the proofs need nothing else about the programs) -/
def allowed (k : Kind) (m : Mode) (exc : Bool) : Eff → Bool
  | .takeLock => k == .entering
  | .mkBak => k == .entering && m == .normal
  | .rotate d f _ => k == .entering && m == .normal && d == .unlink && f == .rename
  | .dropBak => k == .exiting && m == .normal && !exc
  | .unlinkIf t => k == .linking && m == .normal && t == .isSymlink
  | .symlinkIf t => k == .linking && m == .normal && t == .always
  | .unlinkLockFile => false
  | _ => true

/-- a whole statement as one step (the loops run to their end): the coarse reading of an effect, on the
    state of the coarse model `XpIndex` -/
def wholeEff (p : Proc) (s : XpIndex.St) : Eff → XpIndex.St
  | .takeLock => { s with lock := some p, inside := p :: s.inside, cur := [] }
  | .mkBak => { s with bak := some (XpIndex.bakList s) }
  | .rotate .unlink .rename _ => { s with bak := some (XpIndex.moveAll (XpIndex.bakList s) s.jobs), jobs := [] }
  | .dropBak => { s with bak := none }
  | .releaseLock => { s with lock := unlock s.lock p }
  | _ => s

end XpmVerif.XpFine
