"""Build real experimaestro objects from the specs of xv.gen.cfggen, and describe the
real objects' state as the JSON the Lean driver reads (Drive/Ident.lean)."""
import importlib
import struct
import sys
from enum import Enum
from pathlib import Path


def load_library(lib, root: Path, extra_body=None):
    from ..gen import cfggen
    d = root / lib["pkg"]
    d.mkdir(parents=True, exist_ok=True)
    (d / "__init__.py").write_text(cfggen.emit_source(lib, extra_body))
    if str(root) not in sys.path:
        sys.path.insert(0, str(root))
    importlib.invalidate_caches()
    return importlib.import_module(lib["pkg"])


def real_val(mod, v, objs, deferred=None):
    """spec value -> python value; references to not-yet-built nodes raise KeyError"""
    if v is None or isinstance(v, (bool, int, str)):
        return v
    if "f" in v:
        return struct.unpack("!d", bytes.fromhex(v["f"]))[0]
    if "e" in v:
        return getattr(getattr(mod, v["e"][0]), v["e"][1])
    if "p" in v:
        return Path(v["p"])
    if "l" in v:
        return [real_val(mod, x, objs) for x in v["l"]]
    if "d" in v:
        return {k: real_val(mod, x, objs) for k, x in v["d"]}
    if "r" in v:
        return objs[v["r"]]
    raise ValueError(v)


def refs_of(v):
    if isinstance(v, dict):
        if "r" in v:
            return [v["r"]]
        if "l" in v:
            return [r for x in v["l"] for r in refs_of(x)]
        if "d" in v:
            return [r for _, x in v["d"] for r in refs_of(x)]
    return []


def build_graph(mod, g, order=None):
    """construct every node with the real constructors (keyword order as listed); values that
    mention nodes not built yet are assigned afterwards (this is how cycles are made)"""
    from experimaestro import setmeta
    nodes = g["nodes"]
    objs = {}
    later = []
    for i, nd in enumerate(nodes):
        kwargs = {}
        for name, v in nd["values"]:
            if all(r in objs for r in refs_of(v)):
                kwargs[name] = real_val(mod, v, objs)
            else:
                later.append((i, name, v))
        objs[i] = getattr(mod, nd["cls"])(**kwargs)
        if str(i) in (g.get("loaded") or {}):
            if nd["meta"] is not None:
                # the flag is set before the round trip: it must come back with the configuration
                setmeta(objs[i], nd["meta"])
            objs[i] = reload_config(objs[i], g["loaded"][str(i)])
        if str(i) in (g.get("constset") or {}):
            cs = g["constset"][str(i)]
            objs[i] = hold_constants(objs[i], cs["via"], {k: real_val(mod, v, objs) for k, v in cs["vals"]})
    for i, name, v in later:
        setattr(objs[i], name, real_val(mod, v, objs))
    for m in g.get("inplace") or []:
        # in-place modification of what a parameter holds (e.g. of the configuration the constructor put there for a
        # parameter that was not given): `cfg.<arg>[<idx>].<name> = v`
        tgt = getattr(objs[m["n"]], m["arg"])
        if m.get("idx") is not None:
            tgt = tgt[m["idx"]]
        setattr(tgt, m["name"], real_val(mod, m["v"], objs))
    for i, nd in enumerate(nodes):
        if nd["meta"] is not None and str(i) not in (g.get("loaded") or {}):
            setmeta(objs[i], nd["meta"])
        if nd["pre"]:
            objs[i].add_pretasks(*[objs[p] for p in nd["pre"]])
        if nd["init"]:
            objs[i].__xpm__.init_tasks = [objs[p] for p in nd["init"]]
        if nd["task"] is not None:
            objs[i].__xpm__.task = objs[nd["task"]]
        for k, v in nd.get("tags", []):
            objs[i].tag(k, v)
        if nd.get("deps"):
            from experimaestro.tokens import ProcessCounterToken
            tok = ProcessCounterToken(4)
            for _ in range(nd["deps"]):
                objs[i].add_dependencies(tok.dependency(1))
    return [objs[i] for i in range(len(nodes))]


def reload_config(o, via):
    """the same configuration after a round trip through the public save / load API (what `load()` returns is then
    used as a parameter value like any other configuration)"""
    from experimaestro.core import serialization
    from experimaestro.core.context import SerializationContext
    if via == "copy":
        return o.copy()
    if via == "copyconfig":
        from experimaestro import copyconfig
        try:
            return copyconfig(o)
        except KeyError:
            # copyconfig needs every declared parameter to have a value (it lists them all): an incomplete
            # configuration is copied with .copy() instead
            return o.copy()
    if via == "state":
        return serialization.from_state_dict(serialization.state_dict(SerializationContext(), o))
    import tempfile
    import shutil
    d = Path(tempfile.mkdtemp(prefix="xvreload-"))
    try:
        serialization.save(o, d)
        return serialization.load(d)
    finally:
        shutil.rmtree(d, ignore_errors=True)


def hold_constants(o, via, vals):
    """the same configuration holding *other* values for its `Constant` parameters than its class declares: what loading a file
    written under an earlier version of the class returns (`via="state"`: the saved value is restored as it was written) and what
    `copyconfig(cfg, name=v)` builds"""
    from experimaestro.core import serialization
    from experimaestro.core.context import SerializationContext
    if via == "copyconfig":
        from experimaestro import copyconfig
        try:
            return copyconfig(o, **vals)
        except KeyError:
            pass
    sd = serialization.state_dict(SerializationContext(), o)
    root = sd["data"]["value"]
    for d in sd["objects"]:
        if d["id"] == root:
            d["fields"].update(vals)
    return serialization.from_state_dict(sd)


def hx(s: str) -> str:
    return s.encode("utf-8").hex()


def model_val(v, index):
    """python value (as stored by the real object) -> driver JSON"""
    from experimaestro import Config
    if v is None:
        return None
    if isinstance(v, bool):
        return {"b": v}
    if isinstance(v, float):
        return {"f": struct.pack("!d", v).hex()}
    if isinstance(v, int):
        return {"i": str(v)}
    if isinstance(v, str):
        return {"s": hx(v)}
    if isinstance(v, Enum):
        k = v.__class__
        return {"e": hx(f"{k.__module__}.{k.__qualname__}:{v.name}")}
    if isinstance(v, Path):
        return {"p": hx(str(v))}
    if isinstance(v, list):
        return {"l": [model_val(x, index) for x in v]}
    if isinstance(v, dict):
        return {"d": [[hx(k), model_val(x, index)] for k, x in v.items()]}
    if isinstance(v, Config):
        return {"r": index[id(v)]}
    raise ValueError(f"unsupported value {type(v)}")


def closure(objs):
    """`objs` followed by every configuration object they reach that the caller did not list: the class-level default
    objects of configuration-valued defaults (`x: Param[C] = C(a=1)`), the clones the constructor made of them for
    parameters that were not given, and whatever else the code under test put into the graph"""
    from experimaestro import Config
    objs = list(objs)
    index = {id(o): i for i, o in enumerate(objs)}

    def visit(v):
        if isinstance(v, Config):
            if id(v) not in index:
                index[id(v)] = len(objs)
                objs.append(v)
        elif isinstance(v, (list, tuple, set)):
            for x in v:
                visit(x)
        elif isinstance(v, dict):
            for x in v.values():
                visit(x)

    k = 0
    while k < len(objs):
        o = objs[k]
        k += 1
        x = o.__xpm__
        for name, a in o.__xpmtype__.arguments.items():
            visit(x.values.get(name))
            visit(a.default)
        for p in list(x.pre_tasks) + list(x.init_tasks):
            visit(p)
        if x.task is not None:
            visit(x.task)
    return objs


def ty_tag(ty):
    """head of a cfggen type = the class of core/types.py that `Type.fromType` returns (Model/ArgDeclBase.lean `TyTag`)"""
    if isinstance(ty, str):
        return ty
    return next(k for k in ("enum", "cfg", "list", "dict") if k in ty)


def decl_json(spec, default_val=None):
    """the declaration of cfggen's ArgSpec as the Lean driver reads it (Drive/Ident.lean `declOf`); `default_val` = the
    declared default as a model value"""
    if spec.get("attr") in ("fieldFactory", "fieldEmpty"):
        attr = spec["attr"]
    elif "default" in spec:
        attr = {("fieldValue" if spec.get("field") else "value"): default_val}
    else:
        attr = None
    return {"name": hx(spec["name"]), "kind": spec["decl"], "ty": ty_tag(spec["ty"]), "optional": bool(spec["optional"]), "attr": attr}


def real_flags(a):
    """what the identifier computation reads of an `Argument`"""
    return {"ignored": bool(a.ignored), "generator": a.generator is not None, "constant": bool(a.constant),
            "required": bool(a.required), "hasDefault": a.default is not None}


def class_specs(lib):
    from ..gen import cfggen
    return {c["name"]: {a["name"]: a for a in cfggen.all_args(lib, c["name"])} for c in lib["classes"]}


def class_table(mod, lib):
    """the class table of the library as the model reads it (Model/ClassTable.lean): bases in `__bases__` order, Python's MRO
    (taken from the real classes: the linearisation is Python's, not the code under test's), the declarations of each class body"""
    names = [c["name"] for c in lib["classes"]]
    idx = {n: i for i, n in enumerate(names)}
    table = []
    for c in lib["classes"]:
        k = getattr(mod, c["name"])
        table.append({"bases": [idx[b.__name__] for b in k.__bases__ if b.__name__ in idx and getattr(b, "__module__", None) == lib["pkg"]],
                      "mro": [idx[b.__name__] for b in k.__mro__[1:] if b.__name__ in idx and getattr(b, "__module__", None) == lib["pkg"]],
                      "own": [decl_json(a, None if "default" not in a else {"i": "0"}) for a in c["args"]]})
    return table, idx


def library_flags(mod, lib):
    """driver line + real outcome comparing, for every class of the library and every parameter name it has, the flags the
    model derives — resolution of the declaration in force through the bases included — with those of the real `Argument`"""
    from ..gen import cfggen
    table, idx = class_table(mod, lib)
    classes, impl = [], []
    for c in lib["classes"]:
        real = getattr(mod, c["name"]).__getxpmtype__().arguments
        names = list(dict.fromkeys(list(cfggen.arg_names(lib, c["name"])) + list(real.keys())))
        classes.append({"cls": c["name"], "idx": idx[c["name"]], "names": [hx(n) for n in names], "bases": len(table[idx[c["name"]]]["bases"])})
        impl.append([real_flags(real[n]) if n in real else "missing" for n in names])
    return {"line": {"op": "flags", "table": table, "classes": classes}, "impl": {"flags": impl}}


def model_graph(objs, closed=True, lib=None, stats=None, table_idx=None):
    """the state of the real objects, as the Lean model's input (nodes beyond len(objs): see `closure`).
    With `lib` (the cfggen library the classes were generated from) every argument is sent as its *declaration* and the
    model derives the flags itself (`ArgDecl.mkArg`); classes / declaration forms the library does not describe are sent with
    the flags of the real `Argument` object (counted in `stats`)."""
    if closed:
        objs = closure(objs)
    index = {id(o): i for i, o in enumerate(objs)}
    specs = class_specs(lib) if lib is not None else {}
    nodes = []
    tokens = {}
    for o in objs:
        x = o.__xpm__
        args = []
        base = o.__xpmtype__.basetype
        cspec = specs.get(base.__name__) if getattr(base, "__module__", None) == (lib or {}).get("pkg") else None
        for name, a in o.__xpmtype__.arguments.items():
            spec = cspec.get(name) if cspec else None
            if spec is not None and table_idx is not None and base.__name__ in table_idx:
                # (class, name): the model resolves the declaration in force through the class table (`lib` line) itself
                if stats is not None:
                    stats["flags:class-table"] = stats.get("flags:class-table", 0) + 1
                args.append({"cls": table_idx[base.__name__], "name": hx(name), "dv": model_val(a.default, index),
                             "value": model_val(x.values.get(name), index)})
                continue
            if spec is not None and not (("default" in spec) and a.default is None):
                if stats is not None:
                    stats["flags:declaration"] = stats.get("flags:declaration", 0) + 1
                args.append({"decl": decl_json(spec, model_val(a.default, index)), "value": model_val(x.values.get(name), index)})
                continue
            if stats is not None:
                stats["flags:real-object"] = stats.get("flags:real-object", 0) + 1
            args.append({
                "name": hx(name), "ignored": bool(a.ignored), "generator": a.generator is not None,
                "constant": bool(a.constant), "required": bool(a.required),
                "default": model_val(a.default, index),
                "value": model_val(x.values.get(name), index),
            })
        nodes.append({
            "typeId": hx(o.__xpmtype__.identifier.name), "args": args,
            "task": None if x.task is None else index[id(x.task)],
            "meta": x.meta, "sealed": bool(x._sealed),
            "pre": [index[id(p)] for p in x.pre_tasks], "init": [index[id(p)] for p in x.init_tasks],
            # the non-signature inputs (Model/IdentEnv.lean `XNode`): tags, dependencies added by the user
            "tags": [[hx(str(k)), model_val(v, index)] for k, v in getattr(x, "_tags", {}).items()],
            "deps": [dep_json(d, index, tokens) for d in getattr(x, "dependencies", [])],
        })
        if stats is not None and (nodes[-1]["tags"] or nodes[-1]["deps"]):
            stats["extra:tags"] = stats.get("extra:tags", 0) + len(nodes[-1]["tags"])
            stats["extra:dependencies"] = stats.get("extra:dependencies", 0) + len(nodes[-1]["deps"])
    return nodes


def dep_json(d, index, tokens):
    """a dependency added with `add_dependencies` (Model/IdentEnv.lean `ExtraDep`)"""
    tok = getattr(d, "_token", None)
    if tok is not None:
        return {"token": tokens.setdefault(id(tok), len(tokens)), "count": int(getattr(d, "count", 0))}
    cfg = getattr(getattr(d, "origin", None), "config", None)
    return {"job": index.get(id(cfg), 0)}


class SealContext:
    """a ConfigWalkContext with a fixed job path (generated paths are not part of any identifier)"""
    _ctx = None

    @classmethod
    def get(cls):
        from experimaestro.core.objects import ConfigWalkContext

        class Ctx(ConfigWalkContext):
            @property
            def path(self):
                return Path("/xv-job")

        return Ctx()


class FailingContext:
    """a ConfigWalkContext whose job path is unavailable: every path generator raises (a seal that fails half-way)"""

    @classmethod
    def get(cls):
        from experimaestro.core.objects import ConfigWalkContext

        class Ctx(ConfigWalkContext):
            @property
            def path(self):
                raise RuntimeError("xv: no job path in this context")

        return Ctx()


def run_op(objs, mod, op):
    """executes one operation on the real objects; canonical outcome"""
    from experimaestro import setmeta
    from experimaestro.core.objects import SealedError
    o = objs[op["n"]]
    k = op["op"]
    try:
        if k == "seal":
            o.__xpm__.seal(SealContext.get())
            return {"ok": True}
        if k == "failseal":
            try:
                o.__xpm__.seal(FailingContext.get())
                return {"ok": True, "raised": False}
            except RuntimeError as e:
                if "xv: no job path" in str(e):
                    return {"ok": True, "raised": True}
                raise
        if k == "raw":
            return {"id": o.__xpm__.raw_identifier.all.hex()}
        if k == "full":
            return {"id": o.__xpm__.full_identifier.all.hex()}
        if k == "set":
            val = real_val(mod, op["spec"], {i: x for i, x in enumerate(objs)})
            how = op.get("how", "setattr")  # the syntactic ways to assign a parameter through the public object
            if how == "xset":
                o.__xpm__.set(op["pyname"], val)
            elif how == "aug" and type(val) is int and type(getattr(o, op["pyname"], None)) is int:
                exec(f"o.{op['pyname']} += d", {"o": o, "d": val - getattr(o, op["pyname"])})  # augmented assignment = get + set
            else:
                setattr(o, op["pyname"], val)
            return {"ok": True}
        if k == "del":  # `del cfg.name`: rejected whatever the exception
            try:
                delattr(o, op["pyname"])
            except Exception as e:
                return {"err": "rejected", "exc": type(e).__name__}
            return {"ok": True}
        if k == "xbypass":  # internal API (reachable through `__xpm__` only): observation, not part of the oracle
            try:
                o.__xpm__.set(op["pyname"], real_val(mod, op["spec"], {i: x for i, x in enumerate(objs)}), bypass=True)
            except Exception as e:
                return {"err": "rejected", "exc": type(e).__name__}
            return {"ok": True}
        if k == "setmeta":
            setmeta(o, op["b"])
            return {"ok": True}
        if k == "addpre":
            if op.get("via") == "from":
                # the second public entry point: copy the pre-tasks of a donor configuration
                donor = _donor_class()()
                donor.add_pretasks(objs[op["p"]])
                o.add_pretasks_from(donor)
            else:
                o.add_pretasks(objs[op["p"]])
            return {"ok": True}
    except SealedError:
        return {"err": "sealed"}
    except AttributeError as e:
        if "read-only" in str(e):
            return {"err": "sealed"}
        raise
    except AssertionError as e:
        if "sealed" in str(e):
            return {"err": "sealed"}
        raise
    raise ValueError(k)


_DONOR = []


def _donor_class():
    """a parameterless configuration class used as the donor of `add_pretasks_from`"""
    if not _DONOR:
        from experimaestro import Config

        class XvDonor(Config):
            __xpmid__ = "xv.harness.donor"
        _DONOR.append(XvDonor)
    return _DONOR[0]
