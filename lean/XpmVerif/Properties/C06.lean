import XpmVerif.Model.Sched
import XpmVerif.Generated.SchedFlags
import XpmVerif.Proofs.SchedFinal
import XpmVerif.Proofs.SchedLive
import XpmVerif.Proofs.SchedTerm
/-! C06 — "Every job reaches a truthful, stable final state and the experiment exits" (safety part).

    All theorems are about the scheduler model `Model/Sched.lean` (tied to the Python code by the
    event-by-event check) and hold in EVERY state reachable from `St.init totals` by ANY list of
    well-formed events (`SchedFinal.Reachable`: any workload, any schedule, any token table, no bound).
    Each theorem names the repair flags it needs; `scheduler_flags` says the source has all three. -/
namespace XpmVerif.C06
open XpmVerif.Sched hiding Reachable flOK submitPre submitPost sumTo
open XpmVerif.SchedFinal

/-- obligation on the current source: the four scheduler repairs are present. -/
theorem scheduler_flags : Gen.schedFlags =
    { readyGuarded := true, resubmitRegisters := true, abortRechecks := true, abortReleases := true } := by decide

/-- "reaches a … final state": the value `r` a job coroutine returns is DONE or ERROR, and it is the state the
    job record shows.  Needs `readyGuarded` only. -/
theorem final_is_done_or_error {fl : Flags} (hg : fl.readyGuarded = true) {totals : List Nat} {s : St}
    (h : Reachable fl totals s) (j : Nat) (r : JS) (hp : (s.jobs j).pc = .finished r) :
    (r = .done ∨ r = .error) ∧ (s.jobs j).state = r :=
  jlocal_final ((reachable_invA hg h).loc j) hp

/-- "stable": once the coroutine of job `j` returned `r`, then after ANY further list of events (well-formed or
    not) it still shows `finished r` and the record state is still `r`.  Needs `readyGuarded` only. -/
theorem final_stable {fl : Flags} (hg : fl.readyGuarded = true) {totals : List Nat} {s : St}
    (h : Reachable fl totals s) (j : Nat) (r : JS) (hp : (s.jobs j).pc = .finished r) (evs : List Ev) :
    ((evs.foldl (St.apply fl) s).jobs j).pc = .finished r ∧ ((evs.foldl (St.apply fl) s).jobs j).state = r := by
  have hs := stable_foldl fl hg j r evs s (reachable_invA hg h) hp
  exact ⟨hs.2, (jlocal_final (hs.1.loc j) hs.2).2⟩

/-- `final_stable` is false without `readyGuarded` (finding F3): job 1 has a success marker and depends on job 0;
    it returns DONE, and when job 0 finishes its record goes back to READY. -/
theorem final_unstable_without_readyGuarded :
    let fl : Flags := { readyGuarded := false, resubmitRegisters := true, abortRechecks := true, abortReleases := true }
    let evs : List Ev := [.submit 10 [] 0 false, .submit 11 [.job 0] 0 true, .step, .step, .deliver 1, .step,
      .deliver 0, .step, .deliver 0, .step, .deliver 0, .step, .deliver 0, .step, .step]
    (((evs.take 6).foldl (St.apply fl) (St.init [])).jobs 1).pc = .finished .done ∧
    ((evs.foldl (St.apply fl) (St.init [])).jobs 1).pc = .finished .done ∧
    ((evs.foldl (St.apply fl) (St.init [])).jobs 1).state = .ready := by decide

/-- "truthful", at most one process: a job is launched at most once.  Needs `readyGuarded`. -/
theorem launches_le_one {fl : Flags} (hg : fl.readyGuarded = true) {totals : List Nat} {s : St}
    (h : Reachable fl totals s) (j : Nat) : (s.jobs j).launches ≤ 1 :=
  ((reachable_invA hg h).loc j).2.2.2.2.1

/-- "truthful", DONE: a job ends DONE iff its success marker existed at submission or its (single) process exited
    with code 0.  Needs `readyGuarded`. -/
theorem final_truthful_done {fl : Flags} (hg : fl.readyGuarded = true) {totals : List Nat} {s : St}
    (h : Reachable fl totals s) (j : Nat) (r : JS) (hp : (s.jobs j).pc = .finished r) :
    r = .done ↔ ((s.jobs j).marker = true ∨ ((s.jobs j).launches = 1 ∧ (s.jobs j).code = 0)) :=
  jlocal_done_iff ((reachable_invA hg h).loc j) hp

/-- "truthful", ERROR: a job ends ERROR iff it had no marker and either its process exited with a non-zero code, or
    a dependency failed (`failedDep`) — and in the latter case it was never launched
    (`failed_dependency_never_launched`).  Needs `readyGuarded`. -/
theorem final_truthful_error {fl : Flags} (hg : fl.readyGuarded = true) {totals : List Nat} {s : St}
    (h : Reachable fl totals s) (j : Nat) (r : JS) (hp : (s.jobs j).pc = .finished r) :
    r = .error ↔ ((s.jobs j).marker = false ∧
      (((s.jobs j).launches = 1 ∧ (s.jobs j).code ≠ 0) ∨ (s.jobs j).failedDep = true)) := by
  rw [jlocal_error_iff ((reachable_invA hg h).loc j) hp]
  have hfl := ((reachable_invC hg h).d.recs j).failedNoLaunch
  constructor
  · rintro ⟨hm, hx | ⟨_, hf⟩⟩
    · exact ⟨hm, Or.inl hx⟩
    · exact ⟨hm, Or.inr hf⟩
  · rintro ⟨hm, hx | hf⟩
    · exact ⟨hm, Or.inl hx⟩
    · exact ⟨hm, Or.inr ⟨hfl hf, hf⟩⟩

/-- "truthful", dependency failure: a job that saw a dependency fail is never launched, at any time (not only once
    final).  Needs `readyGuarded`. -/
theorem failed_dependency_never_launched {fl : Flags} (hg : fl.readyGuarded = true) {totals : List Nat} {s : St}
    (h : Reachable fl totals s) (j : Nat) (hf : (s.jobs j).failedDep = true) : (s.jobs j).launches = 0 :=
  ((reachable_invC hg h).d.recs j).failedNoLaunch hf

/-- `failedDep` is truthful: it is set only if some job dependency is recorded as failed, and a dependency is
    recorded as failed (resp. OK) only if its origin job shows ERROR (resp. DONE).  Needs `readyGuarded`. -/
theorem failedDep_truthful {fl : Flags} (hg : fl.readyGuarded = true) {totals : List Nat} {s : St}
    (h : Reachable fl totals s) (j : Nat) (hf : (s.jobs j).failedDep = true) :
    ∃ i o, i < (s.jobs j).deps.length ∧ (depAt (s.jobs j) i).origin = .job o ∧ o < j ∧
      (depAt (s.jobs j) i).cur = .fail ∧ (s.jobs o).state = .error := by
  have hC := reachable_invC hg h
  obtain ⟨i, hi, hc⟩ := (hC.d.recs j).failedWit hf
  cases hj : isJobO (depAt (s.jobs j) i).origin
  · exact absurd hc ((hC.d.recs j).tokNoFail i hi hj)
  · obtain ⟨o, ho⟩ := isJobO_job hj
    exact ⟨i, o, hi, ho, hC.st.acyclic j i o hi ho, hc, (hC.d.truth j i o hi ho).2 hc⟩

/-- invariant A (`counter_sound`): for a job whose coroutine has started, `unsatisfied` is the number of dependencies
    whose recorded status is not OK.  Needs `readyGuarded`. -/
theorem counter_sound {fl : Flags} (hg : fl.readyGuarded = true) {totals : List Nat} {s : St}
    (h : Reachable fl totals s) (j : Nat) (hs : (s.jobs j).state ≠ .unscheduled) :
    (s.jobs j).unsat = cntBad (s.jobs j).deps :=
  ((reachable_invC hg h).d.recs j).counter hs

/-- a job whose success marker existed is never launched.  Needs `readyGuarded`. -/
theorem marker_never_launched {fl : Flags} (hg : fl.readyGuarded = true) {totals : List Nat} {s : St}
    (h : Reachable fl totals s) (j : Nat) (hm : (s.jobs j).marker = true) : (s.jobs j).launches = 0 :=
  jlocal_marker ((reachable_invA hg h).loc j) hm

/-- `unfinishedJobs` is exactly the number of submitted jobs whose coroutine exists and has not returned
    (`pc` neither `none` nor `finished _`).  Needs `readyGuarded` and `resubmitRegisters`. -/
theorem unfinished_counts {fl : Flags} (hg : fl.readyGuarded = true) (hf : fl.resubmitRegisters = true)
    {totals : List Nat} {s : St} (h : Reachable fl totals s) :
    s.unfinished = (((List.range s.n).filter (fun j => pcLive (s.jobs j).pc)).length : Int) := by
  have := (reachable_invB hg hf h).count
  unfold CountC at this
  rw [this, actN_eq_filter]; simp

/-- "the experiment exits", soundness: whenever the waiter callback runs — in a reachable state or in the middle of
    a `submit` event (`MReach`) — and completes `experiment.wait()` (returned or raised), every job scheduled so
    far has returned; it raises iff `failedJobs` is non-empty; otherwise it goes back to sleep.
    Needs `readyGuarded` and `resubmitRegisters`. -/
theorem waiter_returns_only_when_all_final {fl : Flags} (hg : fl.readyGuarded = true)
    (hf : fl.resubmitRegisters = true) {totals : List Nat} {s : St} (h : MReach fl totals s) :
    (s.waiterRun.waiter = .sleeping ∧ s.unfinished ≠ 0) ∨
    (AllFinal s ∧ (s.waiterRun.waiter = .raised ↔ s.failed ≠ []) ∧ (s.waiterRun.waiter = .returned ↔ s.failed = [])) := by
  obtain ⟨_, c, hc0, hc⟩ := micro_count hg hf h
  rcases waiterRun_cases s with ⟨hu, hw⟩ | ⟨hu, hw⟩
  · right
    unfold CountC at hc
    have : actN s = 0 := by omega
    refine ⟨(actN_zero_iff s).1 this, ?_, ?_⟩ <;> rw [hw] <;> cases s.failed <;> simp
  · exact Or.inl ⟨hw, hu⟩

/-- "the experiment exits", completeness at event granularity: in a reachable state the waiter callback completes
    `wait()` iff every scheduled job has returned.  Needs `readyGuarded` and `resubmitRegisters`. -/
theorem waiter_returns_iff {fl : Flags} (hg : fl.readyGuarded = true) (hf : fl.resubmitRegisters = true)
    {totals : List Nat} {s : St} (h : Reachable fl totals s) :
    (s.waiterRun.waiter = .returned ∨ s.waiterRun.waiter = .raised) ↔ AllFinal s := by
  have hc := (reachable_invB hg hf h).count
  unfold CountC at hc
  rw [← actN_zero_iff]
  rcases waiterRun_cases s with ⟨hu, hw⟩ | ⟨hu, hw⟩
  · constructor
    · intro _; omega
    · intro _; rw [hw]; cases s.failed <;> simp
  · constructor
    · intro hx; rw [hw] at hx; rcases hx with hx | hx <;> cases hx
    · intro hx; omega

/-- `unfinished_counts` / `waiter_returns_only_when_all_final` are false without `resubmitRegisters` (finding F4):
    a failed job is re-submitted; `wait()` raises while the re-submitted job is still in `doneHandler`, and
    `unfinished` ends at −1. -/
theorem wait_returns_early_without_resubmitRegisters :
    let fl : Flags := { readyGuarded := true, resubmitRegisters := false, abortRechecks := true, abortReleases := true }
    let a : Ev := .submit 0 [] 2 false
    let b : Ev := .submit 0 [] 1 false
    let evs : List Ev := [a, .step, .deliver 0, .step, .deliver 0, .step, .deliver 0, b, .step, .deliver 1, .step,
      .deliver 0, .step, .deliver 0, .step, .deliver 0, .step, .wait, .deliver 0, .step]
    ((evs.foldl (St.apply fl) (St.init [])).waiter = .raised ∧
     ((evs.foldl (St.apply fl) (St.init [])).jobs 1).pc = .doneHandler ∧
     ((evs ++ [Ev.step]).foldl (St.apply fl) (St.init [])).unfinished = -1) := by decide

/-! ### deadlock freedom (stretch goal) and the invariants behind it -/

/-- invariant B (`waiting_has_cause`): a job asleep on its event (no wake-up queued) is WAITING and has at least one
    dependency that is not OK.  Needs `readyGuarded` and `abortRechecks`. -/
theorem waiting_has_cause {fl : Flags} (hg : fl.readyGuarded = true) (ha : fl.abortRechecks = true)
    {totals : List Nat} {s : St} (h : Reachable fl totals s) (j : Nat) (hs : (s.jobs j).sleeping = true) :
    (s.jobs j).pc = .evtWait ∧ (s.jobs j).event = false ∧ (s.jobs j).state = .waiting ∧ 0 < (s.jobs j).unsat ∧
    ∃ i, i < (s.jobs j).deps.length ∧ (depAt (s.jobs j) i).cur = .wait := by
  have hE := reachable_invE hg ha h
  have hc := hE.c.a.ctl j
  have hpc : (s.jobs j).pc = .evtWait := by
    apply pcKind_two
    have := hc.2.1
    simp only [slN, hs, if_true] at this
    by_cases e : pcKind (s.jobs j).pc = 2
    · exact e
    · simp [e] at this
  have hq := (hE.q j).1
  have hev := hq.se hs
  have hw := hq.evtClear hpc hev
  have hcnt := (hE.c.d.recs j).counter (by rw [hw]; intro e; cases e)
  have hne := hq.waitUnsat hw
  have hpos : 0 < cntBad (s.jobs j).deps := by
    have := cntBad_nonneg (s.jobs j).deps
    omega
  obtain ⟨i, hi, hci⟩ := cntBad_pos _ hpos
  refine ⟨hpc, hev, hw, by omega, i, hi, ?_⟩
  have hnf := hq.waitNoFail hw i hi
  cases hcur : (depAt (s.jobs j) i).cur
  · rfl
  · exact absurd hcur hci
  · exact absurd hcur hnf

/-- invariant G: a job holds dependency locks only between a start and the lock-release segment that follows
    (so a holder always has a helper thread or its callback pending); an aborted start holds something only on a tree
    without the `abortReleases` repair.  Needs `readyGuarded`, `abortRechecks`; either value of `abortReleases`. -/
theorem holder_has_thread {fl : Flags} (hg : fl.readyGuarded = true) (ha : fl.abortRechecks = true)
    {totals : List Nat} {s : St} (h : Reachable fl totals s) (j : Nat) (hh : (s.jobs j).held ≠ []) :
    (fl.abortReleases = false ∧ (s.jobs j).pc = .lockExitAbort) ∨ (s.jobs j).pc = .lockExitRun ∨
    (s.jobs j).pc = .codeWait :=
  ((reachable_invE hg ha h).q j).2 hh

/-- invariant G, sharpened by the `abortReleases` repair: only a launched job holds locks across a suspension. -/
theorem holder_is_launched {fl : Flags} (hg : fl.readyGuarded = true) (ha : fl.abortRechecks = true)
    (hr : fl.abortReleases = true) {totals : List Nat} {s : St} (h : Reachable fl totals s) (j : Nat)
    (hh : (s.jobs j).held ≠ []) : (s.jobs j).pc = .lockExitRun ∨ (s.jobs j).pc = .codeWait := by
  rcases holder_has_thread hg ha h j hh with ⟨e, _⟩ | e
  · rw [hr] at e; cases e
  · exact e

/-- key lemma towards termination (`abort_changes_nothing`): with `abortReleases`, a start that fails on its `d`-th lock
    leaves `avail` and every job's `held` exactly as they were, and moves the job to `lockExitAbort`.  (Needs no
    reachability; `held = []` at `lockEnter` is `holder_has_thread`.) -/
theorem aborted_start_changes_no_token_state (fl : Flags) (hr : fl.abortReleases = true) (s : St) (j d : Nat)
    (hpc : (s.jobs j).pc = .lockEnter) (hh : (s.jobs j).held = [])
    (hfail : (s.acquireAll j (s.jobs j).deps.length 0).2 = some d) :
    (s.resume fl j).avail = s.avail ∧ (∀ i, ((s.resume fl j).jobs i).held = (s.jobs i).held) ∧
    ((s.resume fl j).jobs j).pc = .lockExitAbort :=
  abort_changes_nothing fl hr s j d hpc hh hfail

/-- second key lemma towards termination: with `abortReleases`, if no other dependency of the job asks for the token it
    failed on, an aborted start records the failing dependency as WAIT (so `unsatisfied > 0` by `counter_sound` and
    the job goes back to sleep; it retries only after a later check finds the token available). -/
theorem aborted_start_records_wait (fl : Flags) (hr : fl.abortReleases = true) (s : St) (j e : Nat)
    (hpc : (s.jobs j).pc = .lockEnter) (hh : (s.jobs j).held = [])
    (hfail : (s.acquireAll j (s.jobs j).deps.length 0).2 = some e)
    (hnodup : ∀ i t c c', i ≠ e → (depAt (s.jobs j) e).origin = .tok t c → (depAt (s.jobs j) i).origin ≠ .tok t c') :
    e < (s.jobs j).deps.length ∧ (depAt ((s.resume fl j).jobs j) e).cur = .wait ∧
    ∃ t c, (depAt (s.jobs j) e).origin = .tok t c ∧ s.avail t < c :=
  abort_records_wait fl hr s j e hpc hh hfail hnodup

/-- the hypothesis `hnodup` above is needed, and "every `step`/`deliver` sequence is bounded" is false even with all
    four repairs when one job asks twice for the same token: one job, token of 1, dependencies [1 unit, 1 unit] (each
    fits, the sum does not).  After `[submit, step]` the 6-event cycle `deliver 0, step, deliver 0, step, step, step`
    returns to the same snapshot: the job takes one unit, fails on the second, gives the first back, finds both
    dependencies satisfiable again and retries at once — a busy loop, also on the real scheduler (replayed, 4 turns). -/
theorem doubled_token_request_spins :
    snap (selfSpinState 1) = snap (selfSpinState 0) ∧ snap (selfSpinState 2) = snap (selfSpinState 0) ∧
    ((selfSpinState 0).jobs 0).pc = .lockEnter ∧ ((selfSpinState 0).jobs 0).launches = 0 :=
  self_spin_snap

/-- invariant C (`stale_wait_has_notification`, tokens): a registered token dependency recorded as WAIT either cannot be
    satisfied now, or a check of it is queued.  Needs `readyGuarded`, `abortRechecks`. -/
theorem no_lost_token_notification {fl : Flags} (hg : fl.readyGuarded = true) (ha : fl.abortRechecks = true)
    {totals : List Nat} {s : St} (h : Reachable fl totals s) (j i t c : Nat)
    (hs : (s.jobs j).state ≠ .unscheduled) (hi : i < (s.jobs j).deps.length)
    (ho : (depAt (s.jobs j) i).origin = .tok t c) (hw : (depAt (s.jobs j) i).cur = .wait) :
    s.avail t < c ∨ Cb.check j i ∈ s.ready ∨ Cb.notifyCheck j i ∈ s.ready :=
  (reachable_invG hg ha h).nolost.tokWait j i t c ⟨hs, hi, trivial⟩ (by simp) ho hw

/-- invariant D (jobs): a registered job dependency recorded as WAIT whose origin has returned has a check queued.
    Needs `readyGuarded`, `abortRechecks`. -/
theorem no_lost_job_notification {fl : Flags} (hg : fl.readyGuarded = true) (ha : fl.abortRechecks = true)
    {totals : List Nat} {s : St} (h : Reachable fl totals s) (j i o : Nat) (r : JS)
    (hs : (s.jobs j).state ≠ .unscheduled) (hi : i < (s.jobs j).deps.length)
    (ho : (depAt (s.jobs j) i).origin = .job o) (hw : (depAt (s.jobs j) i).cur = .wait)
    (hf : (s.jobs o).pc = .finished r) : Cb.check j i ∈ s.ready ∨ Cb.notifyCheck j i ∈ s.ready :=
  (reachable_invG hg ha h).nolost.jobWait j i o r ⟨hs, hi, trivial⟩ (by simp) ho hw hf

/-- every job dependency points to an earlier job that was scheduled (a duplicate submission is replaced by the job
    that stands for it).  Needs `readyGuarded`, `resubmitRegisters`. -/
theorem dependencies_scheduled {fl : Flags} (hg : fl.readyGuarded = true) (hf : fl.resubmitRegisters = true)
    {totals : List Nat} {s : St} (h : Reachable fl totals s) (j i o : Nat) (hi : i < (s.jobs j).deps.length)
    (ho : (depAt (s.jobs j) i).origin = .job o) : o < j ∧ (s.jobs o).pc ≠ .none :=
  ⟨(reachable_invS h).acyclic j i o hi ho, (reachable_invH hg hf h).oe.origSch j i o hi ho⟩

/-- waiter invariant 1: while `experiment.wait()` sleeps on the condition, some job is unfinished.
    Needs `readyGuarded`, `resubmitRegisters`. -/
theorem waiter_sleeping_only_if_unfinished {fl : Flags} (hg : fl.readyGuarded = true)
    (hf : fl.resubmitRegisters = true) {totals : List Nat} {s : St} (h : Reachable fl totals s)
    (hw : s.waiter = .sleeping) : s.unfinished ≠ 0 :=
  (reachable_invW hg hf h).sleepingBusy hw

/-- waiter invariant 2: a waiter that was started or notified has its callback in the queue.
    Needs `readyGuarded`, `resubmitRegisters`. -/
theorem waiter_pending_has_callback {fl : Flags} (hg : fl.readyGuarded = true) (hf : fl.resubmitRegisters = true)
    {totals : List Nat} {s : St} (h : Reachable fl totals s)
    (hw : s.waiter = .starting ∨ s.waiter = .notified) : Cb.waiterRun ∈ s.ready :=
  (reachable_invW hg hf h).pendingRun hw

/-- "waiting on the experiment … never hanging" (deadlock form): at quiescence either nobody called `wait()` or the
    call has completed (returned or raised).  Needs all three flags and `TokFit`. -/
theorem quiescent_waiter_done {fl : Flags} (hg : fl.readyGuarded = true) (hf : fl.resubmitRegisters = true)
    (ha : fl.abortRechecks = true) {totals : List Nat} {s : St} (h : Reachable fl totals s)
    (hr : s.ready = []) (ht : s.threads = []) (hfit : TokFit s) :
    s.waiter = .none ∨ s.waiter = .returned ∨ s.waiter = .raised :=
  quiescent_waiter hg hf ha h hr ht hfit

/-- deadlock freedom (`quiescent_all_final`): in a reachable state with an empty callback queue and no pending helper
    thread, every scheduled job has returned, `unfinished = 0`, every token is full, nobody holds a lock, and
    `experiment.wait()` (if called) has completed — provided no job asks for more units of a token than the token has
    (`TokFit`; such a job waits forever in the real scheduler too).  Needs the first three flags.  (The token part uses the
    capacity invariant of C08, `Proofs/SchedCap`.)  Not covered: termination — false without the fourth repair `abortReleases`, see
    `aborted_starts_livelock_witness`; holds for either value of `abortReleases`. -/
theorem quiescent_all_final {fl : Flags} (hg : fl.readyGuarded = true) (hf : fl.resubmitRegisters = true)
    (ha : fl.abortRechecks = true) {totals : List Nat} {s : St} (h : Reachable fl totals s)
    (hr : s.ready = []) (ht : s.threads = []) (hfit : TokFit s) :
    AllFinal s ∧ s.unfinished = 0 ∧ (∀ t, s.avail t = s.total t) ∧ (∀ j, (s.jobs j).held = []) ∧
    (s.waiter = .none ∨ s.waiter = .returned ∨ s.waiter = .raised) := by
  have hall := quiescent_final hg hf ha h hr ht hfit
  have hc := (reachable_invB hg hf h).count
  unfold CountC at hc
  rw [(actN_zero_iff s).2 hall] at hc
  exact ⟨hall, by simpa using hc, (quiescent_tokens_full h hr ht).1, (quiescent_tokens_full h hr ht).2,
    quiescent_waiter hg hf ha h hr ht hfit⟩

/-- C09, deadlock form: at quiescence no job is left waiting — no job (scheduled or not) sits in `event.wait()`; so a
    job whose token request fits is never blocked for ever by a deadlock.  Corollary of `quiescent_all_final`. -/
theorem no_job_waits_at_quiescence {fl : Flags} (hg : fl.readyGuarded = true) (hf : fl.resubmitRegisters = true)
    (ha : fl.abortRechecks = true) {totals : List Nat} {s : St} (h : Reachable fl totals s)
    (hr : s.ready = []) (ht : s.threads = []) (hfit : TokFit s) (j : Nat) : (s.jobs j).pc ≠ .evtWait := by
  intro hp
  by_cases hj : j < s.n
  · rcases (quiescent_all_final hg hf ha h hr ht hfit).1 j hj with e | ⟨r, e⟩ <;> rw [e] at hp <;> cases hp
  · have := (reachable_invA hg h).blank j (by omega); rw [this] at hp; cases hp

/-- `quiescent_all_final` is false without `abortRechecks` (finding F5): two jobs, one token of 1; after an aborted
    start the second job sleeps forever although the token is free. -/
theorem quiescent_hang_without_abortRechecks :
    let fl : Flags := { readyGuarded := true, resubmitRegisters := true, abortRechecks := false, abortReleases := true }
    let a : Ev := .submit 0 [.tok 0 1] 0 false
    let b : Ev := .submit 1 [.tok 0 1] 0 false
    let evs : List Ev := [a, b, .deliver 0, .step, .step, .deliver 1, .deliver 0, .step, .step, .deliver 0, .step,
      .deliver 1, .step, .deliver 0, .step, .step, .step, .wait, .step]
    let s := evs.foldl (St.apply fl) (St.init [1])
    (s.ready = [] ∧ s.threads = [] ∧ (s.jobs 1).pc = .evtWait ∧ (s.jobs 1).sleeping = true ∧
     (s.jobs 1).unsat = 0 ∧ s.avail 0 = 1 ∧ s.unfinished = 1 ∧ s.waiter = .sleeping) := by decide

/-- `every_fair_run_finite` is FALSE without the `abortReleases` repair (finding F32, livelock of aborted starts); flags
    `flNoRelease = { readyGuarded := true, resubmitRegisters := true, abortRechecks := true, abortReleases := false }`.
    Tokens t0, t1 of one unit each; job C takes t1 and finishes; A takes [t0, t1], B takes [t1, t0].  After the prefix
    `livelockPrefix` (16 events) A is in its aborted-start segment still holding t0 and B is about to start; the cycle
    `livelockCycle` (13 `step`/`deliver` events, in which every queued callback runs and every helper thread is
    delivered — a fair schedule) brings the scheduler back to exactly the same snapshot (`snap`: all job records,
    tokens, dependents, both queues, counters, waiter): each of A, B takes its first token, fails on the second and
    releases.  Checked here for 1, 2 and 3 turns of the cycle; nobody is ever launched.  The state is reachable and
    satisfies `TokFit`.  (Replayed on the real scheduler before the fix: identical observation after every turn.) -/
theorem aborted_starts_livelock_witness :
    flNoRelease = { readyGuarded := true, resubmitRegisters := true, abortRechecks := true, abortReleases := false } ∧
    Reachable flNoRelease [1, 1] (livelockState 0) ∧ TokFit (livelockState 0) ∧
    snap (livelockState 1) = snap (livelockState 0) ∧ snap (livelockState 2) = snap (livelockState 0) ∧
    snap (livelockState 3) = snap (livelockState 0) ∧
    ((livelockState 0).jobs 0).pc = .finished .done ∧
    ((livelockState 0).jobs 1).pc = .lockExitAbort ∧ ((livelockState 0).jobs 2).pc = .lockEnter ∧
    ((livelockState 0).jobs 1).launches = 0 ∧ ((livelockState 0).jobs 2).launches = 0 ∧
    (livelockState 0).threads = [] ∧ (livelockState 0).ready = [.resume 2, .resume 1] :=
  ⟨rfl, reachable_runEvs _ (by decide), tokFit_runEvs flNoRelease [1, 1] _ (by decide), livelock_cycle_snap.1,
   livelock_cycle_snap.2.1, livelock_cycle_snap.2.2, livelock_cycle_facts.1, livelock_cycle_facts.2.1,
   livelock_cycle_facts.2.2.1, livelock_cycle_facts.2.2.2.1, livelock_cycle_facts.2.2.2.2.1,
   livelock_cycle_facts.2.2.2.2.2.1, livelock_cycle_facts.2.2.2.2.2.2.1⟩

/-- positive counterpart, all four repairs (`flOK`): the same submissions, prefix and cycle do not loop — after one turn
    B has been launched; after three turns and the nine events `livelockFixedTail` the run is quiescent, all three jobs
    returned DONE, A and B ran exactly once, both tokens are full. -/
theorem aborted_starts_no_livelock_with_abortReleases :
    flOK = { readyGuarded := true, resubmitRegisters := true, abortRechecks := true, abortReleases := true } ∧
    ((livelockFixedState 1 []).jobs 2).launches = 1 ∧
    (livelockFixedState 3 livelockFixedTail).n = 3 ∧
    ((livelockFixedState 3 livelockFixedTail).jobs 0).pc = .finished .done ∧
    ((livelockFixedState 3 livelockFixedTail).jobs 1).pc = .finished .done ∧
    ((livelockFixedState 3 livelockFixedTail).jobs 2).pc = .finished .done ∧
    ((livelockFixedState 3 livelockFixedTail).jobs 1).launches = 1 ∧
    ((livelockFixedState 3 livelockFixedTail).jobs 2).launches = 1 ∧
    (livelockFixedState 3 livelockFixedTail).ready = [] ∧ (livelockFixedState 3 livelockFixedTail).threads = [] ∧
    (livelockFixedState 3 livelockFixedTail).avail 0 = 1 ∧ (livelockFixedState 3 livelockFixedTail).avail 1 = 1 ∧
    (livelockFixedState 3 livelockFixedTail).unfinished = 0 :=
  ⟨rfl, livelock_fixed_facts⟩

/-! ### termination (no livelock) -/

/-- the measure: every enabled `step` (non-empty queue) or `deliver` (pending thread) event of a reachable state in
    which no job names a token twice strictly decreases `mu : St → Nat` (`Proofs/SchedTerm.lean`: phase potential,
    abort budgets, ranks, queue lengths).  Needs all four flags. -/
theorem step_deliver_decreases_measure {fl : Flags} (hg : fl.readyGuarded = true) (hf : fl.resubmitRegisters = true)
    (ha : fl.abortRechecks = true) (hr : fl.abortReleases = true) {totals : List Nat} {s : St}
    (h : Reachable fl totals s) (hnd : NoDoubleTok s) (ev : Ev) (hen : Enabled s ev) :
    mu (s.apply fl ev) < mu s :=
  mu_decreases fl hg ha hr s (reachable_invT hg ha h hnd) (reachable_invB hg hf h).noreg ev hen

/-- `every_run_finite` (no livelock of aborted starts): from a reachable state in which no job names the same token in
    two dependencies, every sequence of enabled `step` / `deliver` events (no `submit`, no `wait`; `RunOK`: each event
    enabled in the state it is applied to, so no no-op events) has length at most `mu s`.  Needs all four flags; false
    without `abortReleases` (`aborted_starts_livelock_witness`) and without `NoDoubleTok`
    (`doubled_token_request_spins`). -/
theorem every_run_finite {fl : Flags} (hg : fl.readyGuarded = true) (hf : fl.resubmitRegisters = true)
    (ha : fl.abortRechecks = true) (hr : fl.abortReleases = true) {totals : List Nat} {s : St}
    (h : Reachable fl totals s) (hnd : NoDoubleTok s) (evs : List Ev) (hrun : RunOK fl s evs) :
    evs.length ≤ mu s := by
  have := (run_bound hg hf ha hr evs s h hnd hrun).2.2
  omega

/-- a maximal run exists: from such a state some run of enabled `step` / `deliver` events reaches quiescence. -/
theorem maximal_run_reaches_quiescence {fl : Flags} (hg : fl.readyGuarded = true) (hf : fl.resubmitRegisters = true)
    (ha : fl.abortRechecks = true) (hr : fl.abortReleases = true) {totals : List Nat} {s : St}
    (h : Reachable fl totals s) (hnd : NoDoubleTok s) :
    ∃ evs, RunOK fl s evs ∧ (evs.foldl (St.apply fl) s).ready = [] ∧ (evs.foldl (St.apply fl) s).threads = [] :=
  maximal_run_exists hg hf ha hr (mu s) s (Nat.le_refl _) h hnd

/-- `every_maximal_run_ends_all_final`: a run of enabled `step` / `deliver` events that cannot be extended (no event is
    enabled in its last state) — and every run is finite, `every_run_finite` — ends with every scheduled job returned,
    `unfinished = 0`, every token full, no lock held and `experiment.wait()` completed.  Needs all four flags,
    `NoDoubleTok` and `TokFit`. -/
theorem every_maximal_run_ends_all_final {fl : Flags} (hg : fl.readyGuarded = true) (hf : fl.resubmitRegisters = true)
    (ha : fl.abortRechecks = true) (hr : fl.abortReleases = true) {totals : List Nat} {s : St}
    (h : Reachable fl totals s) (hnd : NoDoubleTok s) (hfit : TokFit s) (evs : List Ev) (hrun : RunOK fl s evs)
    (hmax : ∀ ev, ¬ Enabled (evs.foldl (St.apply fl) s) ev) :
    let s' := evs.foldl (St.apply fl) s
    evs.length ≤ mu s ∧ AllFinal s' ∧ s'.unfinished = 0 ∧ (∀ t, s'.avail t = s'.total t) ∧
    (∀ j, (s'.jobs j).held = []) ∧ (s'.waiter = .none ∨ s'.waiter = .returned ∨ s'.waiter = .raised) := by
  have hb := run_bound hg hf ha hr evs s h hnd hrun
  have hq := quiescent_of_not_enabled _ hmax
  exact ⟨by have := hb.2.2; omega, quiescent_all_final hg hf ha hb.1 hq.1 hq.2 (tokFit_run fl evs s hrun hfit)⟩

/-- C09 in its liveness form: at the end of every maximal run each scheduled job has been launched, unless its success
    marker existed or one of its dependencies failed — so a waiting job whose request fits is eventually launched. -/
theorem every_job_eventually_launched {fl : Flags} (hg : fl.readyGuarded = true) (hf : fl.resubmitRegisters = true)
    (ha : fl.abortRechecks = true) (hr : fl.abortReleases = true) {totals : List Nat} {s : St}
    (h : Reachable fl totals s) (hnd : NoDoubleTok s) (hfit : TokFit s) (evs : List Ev) (hrun : RunOK fl s evs)
    (hmax : ∀ ev, ¬ Enabled (evs.foldl (St.apply fl) s) ev) (j : Nat)
    (hj : j < (evs.foldl (St.apply fl) s).n) (hs : ((evs.foldl (St.apply fl) s).jobs j).pc ≠ .none) :
    ((evs.foldl (St.apply fl) s).jobs j).launches = 1 ∨ ((evs.foldl (St.apply fl) s).jobs j).marker = true ∨
    ((evs.foldl (St.apply fl) s).jobs j).failedDep = true := by
  have hb := run_bound hg hf ha hr evs s h hnd hrun
  have hall := (every_maximal_run_ends_all_final hg hf ha hr h hnd hfit evs hrun hmax).2.1
  rcases hall j hj with e | ⟨r, e⟩
  · exact absurd e hs
  · rcases (final_is_done_or_error hg hb.1 j r e).1 with hd | he
    · rcases (final_truthful_done hg hb.1 j r e).1 hd with hm | ⟨hl, _⟩
      · exact Or.inr (Or.inl hm)
      · exact Or.inl hl
    · rcases ((final_truthful_error hg hb.1 j r e).1 he).2 with ⟨hl, _⟩ | hfd
      · exact Or.inl hl
      · exact Or.inr (Or.inr hfd)

/-! Hypotheses are satisfiable: a concrete reachable state (flags all true) with a job that returned DONE after one
    launch, one that returned ERROR because its dependency failed (never launched), and a waiter that raised. -/
section examples

def exEvs : List Ev :=
  [.submit 10 [] 1 false, .submit 11 [.job 0] 0 false, .wait, .step, .step, .step,
   .deliver 0, .step, .deliver 0, .step, .deliver 0, .step, .deliver 0, .step, .step, .step,
   .deliver 0, .step, .step, .deliver 0, .step, .step]

/-- the example state is reachable (events well-formed) … -/
example : Reachable flOK [] (runEvs flOK [] exEvs) := reachable_runEvs exEvs (by decide)

/-- … job 0 ran once and failed, job 1 was never launched and ended ERROR because its dependency failed,
    the waiter raised, nothing is unfinished. -/
example : ((runEvs flOK [] exEvs).jobs 0).pc = .finished .error
    ∧ ((runEvs flOK [] exEvs).jobs 0).launches = 1
    ∧ ((runEvs flOK [] exEvs).jobs 1).pc = .finished .error
    ∧ ((runEvs flOK [] exEvs).jobs 1).launches = 0
    ∧ ((runEvs flOK [] exEvs).jobs 1).failedDep = true
    ∧ (runEvs flOK [] exEvs).waiter = .raised
    ∧ (runEvs flOK [] exEvs).unfinished = 0 := by decide

/-- a micro-state inside a `submit` event in which the waiter callback runs. -/
example : MReach flOK [] (St.steps flOK (submitPre (runEvs flOK [] [.wait]) 10 [] 0 false) 1) :=
  .inSubmit 10 [] 0 false 1 (reachable_runEvs [.wait] (by decide)) (by intro o ho; cases ho) (by decide)

/-- a quiescent reachable state with token contention (one aborted start on the way): the hypotheses of
    `quiescent_all_final` hold, both jobs ran once, the waiter returned. -/
def exTok : List Ev :=
  [.submit 10 [.tok 0 2] 0 false, .submit 11 [.tok 0 2] 0 false, .wait, .step, .step, .deliver 0, .step, .deliver 0,
   .step, .deliver 0, .step, .deliver 0, .step, .deliver 0, .step, .step, .step, .step, .deliver 0, .step, .step,
   .deliver 0, .step, .deliver 0, .step, .deliver 0, .step, .step, .step, .deliver 0, .step, .step]

example : Reachable flOK [3] (runEvs flOK [3] exTok) := reachable_runEvs exTok (by decide)
example : TokFit (runEvs flOK [3] exTok) := tokFit_runEvs flOK [3] exTok (by decide)
example : NoDoubleTok (runEvs flOK [3] (exTok.take 3)) := noDoubleTok_runEvs rfl [3] _ (by decide) (by decide)
example : RunOK flOK (runEvs flOK [3] (exTok.take 3)) (exTok.drop 3) := runOK_of_b flOK _ _ (by decide)
example : (runEvs flOK [3] exTok).ready = [] ∧ (runEvs flOK [3] exTok).threads = []
    ∧ ((runEvs flOK [3] (exTok.take 10)).jobs 1).pc = .lockExitAbort
    ∧ ((runEvs flOK [3] exTok).jobs 0).pc = .finished .done ∧ ((runEvs flOK [3] exTok).jobs 1).pc = .finished .done
    ∧ (runEvs flOK [3] exTok).waiter = .returned ∧ (runEvs flOK [3] exTok).avail 0 = 3 := by decide

end examples

end XpmVerif.C06
