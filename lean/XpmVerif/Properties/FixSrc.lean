import XpmVerif.Generated.FixSrc
import XpmVerif.Proofs.DeprecatedLoad
/-! Source obligations of C20: the definitions `harness/xv/translate/fixsrc.py` regenerates from
    `tools/jobs.py`, `core/types.py` and `annotations.py` on every run are the model's.  Each is a finite table
    (all observations of one loop iteration), decided by the kernel. -/
namespace XpmVerif.FixSrc
open XpmVerif.Deprecated

/-- the decision structure of one iteration of `fix_deprecated`'s second loop, as read from the source, is the model's
    `action` (is link? loadable? new identifier? fix / cleanup? dangling link at the new path? new path exists? same
    target? ⇒ skip | warn | alias | remove dangling link, alias, link | …, rewrite, move). -/
theorem fixAction_is_model : ∀ fx cl a b c d e f : Bool,
    Gen.fixAction fx cl ⟨a, b, c, d, e, f⟩ = action fx cl ⟨a, b, c, d, e, f⟩ := by decide

/-- the first loop (`if cleanup:`) unlinks exactly the yielded symbolic links. -/
theorem fixPass1_is_model : ∀ fx cl l : Bool, Gen.fixPass1 fx cl l = pass1 cl l := by decide

/-- `alias_job_files` creates `<new>.<suffix>` iff the names differ, the source exists and nothing is at the alias … -/
theorem aliasCond_is_model : ∀ a b c d : Bool, Gen.aliasCond a b c d = aliasCond a b c d := by decide

/-- … as a link to the *name* of the source (it survives the move of the directory), for `.done`, `.out`, `.err`. -/
theorem alias_is_relative : Gen.aliasRelative = true ∧ Gen.aliasSuffixes = ["done", "out", "err"] := by decide

/-- `ObjectType.deprecate` (called by `@deprecate` at class-definition time) gives the class the type identifier of its
    single parent: the hypothesis of `sig_deprecated` (`eff`, Model/Deprecated.lean). -/
theorem deprecate_takes_parent_identifier :
    Gen.deprecateTakesParentId = true ∧ Gen.deprecateSingleParent = true ∧ Gen.decoratorCallsDeprecate = true := by decide

/-- the step of the file-level repair, with the *generated* decision function in place of `action`, has the step of
    `fixTree` as its tree component. -/
theorem generated_step_is_step2 (fx cl : Bool) (nm : Nat → Nat) (s : Tree × FS) (k : Key) :
    (match s.1 k with
      | some (.dir d (.ok nk)) => (Gen.fixAction fx cl (observe s.1 k nk)).foldl (applyEff nm k nk d) s
      | _ => s).1 = step2 fx cl s.1 k := by
  have h : ∀ o : Obs, Gen.fixAction fx cl o = action fx cl o := fun ⟨a, b, c, d, e, f⟩ => fixAction_is_model fx cl a b c d e f
  simp only [h]
  exact step2F_fst fx cl nm s k

end XpmVerif.FixSrc
