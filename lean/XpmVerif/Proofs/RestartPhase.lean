import XpmVerif.Proofs.RestartLive4
/-! C11, liveness with adoption: the re-submission phase.  While the restarted scheduler only takes submissions, its
    queue holds at most the first segment of the last submission; a submission first runs that segment — an event of the
    second run (`soundA_step`), possibly an adoption — and then registers the new job with an empty queue
    (`submit_split`), which on the abstract state is the submission of M2 (`submit0_abs`). -/
set_option linter.unusedSimpArgs false
set_option linter.unusedVariables false
namespace XpmVerif.RestartLive
open XpmVerif.Sched hiding Reachable flOK submitPre submitPost sumTo
open XpmVerif.SchedFinal XpmVerif.Restart XpmVerif.RestartTerm XpmVerif.RestartAbs

/-! ### the first segment of an earlier job commutes with the creation of the new record -/

/-- `task.submit()`, part 1, on the scheduler state. -/
def preS (N : Nat) (rec : Job) (s : St) : St :=
  { s with n := s.n + 1, jobs := upd s.jobs N rec, regResult := none, ready := s.ready ++ [.register N] }

theorem submitPre_eq {D : Type} (a : StA D) (rec : Job) : Restart.submitPre a rec = { a with s := preS a.s.n rec a.s } := rfl

theorem preS_jobs_ne (N : Nat) (rec : Job) (s : St) {k : Nat} (hk : k ≠ N) : (preS N rec s).jobs k = s.jobs k := by
  simp [preS, upd, hk]

theorem preS_put (N : Nat) (rec : Job) (s : St) {k : Nat} (hk : k ≠ N) (jb : Job) (ths : List (TK × Nat)) :
    preS N rec (s.put k jb [] ths) = (preS N rec s).put k jb [] ths := by
  unfold preS St.put
  simp only [List.append_nil]
  congr 1
  funext i
  unfold upd
  by_cases h1 : i = N <;> by_cases h2 : i = k <;> simp [h1, h2]
  · subst h1; subst h2; exact absurd rfl hk
  · intro e; exact absurd e.symm hk
  · intro e; exact absurd e hk

/-- the `d`-th dependency of `k` is not the job `N`. -/
def NotOn (s : St) (k N : Nat) : Prop := ∀ d, ((s.jobs k).deps.getD d default).origin ≠ .job N

theorem preS_status (N : Nat) (rec : Job) (s : St) (o : Origin) (ho : o ≠ .job N) : (preS N rec s).status o = s.status o := by
  cases o with
  | tok t c => rfl
  | job x =>
    have : x ≠ N := fun e => ho (by rw [e])
    simp only [St.status, preS_jobs_ne N rec s this]

theorem preS_check (fl : Flags) (N : Nat) (rec : Job) (s : St) {k : Nat} (hk : k ≠ N) (d : Nat)
    (hs : (s.jobs k).sleeping = false) (hn : NotOn s k N) :
    preS N rec (s.check fl k d) = (preS N rec s).check fl k d := by
  unfold St.check
  simp only []
  rw [preS_jobs_ne N rec s hk, preS_status N rec s _ (hn d)]
  have hw := (depChanged_awake fl (s.jobs k) d (s.status ((s.jobs k).deps.getD d default).origin) hs).1
  simp only [hw, Bool.false_eq_true, if_false]
  exact preS_put N rec s hk _ _

theorem preS_regOne (N : Nat) (rec : Job) (s : St) {k : Nat} (hk : k ≠ N) (d : Nat) :
    preS N rec (regOne s k d) = regOne (preS N rec s) k d := by
  unfold regOne
  rw [preS_jobs_ne N rec s hk]
  split <;> rfl

theorem check_notOn (fl : Flags) (s : St) (k N d : Nat) (hn : NotOn s k N) : NotOn (s.check fl k d) k N := by
  intro d'
  have := (sameConst_origin (check_frame fl s k d).2.2.2.2.2).2 d'
  unfold depAt at this
  rw [this]; exact hn d'

theorem preS_registerDeps (fl : Flags) (N : Nat) (rec : Job) {k : Nat} (hk : k ≠ N) :
    ∀ (m d : Nat) (s : St), (s.jobs k).sleeping = false → NotOn s k N →
      preS N rec (St.registerDeps fl s k m d) = St.registerDeps fl (preS N rec s) k m d := by
  intro m
  induction m with
  | zero => intro d s _ _; rfl
  | succ m ih =>
    intro d s hs hn
    rw [registerDeps_succ, registerDeps_succ]
    have hs1 : ((regOne s k d).jobs k).sleeping = false := by rw [(regOne_frame s k d).1]; exact hs
    have hn1 : NotOn (regOne s k d) k N := by intro d'; rw [(regOne_frame s k d).1]; exact hn d'
    rw [ih (d + 1) _ (check_sleeping fl _ k d hs1) (check_notOn fl _ k N d hn1), preS_check fl N rec _ hk d hs1 hn1,
      preS_regOne N rec s hk]

theorem preS_startPrefix (fl : Flags) (N : Nat) (rec : Job) (s : St) {k : Nat} (hk : k ≠ N) (hn : NotOn s k N) :
    preS N rec (startPrefix fl s k) = startPrefix fl (preS N rec s) k := by
  rw [startPrefix_eq, startPrefix_eq]
  have hb : preS N rec (prefBody fl s k) = prefBody fl (preS N rec s) k := by
    unfold prefBody
    simp only [preS_jobs_ne N rec s hk]
    split
    · rw [preS_put N rec _ hk, preS_put N rec _ hk]
    · rw [preS_registerDeps fl N rec hk _ _ _ (by simp) (by intro d; simpa using hn d), preS_put N rec _ hk, preS_put N rec _ hk]
  unfold markStep
  rw [← hb, preS_jobs_ne N rec _ hk]
  split
  · rw [preS_put N rec _ hk]
  · rfl

theorem preS_finish (N : Nat) (rec : Job) (s : St) {k : Nat} (hk : k ≠ N) :
    preS N rec (s.finish k) = (preS N rec s).finish k := by
  unfold St.finish
  simp only [preS_jobs_ne N rec s hk]
  have e : (preS N rec s).failed = s.failed := rfl
  rw [e]
  split
  · rw [preS_put N rec _ hk]; rfl
  · rw [preS_put N rec _ hk]

theorem preS_loopHead (N : Nat) (rec : Job) (s : St) {k : Nat} (hk : k ≠ N) :
    preS N rec (s.loopHead k) = (preS N rec s).loopHead k := by
  unfold St.loopHead
  simp only [preS_jobs_ne N rec s hk]
  split
  · exact preS_finish N rec s hk
  · split
    · split
      · rw [preS_put N rec _ hk]
      · rw [preS_put N rec _ hk]
    · rw [preS_put N rec _ hk]

theorem preS_startJobA (fl : Flags) (N : Nat) (rec : Job) (s : St) {k : Nat} (hk : k ≠ N) (hn : NotOn s k N) (lk : Look) :
    preS N rec (startJobA fl s k lk) = startJobA fl (preS N rec s) k lk := by
  unfold startJobA
  have hn' : NotOn (s.put k { (s.jobs k) with marker := lk.marker }) k N := by intro d; simpa using hn d
  rw [preS_jobs_ne N rec s hk]
  split
  · rw [preS_put N rec _ hk, preS_startPrefix fl N rec _ hk hn', preS_put N rec _ hk,
      ← preS_jobs_ne N rec (startPrefix fl (s.put k { (s.jobs k) with marker := lk.marker }) k) hk,
      preS_startPrefix fl N rec _ hk hn', preS_put N rec _ hk]
  · rw [Restart.startJob_eq, Restart.startJob_eq, preS_loopHead N rec _ hk, preS_startPrefix fl N rec _ hk hn', preS_put N rec _ hk]

/-- a submission made while the first segment of job `k` is queued: the segment runs first. -/
theorem submit_split (fl : Flags) (a : StA Disk) (k : Nat) (hr : a.s.ready = [.start k]) (hk : k ≠ a.s.n)
    (hn : NotOn a.s k a.s.n) (hsn : (stepA fl world a).s.n = a.s.n) (hse : (stepA fl world a).s.eff = a.s.eff)
    (hsr : (stepA fl world a).s.ready = [])
    (ident : Nat) (deps : List Origin) (code : Nat) (marker : Bool) :
    applyA fl world a (.submit ident deps code marker) =
      applyA fl world (stepA fl world a) (.submit ident deps code marker) := by
  have hrec : Restart.newJob (stepA fl world a).s ident deps code marker = Restart.newJob a.s ident deps code marker := by
    unfold Restart.newJob; rw [hse]
  -- the first of the two steps of the left-hand side
  have h1 : stepA fl world (Restart.submitPre a (Restart.newJob a.s ident deps code marker)) =
      Restart.submitPre (stepA fl world a) (Restart.newJob a.s ident deps code marker) := by
    rw [stepA_cons fl world (Restart.submitPre a _) (.start k) [.register a.s.n] (by simp [Restart.submitPre, hr]),
      stepA_cons fl world a (.start k) [] hr, submitPre_eq, submitPre_eq]
    have e0 : (({ a with s := preS a.s.n (Restart.newJob a.s ident deps code marker) a.s } : StA Disk).s.jobs k) = a.s.jobs k :=
      preS_jobs_ne _ _ _ hk
    have epop : ({ preS a.s.n (Restart.newJob a.s ident deps code marker) a.s with ready := [.register a.s.n] } : St) =
        preS a.s.n (Restart.newJob a.s ident deps code marker) ({ a.s with ready := [] } : St) := by
      unfold preS; simp
    have hn0 : NotOn ({ a.s with ready := [] } : St) k a.s.n := hn
    simp only [runCbA]
    rw [epop, preS_jobs_ne _ _ _ hk]
    have hnn : ∀ lk, (startJobA fl ({ a.s with ready := [] } : St) k lk).n = a.s.n := by
      intro lk
      unfold startJobA
      split
      · rename_i hl
        have := (startJobA_adopt_rec fl ({ a.s with ready := [] } : St) k lk hl).2.2.2.2.2.2
        unfold startJobA at this
        simp only [hl, if_true] at this
        exact this
      · exact (startJob_frame fl _ k).1
    split
    · rw [← preS_startJobA fl _ _ _ hk hn0]
      simp only [hnn]
    · rw [← preS_startJobA fl _ _ _ hk hn0]
      simp only [hnn]
  simp only [applyA, hr, hsr, List.length_cons, List.length_nil, hrec, hsn]
  show Restart.submitPost (stepsA fl world _ 2) _ = Restart.submitPost (stepsA fl world _ 1) _
  simp only [stepsA]
  rw [h1]

/-! ### a submission taken with an empty queue is the submission of M2 -/

theorem submit0_eq (fl : Flags) (a : StA Disk) (hr : a.s.ready = []) (ident : Nat) (deps : List Origin) (code : Nat) (marker : Bool) :
    applyA fl world a (.submit ident deps code marker) = { a with s := a.s.apply fl (.submit ident deps code marker) } := by
  simp only [applyA, hr, List.length_nil]
  rw [submitPost_s, apply_submit, hr]
  simp only [List.length_nil, stepsA, St.steps]
  have h1 : (Restart.submitPre a (Restart.newJob a.s ident deps code marker)).s.ready = [.register a.s.n] := by
    simp [Restart.submitPre, hr]
  rw [stepA_cons fl world _ (.register a.s.n) [] h1, runCbA_register]
  have h2 : (SchedFinal.submitPre a.s ident deps code marker).ready = [.register a.s.n] := by
    simp [SchedFinal.submitPre, hr]
  have h3 : (SchedFinal.submitPre a.s ident deps code marker).step fl =
      ({ (SchedFinal.submitPre a.s ident deps code marker) with ready := [] } : St).register fl a.s.n := by
    unfold St.step; rw [h2]; rfl
  rw [h3]
  rfl

theorem abs_submitPre (ad : Nat → Bool) (s : St) (hn : ad s.n = false) (ident : Nat) (deps : List Origin) (code : Nat)
    (marker : Bool) :
    abs ad (SchedFinal.submitPre s ident deps code marker) = SchedFinal.submitPre (abs ad s) ident deps code marker := by
  unfold SchedFinal.submitPre abs
  simp only [List.filter_append]
  congr 1
  · funext i
    unfold upd
    split
    · rename_i e; subst e; rw [absRec_na hn]; rfl
    · rfl

theorem abs_submitPost (ad : Nat → Bool) (s : St) (j : Nat) (hj : ad j = false) :
    abs ad (SchedFinal.submitPost s j) = SchedFinal.submitPost (abs ad s) j := by
  unfold SchedFinal.submitPost
  simp only [abs_regResult]
  split
  · rfl
  · have e : abs ad ({ s with eff := upd s.eff j j } : St) = ({ abs ad s with eff := upd (abs ad s).eff j j } : St) := rfl
    rw [abs_put_na hj, e, abs_jobs_na hj]
    rfl

theorem abs_submit0 (fl : Flags) (ad : Nat → Bool) (s : St) (hr : s.ready = []) (hn : ad s.n = false)
    (ident : Nat) (deps : List Origin) (code : Nat) (marker : Bool) :
    abs ad (s.apply fl (.submit ident deps code marker)) = (abs ad s).apply fl (.submit ident deps code marker) := by
  have hr' : (abs ad s).ready = [] := by rw [abs_ready, hr]; rfl
  rw [apply_submit, apply_submit, hr, hr']
  simp only [List.length_nil, St.steps]
  have hn' : (abs ad s).n = s.n := rfl
  rw [abs_submitPost ad _ _ hn, hn']
  congr 1
  have h2 : (SchedFinal.submitPre s ident deps code marker).ready = [.register s.n] := by
    simp [SchedFinal.submitPre, hr]
  have h2' : (SchedFinal.submitPre (abs ad s) ident deps code marker).ready = [.register s.n] := by
    simp [SchedFinal.submitPre, hr']
  have h3 : (SchedFinal.submitPre s ident deps code marker).step fl =
      ({ (SchedFinal.submitPre s ident deps code marker) with ready := [] } : St).register fl s.n := by
    unfold St.step; rw [h2]; rfl
  have h3' : (SchedFinal.submitPre (abs ad s) ident deps code marker).step fl =
      ({ (SchedFinal.submitPre (abs ad s) ident deps code marker) with ready := [] } : St).register fl s.n := by
    unfold St.step; rw [h2']; rfl
  rw [h3, h3', abs_register, abs_pop, abs_submitPre ad s hn]
  rfl

theorem register_fresh (fl : Flags) (s : St) (j : Nat) (hl : lookup (s.jobs j).ident s.registry = none) :
    s.register fl j = ({ s with unfinished := s.unfinished + 1, registry := ((s.jobs j).ident, j) :: s.registry,
                                regResult := some none } : St) := by
  unfold St.register
  simp only [hl]

/-- closed form of a submission with an empty queue and a new identifier. -/
theorem apply_submit0_shape (fl : Flags) (s : St) (hr : s.ready = []) (ident : Nat) (deps : List Origin) (code : Nat)
    (marker : Bool) (hl : lookup ident s.registry = none) :
    s.apply fl (.submit ident deps code marker) =
      ({ s with n := s.n + 1,
                jobs := upd s.jobs s.n { (SchedFinal.newJob s ident deps code marker) with pc := .created },
                regResult := some none, ready := [.start s.n], unfinished := s.unfinished + 1,
                registry := (ident, s.n) :: s.registry, eff := upd s.eff s.n s.n } : St) := by
  rw [apply_submit, hr]
  simp only [List.length_nil, St.steps]
  have h2 : (SchedFinal.submitPre s ident deps code marker).ready = [.register s.n] := by
    simp [SchedFinal.submitPre, hr]
  have h3 : (SchedFinal.submitPre s ident deps code marker).step fl =
      ({ (SchedFinal.submitPre s ident deps code marker) with ready := [] } : St).register fl s.n := by
    unfold St.step; rw [h2]; rfl
  rw [h3]
  have e1 : ((({ (SchedFinal.submitPre s ident deps code marker) with ready := [] } : St).jobs s.n)).ident = ident := by
    simp [SchedFinal.submitPre, SchedFinal.newJob]
  rw [register_fresh fl _ s.n (by rw [e1]; exact hl), e1]
  unfold SchedFinal.submitPost
  simp only [SchedFinal.submitPre, St.put, SchedFinal.upd_same, List.nil_append, List.append_nil]
  congr 1
  funext i
  unfold upd
  split <;> rfl

theorem getD_map_origin (eff : Nat → Nat) (deps : List Origin) (d : Nat) (o : Nat)
    (h : ((deps.map (fun (o : Origin) => match o with
      | Origin.job d => ({ origin := Origin.job (eff d) } : Dep)
      | o => { origin := o })).getD d default).origin = Origin.job o) (hd : d < deps.length) :
    ∃ k, Origin.job k ∈ deps ∧ o = eff k := by
  rw [List.getD_eq_getElem?_getD, List.getElem?_map, List.getElem?_eq_getElem hd] at h
  simp only [Option.map_some, Option.getD_some] at h
  have hm : deps[d] ∈ deps := List.getElem_mem hd
  cases ho : deps[d] with
  | job k =>
    rw [ho] at h hm
    simp only at h
    exact ⟨k, hm, by cases h; rfl⟩
  | tok t c => rw [ho] at h; simp at h

section submit0
variable {fl : Flags} {totals : List Nat} {done0 : Nat → Bool} {d0 : Disk} {w : W}

/-- **a submission taken with an empty queue** keeps the invariant of the second run. -/
theorem soundA_submit0 (hg : fl.readyGuarded = true) (hf : fl.resubmitRegisters = true) (ha : fl.abortRechecks = true)
    (h : SoundA fl totals done0 d0 w) (hr : w.a.s.ready = []) (ident : Nat) (deps : List Origin) (code : Nat) (marker : Bool)
    (hok : EvOK w.a.s (.submit ident deps code marker)) (hnd : EvNoDouble (.submit ident deps code marker))
    (hid : ∀ j, j < w.a.s.n → (w.a.s.jobs j).ident ≠ ident)
    (hsafe : LivePid w.a.d ident → ∀ k, Origin.job k ∈ deps → Dn d0 (w.a.s.jobs (w.a.s.eff k)).ident) :
    SoundA fl totals done0 d0 (w.apply fl (.sched (.submit ident deps code marker))) ∧
    (w.apply fl (.sched (.submit ident deps code marker))).a.s.ready = [.start w.a.s.n] ∧
    (w.apply fl (.sched (.submit ident deps code marker))).a.d = w.a.d ∧
    (w.apply fl (.sched (.submit ident deps code marker))).totals = w.totals := by
  have hlk : lookup ident w.a.s.registry = none := by
    cases hl : lookup ident w.a.s.registry with
    | none => rfl
    | some o =>
      obtain ⟨r1, r2, -⟩ := (wreach_inv h.reach).sched.2.r3 ident o hl
      exact absurd r2 (hid o r1)
  have e0 : (w.apply fl (.sched (.submit ident deps code marker))).a =
      { w.a with s := w.a.s.apply fl (.submit ident deps code marker) } := submit0_eq fl w.a hr ident deps code marker
  have esh := apply_submit0_shape fl w.a.s hr ident deps code marker hlk
  have hadn : w.a.adopted w.a.s.n = false := by
    cases hx : w.a.adopted w.a.s.n with
    | false => rfl
    | true => exact absurd (h.ad_lt _ hx) (Nat.lt_irrefl _)
  generalize hs' : w.a.s.apply fl (.submit ident deps code marker) = s' at *
  have hjne : ∀ j, j ≠ w.a.s.n → s'.jobs j = w.a.s.jobs j := by
    intro j hj; rw [esh]; simp [upd, hj]
  have hjn : s'.jobs w.a.s.n = { (SchedFinal.newJob w.a.s ident deps code marker) with pc := .created } := by
    rw [esh]; simp
  have hn' : s'.n = w.a.s.n + 1 := by rw [esh]
  have hrd : s'.ready = [.start w.a.s.n] := by rw [esh]
  have htok : s'.tokDeps = w.a.s.tokDeps := by rw [esh]
  have hjob : s'.jobDeps = w.a.s.jobDeps := by rw [esh]
  have hthr : s'.threads = w.a.s.threads := by rw [esh]
  have heffLe : ∀ k, w.a.s.eff k ≤ k := h.good.g.e.c.st.effLe
  have hgood : Good2 fl (abs w.a.adopted s') := by
    rw [← hs', abs_submit0 fl w.a.adopted w.a.s hr hadn]
    exact good2_apply hg hf ha _ hok hnd h.good
  refine ⟨⟨h.reach.apply _, ?_, ?_, ?_, ?_⟩, by rw [e0]; exact hrd, by rw [e0], rfl⟩
  · rw [e0]; exact hgood
  · rw [e0]
    intro j j' hj hj' he
    simp only [] at hj hj' he
    rw [hn'] at hj hj'
    by_cases c1 : j = w.a.s.n <;> by_cases c2 : j' = w.a.s.n
    · omega
    · subst c1
      rw [hjn, hjne j' c2] at he
      exact absurd he.symm (hid j' (by omega))
    · subst c2
      rw [hjn, hjne j c1] at he
      exact absurd he (hid j (by omega))
    · rw [hjne j c1, hjne j' c2] at he
      exact h.uniq j j' (by omega) (by omega) he
  · rw [e0]
    intro i hi
    obtain ⟨j0, h1, h2, h3⟩ := h.lock i hi
    have hj0 : j0 ≠ w.a.s.n := by omega
    refine ⟨j0, by simp only []; rw [hn']; omega, by simp only []; rw [hjne j0 hj0]; exact h2, ?_⟩
    unfold Holds Restart.cThr at h3 ⊢
    simp only []
    rw [hjne j0 hj0, hthr]; exact h3
  · rw [e0]
    have hai := h.ai
    have hadlt : ∀ j, w.a.adopted j = true → j ≠ w.a.s.n := fun j hj => Nat.ne_of_lt (h.ad_lt j hj)
    have hdm : ∀ j, j < w.a.s.n → DepsMk d0 w.a.s j → DepsMk d0 s' j := by
      intro j hj hd d o hd1 ho
      have hjn' : j ≠ w.a.s.n := by omega
      rw [hjne j hjn'] at hd1 ho
      obtain ⟨q1, q2⟩ := hd d o hd1 ho
      exact ⟨q1, by rw [hjne o (by omega)]; exact q2⟩
    refine ⟨?_, ?_, ?_, ?_, ?_, hai.dle, ?_, ?_⟩
    · intro j hj; simp only []; rw [hjne j (hadlt j hj)]; exact hai.held j hj
    · refine ⟨?_, ?_, ?_⟩
      · intro j d hm; simp only [hrd] at hm; simp at hm
      · intro t p hp hj
        simp only [] at hp hj ⊢
        rw [htok] at hp
        rw [hjne _ (hadlt _ hj)]; exact hai.rng.tok t p hp hj
      · intro o p hp hj
        simp only [] at hp hj ⊢
        rw [hjob] at hp
        rw [hjne _ (hadlt _ hj)]; exact hai.rng.job o p hp hj
    · intro j hpc hlv
      simp only [] at hpc hlv
      by_cases hj : j = w.a.s.n
      · subst hj
        rw [hjn] at hlv
        have hsf := hsafe hlv
        intro d o hd1 ho
        rw [hjn] at hd1 ho
        simp only [SchedFinal.newJob, List.length_map] at hd1
        obtain ⟨k, hk1, hk2⟩ := getD_map_origin w.a.s.eff deps d o ho hd1
        have hkn : k < w.a.s.n := hok (.job k) hk1
        have hon : o < w.a.s.n := by rw [hk2]; exact Nat.lt_of_le_of_lt (heffLe k) hkn
        refine ⟨hon, ?_⟩
        rw [hjne o (by omega), hk2]
        exact hsf k hk1
      · rw [hjne j hj] at hpc hlv
        exact hdm j (h.lt_of_pc j (by rw [hpc]; simp)) (hai.pre j hpc hlv)
    · intro j hj
      exact hdm j (h.ad_lt j hj) (hai.post j hj)
    · intro o hd
      simp only [] at hd ⊢
      by_cases ho : o = w.a.s.n
      · subst ho; right; left; rw [hjn]
      · rw [hjne o ho] at hd ⊢
        have hc : Restart.cRes s' o = Restart.cRes w.a.s o := by
          simp [Restart.cRes, hrd, hr]
        rw [hc]
        exact hai.mkd o hd
    · have hreg : regP s' = regP w.a.s := by
        unfold regP
        rw [hn', SchedFinal.sumTo_succ, hjn]
        simp only [or_true, if_true, Nat.add_zero]
        exact SchedFinal.sumTo_congr _ _ _ (fun i hi => by rw [hjne i (by omega)])
      simp only []
      rw [hreg, htok, hjob]
      exact hai.lists
    · intro j hj
      simp only []
      rw [hjne j (hadlt j hj)]
      exact hai.proc j hj

end submit0

/-! ### the re-submission phase -/

/-- the job directories and the job processes are those found at the restart (`procOf` may differ). -/
def DiskSame (d0 d : Disk) : Prop := d.dir = d0.dir ∧ d.procs = d0.procs ∧ d.np = d0.np

theorem DiskSame.live {d0 d : Disk} (h : DiskSame d0 d) (i : Nat) : LivePid d i ↔ LivePid d0 i := by
  unfold LivePid Disk.alive
  rw [h.1, h.2.1, h.2.2]

/-- **the hypotheses on the re-submission** `xs` taken by the scheduler restarted in world `w` (disk `d0` at the
    restart): each submission, at the time it is made, names earlier submissions and existing tokens (`EvOK`), asks no
    token twice, carries a new identifier, and — if its pid file names a live process, i.e. if it can be adopted — every
    job it depends on has its success marker. -/
def SubsOKA (fl : Flags) (d0 : Disk) : W → List Sub → Prop
  | _, [] => True
  | w, x :: xs => EvOK w.a.s (x.ev d0) ∧ EvNoDouble (x.ev d0) ∧ (∀ j, j < w.a.s.n → (w.a.s.jobs j).ident ≠ x.ident) ∧
      (LivePid d0 x.ident → ∀ k, Origin.job k ∈ x.deps → Dn d0 (w.a.s.jobs (w.a.s.eff k)).ident) ∧
      SubsOKA fl d0 (w.apply fl (.sched (x.ev d0))) xs

structure PhaseA (fl : Flags) (totals : List Nat) (done0 : Nat → Bool) (d0 : Disk) (w : W) : Prop where
  sound : SoundA fl totals done0 d0 w
  disk : DiskSame d0 w.a.d
  queue : w.a.s.ready = [] ∨ ∃ k, w.a.s.ready = [.start k]

theorem startJobA_frame (fl : Flags) (s : St) (x : Nat) (lk : Look) :
    (startJobA fl s x lk).n = s.n ∧ (startJobA fl s x lk).eff = s.eff ∧ (startJobA fl s x lk).ntok = s.ntok ∧
    (startJobA fl s x lk).ready = s.ready ∧ ∀ i, ((startJobA fl s x lk).jobs i).ident = (s.jobs i).ident := by
  have hsp : ∀ u : St, Frame u (startPrefix fl u x) x := by
    intro u
    have hF := startJob_frame fl u x
    rw [Restart.startJob_eq] at hF
    have hL := loopHead_frame (startPrefix fl u x) x
    refine ⟨hL.1.symm.trans hF.1, hL.2.1.symm.trans hF.2.1, hL.2.2.1.symm.trans hF.2.2.1, hL.2.2.2.1.symm.trans hF.2.2.2.1, ?_, ?_⟩
    · intro i hi; rw [← hL.2.2.2.2.1 i hi, hF.2.2.2.2.1 i hi]
    · exact startPrefix_sameConst fl u x
  have hid : ∀ i, ((startJobA fl s x lk).jobs i).ident = (s.jobs i).ident := by
    intro i
    by_cases hi : i = x
    · subst hi
      unfold startJobA
      split
      · simp only [put_jobs, SchedFinal.upd_same]
        have := (hsp (s.put i { (s.jobs i) with marker := lk.marker })).2.2.2.2.2.1
        simpa using this
      · have := (startJob_frame fl (s.put i { (s.jobs i) with marker := lk.marker }) i).2.2.2.2.2.1
        simpa using this
    · rw [startJobA_other fl s x lk i hi]
  unfold startJobA at hid ⊢
  split
  · have h := hsp (s.put x { (s.jobs x) with marker := lk.marker })
    refine ⟨by simpa using h.1, by simpa using h.2.1, by simpa using h.2.2.1, ?_, ?_⟩
    · simp only [put_ready, List.append_nil, startPrefix_ready]
    · rename_i hl; simpa [hl] using hid
  · have h := startJob_frame fl (s.put x { (s.jobs x) with marker := lk.marker }) x
    refine ⟨by simp [h.1], by simp [h.2.1], by simp [h.2.2.1], ?_, ?_⟩
    · rw [Restart.startJob_eq, loopHead_ready, startPrefix_ready]; simp
    · rename_i hl; simpa [hl] using hid

section phase
variable {fl : Flags} {totals : List Nat} {done0 : Nat → Bool} {d0 : Disk}

/-- one submission of the re-submission phase. -/
theorem phaseA_submit (hg : fl.readyGuarded = true) (hf : fl.resubmitRegisters = true) (ha : fl.abortRechecks = true)
    (hrel : fl.abortReleases = true) {w : W} (h : PhaseA fl totals done0 d0 w) (x : Sub)
    (hok : EvOK w.a.s (x.ev d0)) (hnd : EvNoDouble (x.ev d0)) (hid : ∀ j, j < w.a.s.n → (w.a.s.jobs j).ident ≠ x.ident)
    (hsafe : LivePid d0 x.ident → ∀ k, Origin.job k ∈ x.deps → Dn d0 (w.a.s.jobs (w.a.s.eff k)).ident) :
    PhaseA fl totals done0 d0 (w.apply fl (.sched (x.ev d0))) := by
  rcases h.queue with hr | ⟨k, hr⟩
  · obtain ⟨s1, s2, s3, _⟩ := soundA_submit0 hg hf ha h.sound hr x.ident x.deps x.code (d0.dir x.ident).done hok hnd hid
      (fun hl => hsafe ((h.disk.live _).1 hl))
    exact ⟨s1, by rw [show (w.apply fl (.sched (x.ev d0))).a.d = w.a.d from s3]; exact h.disk, Or.inr ⟨_, s2⟩⟩
  · -- the first segment of the previous submission runs first
    have hS := h.sound
    have hen : WEnabled w (.sched .step) := by show w.a.s.ready ≠ []; rw [hr]; simp
    obtain ⟨hS1, -, -⟩ := soundA_step hg hf ha hrel hS (.sched .step) hen
    have hP := hS.invP
    have hp := pop_inv hP hr
    obtain ⟨hpc, -⟩ := pre_start _ _ k (hp.loc k)
    have hpc' : (w.a.s.jobs k).pc = .created := hpc
    have hkn : k < w.a.s.n := hS.lt_of_pc k (by rw [hpc']; simp)
    have hx : w.a.adopted k = false := (hS.head_facts hr).1 k rfl |>.1
    -- what the first segment leaves unchanged
    have hfr : (stepA fl world w.a).s.n = w.a.s.n ∧ (stepA fl world w.a).s.eff = w.a.s.eff ∧
        (stepA fl world w.a).s.ntok = w.a.s.ntok ∧ (stepA fl world w.a).s.ready = [] ∧
        (∀ i, ((stepA fl world w.a).s.jobs i).ident = (w.a.s.jobs i).ident) ∧ DiskSame d0 (stepA fl world w.a).d := by
      rw [stepA_cons fl world w.a (.start k) [] hr]
      simp only [runCbA]
      split
      · obtain ⟨f1, f2, f3, f4, f5⟩ := startJobA_frame fl ({ w.a.s with ready := [] } : St) k (world.look w.a.d k (w.a.s.jobs k))
        exact ⟨f1, f2, f3, f4, f5, h.disk⟩
      · obtain ⟨f1, f2, f3, f4, f5⟩ := startJobA_frame fl ({ w.a.s with ready := [] } : St) k (world.look w.a.d k (w.a.s.jobs k))
        exact ⟨f1, f2, f3, f4, f5, h.disk⟩
    obtain ⟨f1, f2, f3, f4, f5, f6⟩ := hfr
    have hnot : NotOn w.a.s k w.a.s.n := by
      intro d ho
      by_cases hd : d < (w.a.s.jobs k).deps.length
      · have hac := hS.good.g.e.c.st.acyclic k d w.a.s.n (by rw [abs_jobs_na hx]; exact hd)
          (by rw [abs_jobs_na hx]; exact ho)
        omega
      · rw [List.getD_eq_getElem?_getD, List.getElem?_eq_none (by omega)] at ho
        simp at ho
        have : (default : Dep).origin = .job 0 := rfl
        rw [this] at ho
        injection ho with h0
        omega
    have hsplit := submit_split fl w.a k hr (by omega) hnot f1 f2 f4 x.ident x.deps x.code (d0.dir x.ident).done
    have ew : w.apply fl (.sched (x.ev d0)) = (w.apply fl (.sched .step)).apply fl (.sched (x.ev d0)) := by
      show ({ w with a := applyA fl world w.a (x.ev d0) } : W) = { (w.apply fl (.sched .step)) with a := applyA fl world (stepA fl world w.a) (x.ev d0) }
      unfold Sub.ev
      rw [hsplit]; rfl
    rw [ew]
    have ea : (w.apply fl (.sched .step)).a = stepA fl world w.a := rfl
    obtain ⟨s1, s2, s3, _⟩ := soundA_submit0 hg hf ha hS1 (by rw [ea]; exact f4) x.ident x.deps x.code (d0.dir x.ident).done
      (by
        intro o ho
        have := hok o ho
        rw [ea]
        cases o with
        | job d => simpa [f1] using this
        | tok t c => simpa [f3] using this) hnd
      (by intro j hj; rw [ea] at hj ⊢; rw [f1] at hj; rw [f5]; exact hid j hj)
      (by
        intro hl q hq
        rw [ea, f2, f5]
        exact hsafe ((f6.live _).1 (by rw [ea] at hl; exact hl)) q hq)
    refine ⟨s1, ?_, Or.inr ⟨_, s2⟩⟩
    rw [show ((w.apply fl (.sched .step)).apply fl (.sched (x.ev d0))).a.d = (w.apply fl (.sched .step)).a.d from s3, ea]
    exact f6

theorem phaseA_run (hg : fl.readyGuarded = true) (hf : fl.resubmitRegisters = true) (ha : fl.abortRechecks = true)
    (hrel : fl.abortReleases = true) (xs : List Sub) : ∀ w, PhaseA fl totals done0 d0 w → SubsOKA fl d0 w xs →
      PhaseA fl totals done0 d0 (W.run fl w (xs.map (fun x => WEv.sched (x.ev d0)))) := by
  induction xs with
  | nil => intro w h _; exact h
  | cons x xs ih =>
    intro w h hok
    obtain ⟨h1, h2, h3, h4, h5⟩ := hok
    simp only [List.map_cons, W.run]
    exact ih _ (phaseA_submit hg hf ha hrel h x h1 h2 h3 h4) h5

theorem abs_none (s : St) : abs (fun _ => false) s = s := by
  unfold abs
  have h1 : ∀ l : List (Nat × Nat), l.filter (keepP (fun _ => false)) = l := by
    intro l; apply List.filter_eq_self.mpr; intro p _; rfl
  have h2 : s.ready.filter (keepCb (fun _ => false)) = s.ready := by
    apply List.filter_eq_self.mpr; intro cb _; cases cb <;> rfl
  simp only [h1, h2, absRec]
  rfl

/-- **the world after the crash, the restart and the re-submission** satisfies the invariant of the second run. -/
theorem resubmitted_soundA (hg : fl.readyGuarded = true) (hf : fl.resubmitRegisters = true) (ha : fl.abortRechecks = true)
    (hrel : fl.abortReleases = true) {w : W} (hW : WReach fl totals done0 w) (xs : List Sub)
    (hok : SubsOKA fl w.restart.a.d w.restart xs) :
    SoundA fl totals done0 w.restart.a.d (resubmitted fl w xs) := by
  have hW' : WReach fl totals done0 w.restart := hW.apply .crash
  have h0 : PhaseA fl totals done0 w.restart.a.d w.restart := by
    refine ⟨⟨hW', ?_, ?_, ?_, ?_⟩, ⟨rfl, rfl, rfl⟩, Or.inl rfl⟩
    · show Good2 fl (abs (fun _ => false) (St.init w.totals))
      rw [abs_none]; exact good2_init hg hf ha _
    · intro j j' hj; exact absurd hj (Nat.not_lt_zero j)
    · intro i hi
      have : (w.restart.a.d.dir i).lock = if (w.a.d.dir i).lock = .sched then .free else (w.a.d.dir i).lock := rfl
      rw [this] at hi
      split at hi
      · cases hi
      · rename_i hne; exact absurd hi hne
    · have hna : ∀ j, w.restart.a.adopted j = true → False := fun j hj => by cases hj
      refine ⟨fun j hj => (hna j hj).elim, ⟨?_, ?_, ?_⟩, ?_, fun j hj => (hna j hj).elim, ?_, fun i hi => hi, ?_,
        fun j hj => (hna j hj).elim⟩
      · intro j d hm; simp [W.restart, St.init] at hm
      · intro t p hp; simp [W.restart, St.init] at hp
      · intro o p hp; simp [W.restart, St.init] at hp
      · intro j hpc; simp [W.restart, St.init] at hpc
      · intro o _; left; rfl
      · exact ⟨fun t => by simp [W.restart, St.init], fun o => by simp [W.restart, St.init]⟩
  exact (phaseA_run hg hf ha hrel xs w.restart h0 hok).sound

end phase

/-! ### the second run, adoption included -/

theorem tokFit_abs (ad : Nat → Bool) {s : St} (h : TokFit s) : TokFit (abs ad s) := by
  intro i k t c hk ho
  cases hi : ad i with
  | true => rw [abs_jobs_ad hi] at hk; simp [absJob] at hk
  | false => rw [abs_jobs_na hi] at hk ho; exact h i k t c hk ho

section final
variable {fl : Flags} {totals : List Nat} {done0 : Nat → Bool}

/-- **C11, second run with adoption**: every run of the second scheduler has at most `wmuA` events. -/
theorem restart_run_finiteA (hg : fl.readyGuarded = true) (hf : fl.resubmitRegisters = true) (ha : fl.abortRechecks = true)
    (hrel : fl.abortReleases = true) {w : W} (hW : WReach fl totals done0 w) (xs : List Sub)
    (hok : SubsOKA fl w.restart.a.d w.restart xs) (evs : List WEv) (hrun : RunE fl (resubmitted fl w xs) evs) :
    evs.length ≤ wmuA (resubmitted fl w xs) ∧
    SoundA fl totals done0 w.restart.a.d (W.run fl (resubmitted fl w xs) evs) := by
  have h0 := resubmitted_soundA hg hf ha hrel hW xs hok
  obtain ⟨h1, h2, _⟩ := soundA_run hg hf ha hrel evs _ h0 hrun
  exact ⟨by omega, h1⟩

/-- **C11, second run with adoption**: a maximal run ends with every job final, every token full, nothing held, every
    run lock free and every job process gone. -/
theorem restart_maximal_runA (hg : fl.readyGuarded = true) (hf : fl.resubmitRegisters = true) (ha : fl.abortRechecks = true)
    (hrel : fl.abortReleases = true) {w : W} (hW : WReach fl totals done0 w) (xs : List Sub)
    (hok : SubsOKA fl w.restart.a.d w.restart xs) (hfit : TokFit (resubmitted fl w xs).a.s)
    (evs : List WEv) (hrun : RunE fl (resubmitted fl w xs) evs)
    (hmax : ∀ e, ¬ WEnabled (W.run fl (resubmitted fl w xs) evs) e) :
    evs.length ≤ wmuA (resubmitted fl w xs) ∧
    SoundA fl totals done0 w.restart.a.d (W.run fl (resubmitted fl w xs) evs) ∧
    (W.run fl (resubmitted fl w xs) evs).a.s.ready = [] ∧ (W.run fl (resubmitted fl w xs) evs).a.s.threads = [] ∧
    AllFinal (W.run fl (resubmitted fl w xs) evs).a.s ∧
    (∀ t, (W.run fl (resubmitted fl w xs) evs).a.s.avail t = (W.run fl (resubmitted fl w xs) evs).a.s.total t) ∧
    (∀ j, ((W.run fl (resubmitted fl w xs) evs).a.s.jobs j).held = []) ∧
    (∀ i, ((W.run fl (resubmitted fl w xs) evs).a.d.dir i).lock = .free) ∧
    (∀ p, ((W.run fl (resubmitted fl w xs) evs).a.d.procs p).ph = .gone) ∧
    (∀ i, (W.run fl (resubmitted fl w xs) evs).a.d.running i = 0) := by
  have h0 := resubmitted_soundA hg hf ha hrel hW xs hok
  obtain ⟨h1, h2, h3⟩ := soundA_run hg hf ha hrel evs _ h0 hrun
  obtain ⟨q1, q2, q3, q4, q5⟩ := maximal_final h1 (h3 (tokFit_abs _ hfit)) hmax
  obtain ⟨d1, d2, d3⟩ := maximal_disk_idleA h1 q3 hmax
  exact ⟨by omega, h1, q1, q2, q3, q4, q5, d1, d2, d3⟩

theorem restart_maximal_run_existsA (hg : fl.readyGuarded = true) (hf : fl.resubmitRegisters = true)
    (ha : fl.abortRechecks = true) (hrel : fl.abortReleases = true) {w : W} (hW : WReach fl totals done0 w) (xs : List Sub)
    (hok : SubsOKA fl w.restart.a.d w.restart xs) :
    ∃ evs, RunE fl (resubmitted fl w xs) evs ∧ ∀ e, ¬ WEnabled (W.run fl (resubmitted fl w xs) evs) e :=
  maximal_run_existsA hg hf ha hrel _ _ (resubmitted_soundA hg hf ha hrel hW xs hok) (Nat.le_refl _)

/-- the hypotheses of the theorems without adoption (`RestartTerm.restart_run_finite_partial`: no pid file names a live
    process at the restart) imply those of the theorems with adoption: the new theorems cover every restart the old ones
    covered. -/
theorem subsOKA_of_noLivePid (d0 : Disk) (hnl : NoLivePid d0) (xs : List Sub) :
    ∀ w : W, Phase d0 w.a → SubsOK fl d0 w.a.s xs → SubsOKA fl d0 w xs := by
  induction xs with
  | nil => intro w _ _; trivial
  | cons x xs ih =>
    intro w hP hok
    obtain ⟨h1, h2, h3, h4⟩ := hok
    obtain ⟨e1, hP'⟩ := phase_submit fl d0 hnl w.a hP x.ident x.deps x.code (d0.dir x.ident).done rfl
    refine ⟨h1, h2, h3, ?_, ?_⟩
    · intro hl
      obtain ⟨p, hp1, hp2⟩ := hl
      rw [hnl _ p hp1] at hp2; cases hp2
    · apply ih _ hP'
      have es : (w.apply fl (.sched (x.ev d0))).a.s = w.a.s.apply fl (x.ev d0) := by
        show (applyA fl world w.a (x.ev d0)).s = _
        unfold Sub.ev; rw [e1]
      rw [es]; exact h4

theorem subsOKA_of_partial {w : W} (hnl : NoLivePid w.restart.a.d) (xs : List Sub)
    (hok : SubsOK fl w.restart.a.d (St.init w.totals) xs) : SubsOKA fl w.restart.a.d w.restart xs :=
  subsOKA_of_noLivePid _ hnl xs w.restart
    ⟨rfl, rfl, Restart.init_invB _ _, init_inv1 _, fun j => by simp [Restart.cRes, W.restart, St.init],
     fun j hj => by exact absurd hj (Nat.not_lt_zero j)⟩ hok

end final

/-! ### Boolean checkers (for concrete instances of the hypotheses) -/

def livePidB (d : Disk) (i : Nat) : Bool :=
  match (d.dir i).pid with
  | some p => d.alive p
  | none => false

theorem livePid_b (d : Disk) (i : Nat) (h : LivePid d i) : livePidB d i = true := by
  obtain ⟨p, hp1, hp2⟩ := h
  simp [livePidB, hp1, hp2]

def subsOKAb (fl : Flags) (d0 : Disk) : W → List Sub → Bool
  | _, [] => true
  | w, x :: xs => evOKb w.a.s (x.ev d0) && decide (EvNoDouble (x.ev d0)) &&
      (List.range w.a.s.n).all (fun j => decide ((w.a.s.jobs j).ident ≠ x.ident)) &&
      (!livePidB d0 x.ident || x.deps.all (fun o => match o with
        | .job k => (d0.dir (w.a.s.jobs (w.a.s.eff k)).ident).done
        | _ => true)) &&
      subsOKAb fl d0 (w.apply fl (.sched (x.ev d0))) xs

theorem subsOKA_of_b (fl : Flags) (d0 : Disk) (xs : List Sub) : ∀ w, subsOKAb fl d0 w xs = true → SubsOKA fl d0 w xs := by
  induction xs with
  | nil => intro _ _; trivial
  | cons x xs ih =>
    intro w h
    simp only [subsOKAb, Bool.and_eq_true, decide_eq_true_eq] at h
    obtain ⟨⟨⟨⟨h1, h2⟩, h3⟩, h4⟩, h5⟩ := h
    refine ⟨evOKb_sound _ _ h1, h2, ?_, ?_, ih _ h5⟩
    · intro j hj
      have := List.all_eq_true.mp h3 j (List.mem_range.mpr hj)
      simpa using this
    · intro hl k hk
      have hb := livePid_b _ _ hl
      simp only [hb, Bool.not_true, Bool.false_or] at h4
      have := List.all_eq_true.mp h4 _ hk
      exact this

def tokFitB (s : St) : Bool :=
  (List.range s.n).all (fun j => (s.jobs j).deps.all (fun d => match d.origin with
    | .tok t c => decide (c ≤ s.total t)
    | _ => true))

theorem tokFit_of_b {fl : Flags} {totals : List Nat} {done0 : Nat → Bool} {d0 : Disk} {w : W}
    (h : SoundA fl totals done0 d0 w) (hb : tokFitB w.a.s = true) : TokFit w.a.s := by
  intro j i t c hi ho
  have hjn : j < w.a.s.n := by
    apply Classical.byContradiction
    intro hn
    have hb' := h.good.g.e.c.st.blankDeps j (by simpa using hn)
    have hx : w.a.adopted j = false := by
      cases hx : w.a.adopted j with
      | false => rfl
      | true => exact absurd (h.ad_lt j hx) hn
    rw [abs_jobs_na hx] at hb'
    rw [hb'] at hi; simp at hi
  have h1 := List.all_eq_true.mp hb j (List.mem_range.mpr hjn)
  have hm : (w.a.s.jobs j).deps[i] ∈ (w.a.s.jobs j).deps := List.getElem_mem hi
  have h2 := List.all_eq_true.mp h1 _ hm
  have e : depAt (w.a.s.jobs j) i = (w.a.s.jobs j).deps[i] := by
    unfold depAt; rw [List.getD_eq_getElem?_getD, List.getElem?_eq_getElem hi]; rfl
  rw [e] at ho
  rw [ho] at h2
  simpa using h2

theorem wEnabledB_complete (w : W) (e : WEv) (h : WEnabled w e) : wEnabledB w e = true := by
  cases e with
  | sched ev =>
    cases ev with
    | step =>
      have h' : w.a.s.ready ≠ [] := h
      simp only [wEnabledB, Bool.not_eq_true', List.isEmpty_eq_false_iff]
      exact h'
    | deliver k =>
      obtain ⟨kind, j, c, d', hk, hg⟩ := h
      simp only [wEnabledB, hk, hg, Option.isSome_some]
    | submit _ _ _ _ => exact absurd h id
    | wait => exact absurd h id
  | proc p rm =>
    obtain ⟨h1, h2⟩ := h
    simp only [wEnabledB, Bool.and_eq_true, Bool.or_eq_true, decide_eq_true_eq]
    refine ⟨h1, ?_⟩
    rcases h2 with h2 | h2 | h2
    · exact Or.inl (Or.inl h2)
    · exact Or.inl (Or.inr h2)
    · exact Or.inr h2
  | crash => exact absurd h id
  | crashAfterSpawn j => exact absurd h id
  | crashInPrepare j st => exact absurd h id

/-- no event of the second run is enabled. -/
def stuckB (w : W) : Bool :=
  w.a.s.ready.isEmpty && (List.range w.a.s.threads.length).all (fun k => !wEnabledB w (.sched (.deliver k))) &&
  (List.range w.a.d.np).all (fun p => !wEnabledB w (.proc p false))

theorem stuck_of_b (w : W) (h : stuckB w = true) : ∀ e, ¬ WEnabled w e := by
  simp only [stuckB, Bool.and_eq_true] at h
  obtain ⟨⟨h1, h2⟩, h3⟩ := h
  intro e hen
  have hb := wEnabledB_complete w e hen
  cases e with
  | sched ev =>
    cases ev with
    | step =>
      simp only [wEnabledB, Bool.not_eq_true'] at hb
      rw [h1] at hb; cases hb
    | deliver k =>
      obtain ⟨kind, j, c, d', hk, _⟩ := hen
      have hkl : k < w.a.s.threads.length := by
        apply Classical.byContradiction; intro hn
        rw [List.getElem?_eq_none (by omega)] at hk; cases hk
      have := List.all_eq_true.mp h2 k (List.mem_range.mpr hkl)
      rw [hb] at this; cases this
    | submit _ _ _ _ => exact hen
    | wait => exact hen
  | proc p rm =>
    have := List.all_eq_true.mp h3 p (List.mem_range.mpr hen.1)
    have hb' : wEnabledB w (.proc p false) = true := wEnabledB_complete w (.proc p false) hen
    rw [hb'] at this; cases this
  | crash => exact hen
  | crashAfterSpawn j => exact hen
  | crashInPrepare j st => exact hen

end XpmVerif.RestartLive
