"""C20 — deprecating a class keeps identifiers and makes old results reachable.

(a) identifiers: class libraries (generated source, real packages) with `@deprecate` classes `OldCk(Ck)`, chains
`Old2Ck(OldCk)`, a deprecated lightweight task; graphs using the deprecated classes at random positions (root task, nested,
in lists/dicts, shared, in cycles, as pre-/init-tasks).  Monitor (implementation only): node for node the identifiers
of the graph using the replacements.  Correspondence: the Lean model (Drive/C20.lean) computes the type identifier of
every class from the class table (own identifier + `deprecatedOf`) and from it every raw/full identifier.

(c) loading: the same libraries in two versions — version 1 (the Old classes are plain classes with their own identifier)
builds the graphs and saves them (state_dict, save, params.json of a GENERATE_ONLY job) in one process, version 2 (the same source
with `@deprecate`) loads them in a fresh process (from_state_dict, load, from_task_dir).  Monitor: every loaded node, and a fresh
task taking a loaded node as parameter / list element / dict value, has the identifier of the graph built under version 2
(key `loaded-before-deprecation-keeps-old-identifier`); correspondence: the model's identifiers of the version-2 class table.

(b) the repair command: workspaces made by really running experiments (instant launcher: nothing spawned), runtime
deprecation (`Old.__xpmtype__.deprecate()`), then histories of the real `fix_deprecated` / `deprecated list` command
with every flag combination, repeated, interrupted (between and inside steps), on trees with links from earlier repairs,
dangling links (deleted directories), conflicts (two directories with one new identifier), unloadable or missing
`params.json`.  Monitors (implementation only): no job directory or file in it is lost; after a complete repair every
directory with a new identifier is reachable there (unless another directory legitimately is); a second run changes
nothing; listing changes nothing; resubmitting finds the result (no process launched).  Correspondence: tree before +
what the two `glob` calls yielded -> Lean `fixTree` -> tree after."""
import copy
import json
import random
import time
from pathlib import Path

from .. import common, identlib
from ..gen import cfggen

PROP = "C20"
MODULES = ["XpmVerif.Properties.C20", "XpmVerif.Properties.C20Load", "XpmVerif.Properties.FixSrc"]

# common.load_findings reads the assembled known_findings.json (written by the lead's tools/mkmanifest.py);
# until it is assembled, read this property's own fragment so that the check is self-contained.
_orig_load_findings = common.load_findings


def _load_findings(prop):
    import os
    frag = Path(os.environ["XV_C20_FINDINGS"]) if os.environ.get("XV_C20_FINDINGS") else common.VERIF / "known_findings.d" / f"{PROP}.json"
    if prop == PROP and frag.exists():
        return [f for f in json.loads(frag.read_text()) if f["property"] == PROP]
    return _orig_load_findings(prop)


common.load_findings = _load_findings


def known_keys():
    return {f["key"] for f in common.load_findings(PROP) if f.get("status") == "known"}


def prove(ctx):
    # Generated/FixSrc.lean: the decision structure of fix_deprecated / alias_job_files and the identifier swap of
    # ObjectType.deprecate, regenerated from the tree under test; Properties/FixSrc.lean holds the source obligations
    from ..translate import fixsrc
    msgs = fixsrc.generate(common.REPO, common.LEAN)
    for ok, msg in msgs:
        ctx.notes.append(f"translator(fixsrc): {msg}")
        ctx.count("translator_fixsrc", "translated" if msg.endswith("translated") else "fallback (untranslated shape)" if ok else "failed")
    common.check_proofs(ctx, MODULES, translate_msgs=msgs)


_WIRING = None


def cli_wiring():
    """which cleanup flag `cli/__init__.py::deprecated_list` hands to fix_deprecated (read from the current source, AST only):
    'actual' = the flag as given (Lean `cliActual`), 'documented' = `cleanup and fix` (Lean `cliDocumented`)"""
    global _WIRING
    if _WIRING is None:
        import ast
        _WIRING = "actual"
        try:
            tree = ast.parse((common.REPO / "src/experimaestro/cli/__init__.py").read_text())
            for fn in ast.walk(tree):
                if isinstance(fn, ast.FunctionDef) and fn.name == "deprecated_list":
                    assigned = any(isinstance(n, ast.Assign) and any(isinstance(t, ast.Name) and t.id == "cleanup" for t in n.targets) for n in ast.walk(fn))
                    for call in ast.walk(fn):
                        if isinstance(call, ast.Call) and getattr(call.func, "id", "") == "fix_deprecated" and len(call.args) >= 3:
                            third = call.args[2]
                            if isinstance(third, ast.BoolOp) and isinstance(third.op, ast.And) or assigned:
                                _WIRING = "documented"
        except (OSError, SyntaxError):
            pass
    return _WIRING


# ======================================================================================= (a) identifiers


def hx(s):
    return s.encode("utf-8").hex()


def gen_a_library(rng, tag, cfg_defaults=True):
    lib = cfggen.gen_library(rng, tag, with_deprecated=True, cfg_defaults=cfg_defaults and common.CFG_DEFAULTS)
    pkg = lib["pkg"]
    classes = lib["classes"]
    base = [c for c in classes if c["name"].startswith("C")]
    # every class used in a configuration-valued declared default (`x: Param[C] = C(a=1)`) has a deprecated variant: a
    # deprecated instance given where the default is an instance of the replacement must still be recognised as the default
    for cname in sorted({l["c"]["cls"] for c in base for a in c["args"] if "default" in a for l in default_literals(a["default"])}):
        if not any(c["deprecated"] and c["parent"] == cname for c in classes):
            c = next(c for c in classes if c["name"] == cname)
            classes.append({"name": f"Old{cname}", "xpmid": f"{pkg}.old{cname.lower()}", "parent": cname, "kind": c["kind"],
                            "deprecated": True, "args": []})
    if not any(c["deprecated"] for c in classes):  # at least one deprecated class per library
        c = rng.choice(base)
        classes.append({"name": f"Old{c['name']}", "xpmid": f"{pkg}.old{c['name'].lower()}", "parent": c["name"], "kind": c["kind"],
                        "deprecated": True, "args": []})
    for c in list(classes):
        if c["deprecated"] and rng.random() < 0.5:  # chains: Old2Ck(OldCk(Ck))
            classes.append({"name": "Old2" + c["name"][3:], "xpmid": f"{pkg}.old2{c['name'][3:].lower()}", "parent": c["name"],
                            "kind": c["kind"], "deprecated": True, "args": []})
    classes.append({"name": "OldLW", "xpmid": f"{pkg}.oldlw", "parent": "LW", "kind": "light", "deprecated": True, "args": []})
    for c in base:  # control: a plain subclass with its own identifier (not deprecated) must change identifiers
        if rng.random() < 0.6:
            classes.append({"name": "Sub" + c["name"], "xpmid": f"{pkg}.sub{c['name'].lower()}", "parent": c["name"], "kind": c["kind"],
                            "deprecated": False, "args": [], "twin_of": c["name"]})
    return lib


def default_literals(v):
    """the top-level configuration literals of a declared default (`C(a=1)`, items of `[C(a=1)]`, values of `{"k": C()}`)"""
    if isinstance(v, dict):
        if "c" in v:
            return [v]
        return [x for y in v.get("l", []) for x in default_literals(y)] + [x for _, y in v.get("d", []) for x in default_literals(y)]
    return []


def gen_default_spellings(rng, lib, g):
    """three spellings of one graph: a parameter with a configuration-valued declared default is (U) left unset, (B) given a
    configuration equal to the default built explicitly with the replacement class, (A) the same with a *deprecated* class.
    Returns (graph A, graph B, graph U, re-classed nodes, number of common nodes, where) or None"""
    cands = []
    for k, nd in enumerate(g["nodes"]):
        for a in cfggen.all_args(lib, nd["cls"]):
            if a["decl"] == "param" and "default" in a and cfggen.has_literal(a["default"]) \
                    and any(old_variants(lib, l["c"]["cls"]) for l in default_literals(a["default"])):
                cands.append((k, a))
    if not cands:
        return None
    k, a = rng.choice(cands)
    n0 = len(g["nodes"])
    gu, gb = copy.deepcopy(g), copy.deepcopy(g)
    gu["nodes"][k]["values"] = [kv for kv in gu["nodes"][k]["values"] if kv[0] != a["name"]]
    gb["nodes"][k]["values"] = [kv for kv in gb["nodes"][k]["values"] if kv[0] != a["name"]]
    v = cfggen.materialize(gb["nodes"], a["default"])
    gb["nodes"][k]["values"].append([a["name"], v])
    tops = [x["r"] for x in ([v] + v.get("l", []) + [y for _, y in v.get("d", [])]) if isinstance(x, dict) and "r" in x]
    ga = copy.deepcopy(gb)
    sel = []
    for t in tops:
        variants = old_variants(lib, gb["nodes"][t]["cls"])
        if variants and (not sel or rng.random() < 0.7):
            ga["nodes"][t]["cls"] = rng.choice(variants)
            sel.append(t)
    where = "default-value" + ("" if "r" in v else "-in-list" if "l" in v else "-in-dict") + ("" if k == 0 else "-nested")
    return ga, gb, gu, sorted(sel), n0, where


def old_variants(lib, cname):
    """deprecated classes standing (directly or through a chain) for `cname`"""
    res, frontier = [], [cname]
    while frontier:
        p = frontier.pop()
        for c in lib["classes"]:
            if c["deprecated"] and c["parent"] == p:
                res.append(c["name"])
                frontier.append(c["name"])
    return res


def node_position(g, k):
    """where node k occurs (for the coverage histogram)"""
    pos = set()
    if k == 0:
        pos.add("root")
    for nd in g["nodes"]:
        if k in nd["pre"]:
            pos.add("pre-task")
        if k in nd["init"]:
            pos.add("init-task")
        if nd["task"] == k:
            pos.add("producing-task")
        for _, v in nd["values"]:
            if isinstance(v, dict):
                if v.get("r") == k:
                    pos.add("argument")
                elif "l" in v and k in identlib._refs(v):
                    pos.add("in-list")
                elif "d" in v and k in identlib._refs(v):
                    pos.add("in-dict")
    return pos or {"unreferenced"}


def id_steps(g, name):
    n = len(g["nodes"])
    steps = [{"do": "build", "graph": g, "as": name}, {"do": "graph", "of": name}]
    steps += [{"do": "op", "on": name, "op": {"op": "full", "n": k}} for k in range(n)]
    steps += [{"do": "op", "on": name, "op": {"op": "raw", "n": k}} for k in range(n)]
    return steps


def gen_a(ctx, rng, nlibs, per, tag):
    libs, cases = [], []
    for li in range(nlibs):
        lib = gen_a_library(rng, f"{tag}_{ctx.seed}_{li}")
        libs.append(lib)
        for _ in range(per):
            g = cfggen.gen_graph(rng, lib, max_nodes=rng.choice([3, 6, 10]))
            cands = [(k, old_variants(lib, nd["cls"])) for k, nd in enumerate(g["nodes"])]
            cands = [(k, v) for k, v in cands if v]
            if not cands:
                continue
            rng.shuffle(cands)
            chosen = cands[:rng.choice([1, 1, 2, 3, len(cands)])]
            ga = copy.deepcopy(g)
            gc = copy.deepcopy(g)
            control = None
            for k, variants in chosen:
                ga["nodes"][k]["cls"] = rng.choice(variants)
                sub = "Sub" + g["nodes"][k]["cls"]
                if control is None and any(c["name"] == sub for c in lib["classes"]):
                    gc["nodes"][k]["cls"] = sub
                    control = k
            steps = id_steps(ga, "A") + id_steps(g, "B") + (id_steps(gc, "C") if control is not None else [])
            cases.append({"lib": li, "steps": steps, "graph_old": ga, "graph_new": g, "sel": sorted(k for k, _ in chosen),
                          "control": control, "n": len(g["nodes"])})
        for _ in range(max(2, per // 4)):
            g = cfggen.gen_graph(rng, lib, max_nodes=rng.choice([3, 6, 10]))
            sp = gen_default_spellings(rng, lib, g)
            if sp is None:
                continue
            ga, gb, gu, sel, n0, where = sp
            steps = id_steps(ga, "A") + id_steps(gb, "B") + id_steps(gu, "U")
            cases.append({"lib": li, "steps": steps, "graph_old": ga, "graph_new": gb, "graph_unset": gu, "sel": sel, "control": None,
                          "n": len(gb["nodes"]), "n0": n0, "where": where})
    return libs, cases


def split_ids(rec, n, with_control):
    outs = [o.get("id") for l, o in zip(rec["lines"], rec["impl"]) if l["op"] != "graph"]
    a = (outs[:n], outs[n:2 * n])
    b = (outs[2 * n:3 * n], outs[3 * n:4 * n])
    c = (outs[4 * n:5 * n], outs[5 * n:6 * n]) if with_control else None
    return a, b, c


def unset_ids(rec, case):
    """identifiers of the spelling that leaves the defaulted parameter unset (first n0 nodes are common to the three spellings)"""
    n, n0 = case["n"], case["n0"]
    outs = [o.get("id") for l, o in zip(rec["lines"], rec["impl"]) if l["op"] != "graph"]
    return outs[4 * n:4 * n + n0], outs[4 * n + n0:4 * n + 2 * n0]


def monitor_a(ctx, case, rec):
    n = case["n"]
    a, b, c = split_ids(rec, n, case["control"] is not None)
    for k in range(n):
        if a[0][k] != b[0][k] or a[1][k] != b[1][k]:
            pos = "+".join(sorted(node_position(case["graph_old"], case["sel"][0])))
            ctx.monitor_fail(f"deprecated-class-changes-identifier:{pos}",
                             f"node {k}: identifier {a[0][k][:16]}… with deprecated class(es) at nodes {case['sel']} "
                             f"({[case['graph_old']['nodes'][s]['cls'] for s in case['sel']]}) but {b[0][k][:16]}… with the replacement",
                             {"graph_old": case["graph_old"], "graph_new": case["graph_new"], "sel": case["sel"]})
            return False
    if c is not None:
        k = case["control"]
        ctx.count("control_subclass_changes_identifier", c[1][k] != b[1][k])
    if "graph_unset" in case:
        u = unset_ids(rec, case)
        for k in range(case["n0"]):
            if u[0][k] != b[0][k] or u[1][k] != b[1][k]:
                # the replacement spelling itself is not recognised as the default: C02's territory, not a deprecation matter
                ctx.count("a_default_spelling", "replacement instance differs from unset (not C20)")
                return True
        ctx.count("a_default_spelling", case["where"])
    return True


def class_table(lib):
    names = [c["name"] for c in lib["classes"]]
    return names, [{"id": hx(c["xpmid"]), "dep": names.index(c["parent"]) if c["deprecated"] else None} for c in lib["classes"]]


def model_lines_a(lib, case, rec):
    """one `ids` line per built graph: class indices from the spec, arguments/values from the real objects"""
    names, table = class_table(lib)
    graphs = [l for l in rec["lines"] if l["op"] == "graph"]
    specs = [case["graph_old"], case["graph_new"]]
    lines = []
    by_id = {hx(c["xpmid"]): i for i, c in enumerate(lib["classes"]) if not c["deprecated"]}
    for gl, spec in zip(graphs[:2], specs):
        nodes = []
        for k, nd in enumerate(gl["nodes"]):
            # nodes beyond the spec: the class-level default objects and their clones (cfgbuild.closure): instances of plain classes
            cls = names.index(spec["nodes"][k]["cls"]) if k < len(spec["nodes"]) else by_id[nd["typeId"]]
            nodes.append({"cls": cls, "args": nd["args"], "task": nd["task"], "meta": nd["meta"],
                          "pre": nd["pre"], "init": nd["init"]})
        lines.append({"op": "ids", "classes": table, "nodes": nodes, "sel": []})
    # the model's own re-classing (the function the theorem is about), applied until the replacements are reached
    lines.append(dict(lines[0], sel=case["sel"]))
    return lines


def correspond_a(ctx):
    rng = ctx.rng
    libs, cases = gen_a(ctx, rng, ctx.scale(6, 25), ctx.scale(40, 120), "c20a")
    res = identlib.run_cases(ctx, libs, [{"lib": c["lib"], "steps": c["steps"]} for c in cases], shards=ctx.scale(8, 16), real_flags=True)[None]
    good = []
    for case, rec in zip(cases, res):
        if rec["error"]:
            ctx.count("a_case_errors", rec["error"][:70])
            continue
        go = case["graph_old"]
        for s in case["sel"]:
            for p in node_position(go, s):
                ctx.count("a_deprecated_position", p)
            ctx.count("a_deprecated_kind", "chain" if go["nodes"][s]["cls"].startswith("Old2") else "direct")
        ctx.count("a_deprecated_nodes", len(case["sel"]))
        ctx.count("a_graph_cyclic", identlib.has_cycle(go))
        ctx.case({"part": "a", "graph_old": go, "sel": case["sel"]}, any(s != 0 for s in case["sel"]))
        monitor_a(ctx, case, rec)
        good.append((case, rec))
    if len(good) < len(cases) * 0.9:
        raise RuntimeError(f"too many unbuildable cases: {next(r['error'] for r in res if r['error'])}")
    lines, spans = [], []
    for case, rec in good:
        ls = model_lines_a(libs[case["lib"]], case, rec)
        spans.append((len(lines), len(ls)))
        lines += ls
    try:
        outs = common.run_driver("C20", lines)
    except Exception as e:
        ctx.disagree({"driver": "C20"}, None, None, f"model driver failed: {e}")
        return
    for (case, rec), (start, cnt) in zip(good, spans):
        ctx.traces_validated += 1
        n = case["n"]
        a, b, _ = split_ids(rec, n, case["control"] is not None)
        mo_a, mo_b, mo_r = outs[start:start + 3]
        graphs = [l for l in rec["lines"] if l["op"] == "graph"]
        names, _ = class_table(libs[case["lib"]])
        what = None
        for gl, spec, mo in ((graphs[0], case["graph_old"], mo_a), (graphs[1], case["graph_new"], mo_b)):
            for nd, sn in zip(gl["nodes"], spec["nodes"]):
                if mo["eff"][names.index(sn["cls"])] != nd["typeId"]:
                    what = f"type identifier of class {sn['cls']}: model {bytes.fromhex(mo['eff'][names.index(sn['cls'])])!r} real {bytes.fromhex(nd['typeId'])!r}"
        if what is None and (mo_a["full"][:n] != a[0] or mo_a["raw"][:n] != a[1]):
            what = "identifiers of the graph with deprecated classes differ between model and implementation"
        if what is None and (mo_b["full"][:n] != b[0] or mo_b["raw"][:n] != b[1]):
            what = "identifiers of the graph with replacements differ between model and implementation"
        if what is None and (mo_r["full"] != mo_a["full"] or mo_r["raw"] != mo_a["raw"]):
            what = "model: re-classing changed an identifier (contradicts sig_deprecated)"
        if what:
            ctx.disagree({"part": "a", "graph_old": case["graph_old"], "sel": case["sel"]}, {"a": mo_a, "b": mo_b}, {"a": a, "b": b}, what)


# ======================================================================================= (c) saved before the deprecation, loaded after it


def gen_c(ctx, rng, nlibs, per, tag):
    """libraries in two versions (v1: the Old classes are plain classes with their own identifier; v2: the same source with
    @deprecate) + graphs using the Old classes, saved under v1 and loaded under v2 in fresh processes"""
    libs, cases = [], []
    for li in range(nlibs):
        lib = gen_a_library(rng, f"{tag}_{ctx.seed}_{li}", cfg_defaults=False)
        lib["classes"].append({"name": "Wrap", "xpmid": f"{lib['pkg']}.wrap", "parent": None, "kind": "task", "deprecated": False, "twin_of": "-",
                               "args": [{"name": "item", "decl": "param", "ty": {"cfg": "Config"}, "optional": True},
                                        {"name": "items", "decl": "param", "ty": {"list": {"cfg": "Config"}}, "optional": False},
                                        {"name": "named", "decl": "param", "ty": {"dict": {"cfg": "Config"}}, "optional": False}]})
        libs.append(lib)
        kinds = {c["name"]: c["kind"] for c in lib["classes"]}
        for _ in range(per):
            g = cfggen.gen_graph(rng, lib, max_nodes=rng.choice([3, 6, 10]), cycles=rng.random() < 0.3)
            cands = [(k, old_variants(lib, nd["cls"])) for k, nd in enumerate(g["nodes"])]
            cands = [(k, v) for k, v in cands if v]
            if not cands:
                continue
            rng.shuffle(cands)
            chosen = cands[:rng.choice([1, 1, 2, 3, len(cands)])]
            ga = copy.deepcopy(g)
            for k, variants in chosen:
                ga["nodes"][k]["cls"] = rng.choice(variants)
            cases.append({"id": len(cases), "lib": li, "graph": ga, "sel": sorted(k for k, _ in chosen),
                          "root_is_task": kinds[ga["nodes"][0]["cls"]] == "task"})
    return libs, cases


def run_c(ctx, libs, cases, shards):
    """phase 1 (version 1, save) then phase 2 (version 2, load), each in fresh processes; returns (save records, load records)"""
    from concurrent.futures import ThreadPoolExecutor

    tmp = ctx.tmpdir()
    nsh = max(1, min(shards, len(libs)))
    run_id = f"{int(time.time() * 1000) % 10 ** 9}"
    parts = []
    for sh in range(nsh):
        lis = [li for li in range(len(libs)) if li % nsh == sh]
        pcases = [dict(c, lib=lis.index(c["lib"])) for c in cases if c["lib"] in lis]
        parts.append((sh, lis, pcases))
    res = {}
    for mode in ("save", "load"):
        def payload(sh, lis, pcases):
            ls = [libs[li] for li in lis]
            if mode == "save":
                ls = [dict(l, classes=[dict(c, deprecated=False) for c in l["classes"]]) for l in ls]
            return {"mode": mode, "root": str(tmp / f"c20c-{run_id}-{sh}"), "libs": ls,
                    "cases": [{"id": c["id"], "lib": c["lib"], "graph": c["graph"], "sel": c["sel"], "root_is_task": c["root_is_task"]} for c in pcases]}
        with ThreadPoolExecutor(max_workers=16) as ex:
            futs = [(pcases, ex.submit(identlib.run_worker, payload(sh, lis, pcases), tmp, f"c20c-{run_id}-{mode}-{sh}", None, "xv.impl.c20_worker"))
                    for sh, lis, pcases in parts]
            out = {}
            for pcases, fut in futs:
                for c, r in zip(pcases, fut.result()):
                    out[c["id"]] = r
        res[mode] = [out[c["id"]] for c in cases]
    return res["save"], res["load"]


LOADED_KEY = "loaded-before-deprecation-keeps-old-identifier"


def evaluate_c(ctx, libs, cases, srecs, lrecs, with_model=True):
    good = []
    nerr = 0
    for case, sr, lr in zip(cases, srecs, lrecs):
        if sr["error"] or lr["error"]:
            nerr += 1
            ctx.count("c_case_errors", (sr["error"] or lr["error"])[:80])
            continue
        for v, ok in sr["saved"].items():
            ctx.count("c_saved", f"{v}: {'yes' if ok is True else str(ok)[:60]}")
        for v, e in lr["load_errors"].items():
            ctx.count("c_load_errors", f"{v.rstrip('0123456789')}: {e[:70]}")
        exp = lr["expected"]
        old = sr["old"]
        go = case["graph"]
        for k in case["sel"]:
            ctx.count("c_former_identifier_differs", old[k][0] != exp[k][0])
            for p in node_position(go, k):
                ctx.count("c_deprecated_position", p)
        failed = False
        for v, rows in lr["variants"].items():
            ctx.count("c_loaded", f"{v}: {len(rows)} nodes" if len(rows) < 4 else f"{v}: 4+ nodes")
            for k, full, raw in rows:
                if (full, raw) != (exp[k][0], exp[k][1]) and not failed:
                    failed = True
                    former = "its former identifier" if full == old[k][0] else "another identifier"
                    ctx.monitor_fail(LOADED_KEY,
                                     f"{v}: node {k} ({go['nodes'][k]['cls']}) of a graph saved while the classes {sorted({go['nodes'][s]['cls'] for s in case['sel']})} "
                                     f"were plain classes and loaded after they were marked @deprecate has {former} {full[:16]}… (raw {raw[:16]}…); the same graph built now "
                                     f"(= with the replacement classes) has {exp[k][0][:16]}… (raw {exp[k][1][:16]}…)",
                                     {"part": "c", "lib": libs[case["lib"]], "graph": go, "sel": case["sel"], "root_is_task": case["root_is_task"], "variant": v})
        for k, got, want in lr["wrap"]:
            ctx.count("c_fresh_task_with_loaded_parameter", got == want)
            if got != want and not failed:
                failed = True
                ctx.monitor_fail(LOADED_KEY,
                                 f"fresh task taking loaded node {k} ({go['nodes'][k]['cls']}, saved before its class was deprecated) as parameter / list element / dict value "
                                 f"has identifier {got[:16]}…, with the freshly built node {want[:16]}…: the job would be stored and looked up in another directory",
                                 {"part": "c", "lib": libs[case["lib"]], "graph": go, "sel": case["sel"], "root_is_task": case["root_is_task"], "variant": "fresh-task-parameter"})
        ctx.case({"part": "c", "graph": go, "sel": case["sel"]}, any(s != 0 for s in case["sel"]) and bool(lr["variants"]))
        good.append((case, lr))
    if nerr > len(cases) * 0.15:
        bad = next(r for pair in zip(srecs, lrecs) for r in pair if r["error"])
        raise RuntimeError(f"too many failing save/load cases ({nerr}/{len(cases)}): {bad['error']} {bad.get('trace', '')[-600:]}")
    if not with_model or not good:
        return
    lines = []
    for case, lr in good:
        names, table = class_table(libs[case["lib"]])
        by_id = {hx(c["xpmid"]): i for i, c in enumerate(libs[case["lib"]]["classes"]) if not c["deprecated"]}
        sn = case["graph"]["nodes"]
        lines.append({"op": "ids", "classes": table, "sel": [],
                      "nodes": [{"cls": names.index(sn[k]["cls"]) if k < len(sn) else by_id[nd["typeId"]],
                                 "args": nd["args"], "task": nd["task"], "meta": nd["meta"], "pre": nd["pre"], "init": nd["init"]}
                                for k, nd in enumerate(lr["nodes"])]})
    try:
        outs = common.run_driver("C20", lines)
    except Exception as e:
        ctx.disagree({"driver": "C20"}, None, None, f"model driver failed: {e}")
        return
    for (case, lr), mo in zip(good, outs):
        ctx.traces_validated += 1
        exp = lr["expected"]
        what = None
        if mo["full"][:len(exp)] != [e[0] for e in exp] or mo["raw"][:len(exp)] != [e[1] for e in exp]:
            what = "identifiers of the freshly built graph (version 2) differ between model and implementation"
        else:
            for v, rows in lr["variants"].items():
                for k, full, raw in rows:
                    if (full, raw) != (mo["full"][k], mo["raw"][k]) and what is None:
                        what = f"{v}: identifier of loaded node {k} differs from the model's identifier of the deprecated class (sig_deprecated: that of the replacement)"
        if what:
            ctx.disagree({"part": "c", "graph": case["graph"], "sel": case["sel"]}, {"full": mo["full"], "raw": mo["raw"]},
                         {"expected": exp, "loaded": lr["variants"]}, what)


def correspond_c(ctx):
    """stand-alone form (part (c) only); `correspond` runs the same steps next to part (b)"""
    libs, cases = gen_c(ctx, ctx.rng, ctx.scale(4, 24), ctx.scale(30, 100), "c20c")
    t0 = time.time()
    srecs, lrecs = run_c(ctx, libs, cases, shards=ctx.scale(4, 12))
    evaluate_c(ctx, libs, cases, srecs, lrecs)
    ctx.notes.append(f"(c) {len(cases)} graphs saved under version 1 and loaded under version 2: {time.time() - t0:.1f}s")


# ======================================================================================= (b) the repair command


def gen_ws_lib(rng, tag):
    """NewC0/NewC1 configurations, NewT0/NewT1 tasks, each with an Old (own identifier, *not yet* deprecated: deprecation
    happens at run time) and an Old2(Old) class; OldT either keeps the last component of the identifier (class moved to
    another module) or not (class renamed: the job's script and marker files are named after it)."""
    pkg = f"xvws_{tag}"
    cl = [{"name": "LW", "xpmid": f"{pkg}.lw", "parent": None, "kind": "light", "deprecated": False,
           "args": [{"name": "v", "decl": "param", "ty": "int", "optional": False}]}]
    for i in range(2):
        cl.append({"name": f"NewC{i}", "xpmid": f"{pkg}.newc{i}", "parent": None, "kind": "config", "deprecated": False,
                   "args": [{"name": "a", "decl": "param", "ty": "int", "optional": False}]})
        cl.append({"name": f"OldC{i}", "xpmid": f"{pkg}.oldc{i}", "parent": f"NewC{i}", "kind": "config", "deprecated": False, "args": []})
        cl.append({"name": f"Old2C{i}", "xpmid": f"{pkg}.old2c{i}", "parent": f"OldC{i}", "kind": "config", "deprecated": False, "args": []})
    renamed = [False, False]
    for j in range(2):
        cl.append({"name": f"NewT{j}", "xpmid": f"{pkg}.newt{j}", "parent": None, "kind": "task", "deprecated": False,
                   "args": [{"name": "x", "decl": "param", "ty": "int", "optional": False},
                            {"name": "c", "decl": "param", "ty": {"cfg": "NewC0"}, "optional": True},
                            {"name": "cs", "decl": "param", "ty": {"list": {"cfg": "NewC1"}}, "optional": False},
                            # declared defaults that are configurations of the replacement classes: `d: Param[NewC0] = NewC0(a=1)`
                            {"name": "d", "decl": "param", "ty": {"cfg": "NewC0"}, "optional": False,
                             "default": {"c": {"cls": "NewC0", "kw": [["a", 1]]}}},
                            {"name": "dl", "decl": "param", "ty": {"list": {"cfg": "NewC1"}}, "optional": False,
                             "default": {"l": [{"c": {"cls": "NewC1", "kw": [["a", 1]]}}]}}]})
        renamed[j] = rng.random() < 0.35
        oid = f"{pkg}.oldt{j}" if renamed[j] else f"{pkg}.legacy.newt{j}"
        cl.append({"name": f"OldT{j}", "xpmid": oid, "parent": f"NewT{j}", "kind": "task", "deprecated": False, "args": []})
        cl.append({"name": f"Old2T{j}", "xpmid": f"{pkg}.legacy2.newt{j}", "parent": f"OldT{j}", "kind": "task", "deprecated": False, "args": []})
    return {"pkg": pkg, "enums": [], "classes": cl, "renamed": renamed}


def gen_spec(rng):
    j = rng.randrange(2)
    cls = rng.choice([f"NewT{j}", f"OldT{j}", f"OldT{j}", f"Old2T{j}"])
    spec = {"cls": cls, "x": rng.choice([1, 1, 2, 3]), "c": None, "cs": [], "init": []}
    if rng.random() < 0.6:
        spec["c"] = {"cls": rng.choice(["NewC0", "OldC0", "OldC0", "Old2C0"]), "a": rng.choice([1, 1, 2])}
    for _ in range(rng.choice([0, 0, 1, 2])):
        spec["cs"].append({"cls": rng.choice(["NewC1", "OldC1", "Old2C1"]), "a": rng.choice([1, 2])})
    # the value of a parameter whose declared default is NewC0(a=1) / [NewC1(a=1)]: unset, the replacement class, a deprecated class
    r = rng.random()
    if r < 0.35:
        spec["dv"] = {"cls": rng.choice(["NewC0", "OldC0", "OldC0", "Old2C0"]), "a": rng.choice([1, 1, 1, 2])}
    elif r < 0.5:
        spec["dl"] = [{"cls": rng.choice(["NewC1", "OldC1", "OldC1", "Old2C1"]), "a": rng.choice([1, 1, 2])}]
    return spec


def uses(spec, prefix):
    return spec["cls"].startswith(prefix) or (spec["c"] and spec["c"]["cls"].startswith(prefix)) or any(s["cls"].startswith(prefix) for s in spec["cs"]) \
        or bool(spec.get("dv") and spec["dv"]["cls"].startswith(prefix)) or any(s["cls"].startswith(prefix) for s in spec.get("dl") or [])


def gen_fix_op(rng, allow_interrupt=True, allow_rel=True):
    fx, cl = rng.choice([(True, False)] * 4 + [(True, True)] * 4 + [(False, False), (False, True)])
    op = {"op": "fix", "fix": fx, "cleanup": cl, "via": "cli" if rng.random() < 0.3 else "api", "rel": False, "interrupt": None}
    if allow_interrupt and rng.random() < 0.15:
        op["interrupt"] = rng.choice([1, 2, 2, 3, 4, 5, 6, 8])
    elif allow_rel and rng.random() < 0.06:
        op["rel"] = True
    return op


def gen_ws_case(rng, tag, init_rate=0.12):
    lib = gen_ws_lib(rng, tag)
    specs = []
    for _ in range(rng.choice([2, 3, 4, 5, 6])):
        s = gen_spec(rng)
        if s not in specs:
            specs.append(s)
    if rng.random() < 0.35 and specs:  # a conflict: the same job through the replacement class
        s = copy.deepcopy(rng.choice(specs))
        s["cls"] = "NewT" + s["cls"][-1]
        if s not in specs:
            specs.append(s)
    if rng.random() < init_rate:
        rng.choice(specs)["init"] = [rng.choice([1, 2, 3]) for _ in range(rng.choice([1, 2]))]
    n = len(specs)
    ops = []
    first = sorted(rng.sample(range(n), rng.randint(max(1, n - 1), n)))
    ops.append({"op": "run", "jobs": first})
    pending = [i for i in range(n) if i not in first]
    olds = ["OldC0", "OldC1", "OldT0", "OldT1"]
    gen1 = [c for c in olds if rng.random() < 0.7] or [rng.choice(olds)]
    gen1b = [c.replace("Old", "Old2") for c in gen1 if rng.random() < 0.6]
    ops.append({"op": "deprecate", "classes": gen1 + gen1b})
    deprecated = set(gen1 + gen1b)
    ndata = len(first)

    def fix_block():
        nonlocal ndata
        for _ in range(rng.choice([1, 1, 2, 3])):
            r = rng.random()
            if r < 0.10 and ndata:
                ops.append({"op": "rmdir", "data": rng.randrange(ndata)})
            elif r < 0.15 and ndata:
                ops.append({"op": "rmparams", "data": rng.randrange(ndata)})
            elif r < 0.20 and ndata:
                ops.append({"op": "breakparams", "data": rng.randrange(ndata)})
            op = gen_fix_op(rng)
            ops.append(op)
            if op["interrupt"] is None and not op["rel"] and rng.random() < 0.5:
                ops.append(dict(op, via="api"))  # an immediate second run

    fix_block()
    if rng.random() < 0.5:
        # resubmission, spelled as submitted or with the replacement classes (defaulted parameters left unset)
        ops.append({"op": "resubmit", "jobs": list(range(n)), "canonical": rng.random() < 0.5})
        ndata = n + 2
    if rng.random() < 0.45:  # a second generation: more jobs, more deprecations, repairs on an already repaired tree
        if pending:
            ops.append({"op": "run", "jobs": pending})
        gen2 = [c for c in olds if c not in deprecated and rng.random() < 0.8]
        gen2b = [c.replace("Old", "Old2") for c in olds if c.replace("Old", "Old2") not in deprecated and (c in deprecated or c in gen2) and rng.random() < 0.7]
        if gen2 + gen2b:
            ops.append({"op": "deprecate", "classes": gen2 + gen2b})
        fix_block()
        if rng.random() < 0.6:
            ops.append({"op": "resubmit", "jobs": list(range(n)), "canonical": rng.random() < 0.5})
    return {"lib": lib, "jobs": specs, "ops": ops}


# ---- evaluation of one executed case


def canon_tree(snap):
    """key -> ('d', data) | ('l', target key | None)"""
    out = {}
    for key, ent in snap:
        k = tuple(key)
        if "d" in ent:
            out[k] = ("d", ent["d"])
        else:
            out[k] = ("l", tuple(ent["l"]) if ent["l"] else None)
    return out


def resolves_to(snap, key, depth=41):
    """directory key the location leads to (through links), or None"""
    t = canon_tree(snap)
    k = tuple(key)
    for _ in range(depth):
        e = t.get(k)
        if e is None:
            return None
        if e[0] == "d":
            return k
        if e[1] is None:
            return None
        k = e[1]
    return None


def tree_features(snap):
    t = canon_tree(snap)
    links = [k for k, e in t.items() if e[0] == "l"]
    dangling = [k for k in links if resolves_to(snap, k) is None]
    return {"dirs": sum(1 for e in t.values() if e[0] == "d"), "links": len(links), "dangling": len(dangling)}


class CaseEval:
    """monitors and model lines of one executed workspace case"""

    def __init__(self, ctx, case, rec, known):
        self.ctx, self.case, self.rec, self.known = ctx, case, rec, known
        self.broken, self.noparams = set(), set()
        self.model_jobs = []  # (model line, expected canonical tree, description)
        self.failed_keys = set()

    def fail(self, key, what, opi):
        self.failed_keys.add(key)
        self.ctx.monitor_fail(key, what, {"part": "b", "lib": self.case["lib"], "jobs": self.case["jobs"], "ops": self.case["ops"][:opi + 1]})
        self.ctx.count("b_monitor_failures", key)

    def spec_class(self, i):
        """finding classes a job spec belongs to (keys name the failing input class)"""
        s = self.case["jobs"][i]
        tags = []
        j = int(s["cls"][-1])
        if (s["cls"].startswith("OldT") or s["cls"].startswith("Old2T")) and self.case["lib"]["renamed"][j]:
            tags.append("renamed-task")
        return tags

    def run(self):
        ctx = self.ctx
        recs = self.rec["records"]
        last_complete_fix = None  # index of a complete repair (fix=True) with nothing in between
        for oi, r in enumerate(recs):
            op = r["op"]
            k = op["op"]
            if k in ("rmdir", "rmparams", "breakparams"):
                if r["done"]:
                    if k == "breakparams":
                        self.broken.add(op["data"])
                    if k == "rmparams":
                        self.noparams.add(op["data"])
                last_complete_fix = None
            elif k == "deprecate" or k == "run":
                if k == "run":
                    self.relaunched(r)
                last_complete_fix = None
            elif k == "fix":
                self.eval_fix(oi, r, recs[oi - 1] if oi else None)
                # the resubmission monitor follows every complete repair, whatever the other monitors said about it
                complete = r["interrupted"] is None and r["cmd_error"] is None
                last_complete_fix = oi if (complete and op["fix"]) else None
            elif k == "resubmit":
                if last_complete_fix is not None:
                    self.eval_resubmit(oi, r, recs[last_complete_fix])
                self.relaunched(r)
                last_complete_fix = None

    def relaunched(self, r):
        """a job that ran (again) has written a fresh params.json into its directory"""
        t = canon_tree(r["after"])
        for j in r["jobs"]:
            if j["launched"]:
                k = resolves_to(r["after"], j["rel"])
                if k is not None:
                    self.broken.discard(t[k][1])
                    self.noparams.discard(t[k][1])

    # -- one call of the command
    def eval_fix(self, oi, r, prev):
        ctx = self.ctx
        op = r["op"]
        before, after = r["before"], r["after"]
        tb, ta = canon_tree(before), canon_tree(after)
        expected = {int(d): tuple(v) for d, v in r["expected"].items()}
        spec_of = {int(d): i for d, i in r["spec_of"].items()}
        flags = ("fix" if op["fix"] else "") + ("+cleanup" if op["cleanup"] else "") or "list"
        ctx.count("b_fix_flags", flags)
        ctx.count("b_fix_via", op["via"] + ("+relative-path" if op["rel"] else ""))
        ctx.count("b_interrupted", r["interrupted"] or "no")
        feats = tree_features(before)
        ctx.count("b_tree_links_before", min(feats["links"], 4))
        ctx.count("b_tree_dangling_before", min(feats["dangling"], 3))
        complete = r["interrupted"] is None and r["cmd_error"] is None
        ok = True
        if r["cmd_error"]:
            self.fail("command-crashed", f"the repair command raised {r['cmd_error']} (flags {flags})", oi)
            ok = False
        # M1: nothing is lost — every directory (identified by its content tag) still exists once, with all its files
        files_b = {e["d"]: (tuple(k), set(e["files"])) for k, e in before if "d" in e}
        files_a = {e["d"]: (tuple(k), set(e["files"])) for k, e in after if "d" in e}
        for d, (kb, fb) in files_b.items():
            if d not in files_a:
                self.fail("job-data-deleted", f"{flags}: directory {'/'.join(kb)} (data {d}) no longer exists anywhere", oi)
                ok = False
            else:
                lost = {f for f in fb if not f.endswith(".tmp")} - files_a[d][1]
                if lost:
                    self.fail("job-data-deleted", f"{flags}: files {sorted(lost)} of {'/'.join(kb)} are gone", oi)
                    ok = False
                moved = files_a[d][0] != kb
                if moved and not (op["fix"] and op["cleanup"]):
                    self.fail("moved-without-cleanup", f"{flags}: directory {'/'.join(kb)} was renamed to {'/'.join(files_a[d][0])}", oi)
                    ok = False
        if len(files_a) != len([1 for _, e in after if "d" in e]):
            self.fail("job-data-duplicated", f"{flags}: two directories carry the same content tag", oi)
            ok = False
        # M5: listing must not change anything (the command line says it ignores --cleanup without --fix)
        if complete and not op["fix"] and ta != tb:
            gone = sorted("/".join(k) for k in tb if k not in ta)
            if op["cleanup"] and op["via"] == "cli":
                self.fail("list-without-fix-changes-tree:cli-cleanup", f"`deprecated list --cleanup` (without --fix, announced as ignored) removed {gone}", oi)
            elif op["cleanup"]:
                pass  # fix_deprecated(path, False, True) called directly: the function's own contract is unspecified; covered by the model
            else:
                self.fail("list-changes-tree", f"listing changed the tree: removed {gone}", oi)
            ok = ok and not (op["cleanup"] and op["via"] == "cli")
        # M0: first sentence of C20 on the jobs of the workspace: the spelling a job was submitted with (deprecated classes) and its
        # replacement spelling (replacement classes, a parameter equal to its declared default left unset) have one identifier
        for d, key_spelled in (r.get("as_spelled") or {}).items():
            if int(d) in expected and tuple(key_spelled) != expected[int(d)]:
                spec = self.case["jobs"][spec_of[int(d)]]
                where = "default-value" if (spec.get("dv") or spec.get("dl")) else "argument"
                self.fail(f"deprecated-class-changes-identifier:job:{where}",
                          f"job {spec} has the identifier {key_spelled[0]}/{key_spelled[1][:12]}… as submitted but {expected[int(d)][0]}/{expected[int(d)][1][:12]}… "
                          f"when spelled with the replacement classes (a parameter equal to its declared default left unset)", oi)
                ok = False
                break
        # M2 / M6: after a complete repair every directory is reachable under the identifier a resubmission computes
        if complete and op["fix"]:
            by_key = {}
            for d, (ka, _) in files_a.items():
                if d in expected and d not in self.broken and d not in self.noparams:
                    by_key.setdefault(expected[d], []).append(d)
            for d, (ka, _) in files_a.items():
                if d not in expected or d in self.broken or d in self.noparams:
                    continue
                nk = expected[d]
                kb = files_b[d][0] if d in files_b else ka
                tags = self.spec_class(spec_of[d]) if spec_of.get(d) is not None else []
                if nk[1] == kb[1]:
                    if ka != kb:
                        self.fail("up-to-date-directory-moved", f"{flags}: {'/'.join(kb)} already carries the identifier a resubmission computes "
                                  f"but was renamed to {'/'.join(ka)}", oi)
                        ok = False
                    continue
                r_after = resolves_to(after, nk)
                if r_after == ka:
                    ctx.count("b_reachable", "moved" if ka == nk else "linked")
                    continue
                r_before = resolves_to(before, nk)
                other_claims = len(by_key.get(nk, [])) > 1
                if r_after is not None and (other_claims or (r_before is not None and r_before != kb)):
                    ctx.count("b_reachable", "blocked by another directory (conflict)")
                    continue
                cls = ":relative-path" if (op["rel"] and not op["cleanup"]) else ""
                self.fail("new-identifier-not-reachable" + cls,
                          f"{flags} via {op['via']}: directory {'/'.join(kb)} has the new identifier {nk[0]}/{nk[1][:12]}… but that location "
                          f"{'leads nowhere' if r_after is None else 'leads to ' + '/'.join(r_after)} afterwards (link target: {dict((tuple(k), e) for k, e in after).get(nk)})", oi)
                ok = False
            # entries that are nobody's identifier
            wanted = set(expected.values())
            for kx, e in ta.items():
                if kx not in tb and kx not in wanted:
                    owner = None
                    if e[0] == "l" and e[1] in ta and ta[e[1]][0] == "d":
                        owner = ta[e[1]][1]
                    elif e[0] == "d":
                        owner = e[1]
                    cls = ":relative-path" if (op["rel"] and not op["cleanup"]) else ""
                    self.fail("entry-under-wrong-identifier" + cls,
                              f"{flags}: new entry {'/'.join(kx)} ({'link' if e[0] == 'l' else 'directory'}) is not the identifier any submitted job computes", oi)
                    ok = False
        # M3: an immediate second run changes nothing
        if complete and prev is not None and prev["op"]["op"] == "fix" and prev["interrupted"] is None and prev["cmd_error"] is None \
                and (prev["op"]["fix"], prev["op"]["cleanup"]) == (op["fix"], op["cleanup"]) and not prev["op"]["rel"] and not op["rel"] \
                and (op["fix"] or not op["cleanup"] or prev["op"]["via"] == op["via"]):  # `list --cleanup`: CLI and function may differ
            ctx.count("b_second_run", "same" if ta == tb else "changed")
            if ta != tb:
                diff = sorted("/".join(k) for k in set(ta) ^ set(tb)) or sorted("/".join(k) for k in ta if ta[k] != tb.get(k))
                self.fail("second-run-changes-tree", f"{flags}: a second run changed {diff}", oi)
                ok = False
        # correspondence with the Lean model: complete runs and runs interrupted between two steps
        if (complete or r["interrupted"] == "glob") and not (self.failed_keys & self.known):
            self.model_jobs.append(self.model_line(oi, r, tb, ta, expected))
        elif self.failed_keys & self.known:
            ctx.count("b_model_compared", "skipped (case hits a known finding)")
        else:
            ctx.count("b_model_compared", "skipped (interrupted inside a step: monitors only)")
        changed = ta != tb
        ctx.case({"part": "b", "jobs": self.case["jobs"], "ops": self.case["ops"][:oi + 1]}, changed or feats["links"] > 0)
        ctx.count("b_tree_changed", changed)
        return complete and ok

    def model_line(self, oi, r, tb, ta, expected):
        op = r["op"]
        names_t, names_i = {}, {}

        def key(k):
            if k is None:
                k = ("<outside>", "<outside>")
            return [names_t.setdefault(k[0], len(names_t)), names_i.setdefault(k[1], len(names_i))]

        tree = []
        for k, e in tb.items():
            if e[0] == "d":
                d = e[1]
                has_params = dict((tuple(kk), ee) for kk, ee in r["before"])[k]["params"]
                if not has_params:
                    p = None
                elif d in self.broken:
                    p = "broken"
                elif d in expected:
                    p = key(expected[d])
                else:
                    p = "broken"
                tree.append(key(k) + [{"d": d, "p": p}])
            else:
                tree.append(key(k) + [{"l": key(e[1])}])
        globs = r["globs"]
        if op["cleanup"] and (op["fix"] or not (op["via"] == "cli" and cli_wiring() == "documented")):
            ks1 = globs[0] if globs else []
            ks2 = globs[1] if len(globs) > 1 else []
        else:
            ks1, ks2 = [], (globs[0] if globs else [])
        if r["interrupted"] == "glob":  # the path at which the command was interrupted was never handed to the loop body
            pass
        cleanup = op["cleanup"] and (op["fix"] or not (op["via"] == "cli" and cli_wiring() == "documented"))
        line = {"op": "fix", "fix": op["fix"], "cleanup": cleanup, "tree": tree,
                "ks1": [key(tuple(k)) for k in ks1], "ks2": [key(tuple(k)) for k in ks2]}
        want = sorted((key(k) + [{"d": e[1]} if e[0] == "d" else {"l": key(e[1])}]) for k, e in ta.items())
        return line, want, oi

    # -- resubmission after a complete repair
    def eval_resubmit(self, oi, r, fixrec):
        ctx = self.ctx
        files = {e["d"]: tuple(k) for k, e in fixrec["after"] if "d" in e}
        spec_dirs = {}
        for d, i in fixrec["spec_of"].items():
            if i is not None and int(d) in files and int(d) not in self.broken and int(d) not in self.noparams:
                spec_dirs.setdefault(i, []).append(int(d))
        for j in r["jobs"]:
            i = j["job"]
            if i not in spec_dirs:
                continue  # never run, or its directory was deleted / made unloadable by the history
            if j["state"] in ("SKIPPED-DANGLING-LOCATION", "DUPLICATE-IN-EXPERIMENT"):
                ctx.count("b_resubmit_not_submitted_by_harness", j["state"])  # the harness's own choice, never a verdict
                continue
            if j["launched"] or j["state"] != "DONE":
                tags = set(self.spec_class(i))
                # the directory found at the job's location may be another job's (same new identifier): its marker files count
                at = resolves_to(fixrec["after"], j["rel"])
                if at is not None:
                    owner = fixrec["spec_of"].get(str(canon_tree(fixrec["after"])[at][1]))
                    if owner is not None:
                        tags |= set(self.spec_class(owner))
                tags = sorted(tags)
                cls = ":" + "+".join(tags) if tags else ""
                self.fail("resubmit-misses-result" + cls,
                          f"after `{'fix' + ('+cleanup' if fixrec['op']['cleanup'] else '')}` the job {self.case['jobs'][i]} was "
                          f"{'launched again' if j['launched'] else 'left in state ' + j['state']} at {'/'.join(j['rel'])[:60]}… although its result exists in "
                          f"{['/'.join(files[d])[:50] for d in spec_dirs[i]]}", oi)
            else:
                ctx.count("b_resubmit_found_result", "+".join(self.spec_class(i)) or "plain")


def run_ws_cases(ctx, cases, shards):
    res = identlib.run_cases(ctx, [], cases, shards=shards, module="xv.impl.c20_worker")[None]
    return res


def evaluate_ws(ctx, cases, res, with_model=True):
    known = known_keys()
    jobs = []
    nerr = 0
    for case, rec in zip(cases, res):
        if rec["error"] and rec["error"].startswith("TimeoutError"):
            # an experiment of the case never ended (e.g. the resubmitted task cannot read its own result files): that is an
            # observation about the code under test, not a harness failure
            ctx.count("b_case_timeouts", 1)
            ctx.monitor_fail("experiment-never-ends-after-repair",
                             f"a run of the workspace history {[o.get('op') for o in case.get('ops', [])]} did not end within its time limit "
                             f"(resubmitting after the repair hangs or fails to read the moved result)", {"ws_case": case})
            continue
        if rec["error"] == "worker gave up after a stuck case":
            ctx.count("b_cases_skipped_after_stuck_case", 1)
            continue
        if rec["error"]:
            nerr += 1
            ctx.count("b_case_errors", rec["error"][:80])
            if nerr <= 2:
                ctx.notes.append(f"workspace case error: {rec['error']} {rec.get('trace', '')[-600:]}")
            continue
        ev = CaseEval(ctx, case, rec, known)
        ev.run()
        for op in case["ops"]:
            ctx.count("b_ops", op["op"])
        jobs += [(case, j) for j in ev.model_jobs]
    if nerr > len(cases) * 0.1:
        raise RuntimeError(f"too many failing workspace cases ({nerr}/{len(cases)}): {next(r['error'] + r.get('trace', '') for r in res if r['error'])}")
    if not with_model or not jobs:
        return
    try:
        outs = common.run_driver("C20", [j[0] for _, j in jobs])
    except Exception as e:
        ctx.disagree({"driver": "C20"}, None, None, f"model driver failed: {e}")
        return
    for (case, (line, want, oi)), out in zip(jobs, outs):
        ctx.traces_validated += 1
        got = sorted((e[:2] + [{"d": e[2]["d"]} if "d" in e[2] else {"l": e[2]["l"]}]) for e in out.get("tree", []))
        ctx.count("b_model_compared", "yes")
        if got != want:
            ctx.disagree({"part": "b", "lib": case["lib"], "jobs": case["jobs"], "ops": case["ops"][:oi + 1], "model_input": line}, got, want,
                         "jobs tree after the repair command differs between model and implementation")


def correspond_bc(ctx):
    """parts (c) and (b): cases are generated first (one random stream), the two sets of worker processes run side by side,
    the evaluation is sequential"""
    from concurrent.futures import ThreadPoolExecutor

    rng = random.Random(f"c20-bc-{ctx.seed}")  # own stream: parts (b)/(c) do not depend on how much part (a) draws
    clibs, ccases = gen_c(ctx, rng, ctx.scale(4, 24), ctx.scale(30, 100), "c20c")
    n = ctx.scale(260, 4000)
    cases = [gen_ws_case(rng, f"{ctx.seed}_{i}") for i in range(n)]
    ctx.tmpdir()
    t0 = time.time()
    with ThreadPoolExecutor(max_workers=1) as ex:
        fc = ex.submit(run_c, ctx, clibs, ccases, ctx.scale(4, 12))
        res = run_ws_cases(ctx, cases, shards=16)
        t1 = time.time()
        srecs, lrecs = fc.result()
    t2 = time.time()
    evaluate_c(ctx, clibs, ccases, srecs, lrecs)
    evaluate_ws(ctx, cases, res)
    ctx.notes.append(f"(c) {len(ccases)} graphs saved under version 1 and loaded under version 2, next to (b) {n} workspace histories: "
                     f"real runs {t1 - t0:.1f}s / {t2 - t0:.1f}s, monitors + model {time.time() - t2:.1f}s")


def correspond(ctx):
    ctx.rule = ("(a) class library with @deprecate classes (direct, chains, lightweight task) + graph (<= ~12 nodes, nested/shared/cyclic, lists, dicts, pre/init "
                "tasks) where 1..all eligible nodes use a deprecated class, built next to the graph with the replacements; non-trivial = a deprecated class "
                "below the root.  (b) workspace history: 2-7 jobs really run (instant launcher) under Old/New task and configuration classes, runtime "
                "deprecation (1-2 generations, chains), 1-8 calls of the real command (all flag combinations, API or CLI, second runs, interruptions between "
                "and inside steps, relative path), deleted directories, missing/unloadable params.json, conflicts, resubmission; one case per command call; "
                "non-trivial = the call changes the tree or the tree already holds links.  (c) library in two versions (Old classes plain / @deprecate), graph with Old "
                "classes saved under version 1 (state_dict of all nodes, save of the root, params.json of a GENERATE_ONLY job) and loaded under version 2 in a fresh process "
                "(from_state_dict, load, from_task_dir), every loaded node and a fresh task taking a loaded node (parameter, list element, dict value) compared with "
                "the graph built under version 2; non-trivial = deprecated class below the root; distinct = case hash")
    ctx.assumptions += ["SHA-256 and the identifier of a *fresh* configuration are those of C01's model (the expected new identifier of a job is computed by the real "
                        "code on a freshly built configuration, not by reloading params.json)",
                        "the two glob calls of fix_deprecated yield every matching entry that exists when its directory is listed (their actual order is recorded "
                        "and given to the model)",
                        "links in the jobs tree point to job locations of the same workspace (links created by the command itself, or dangling)"]
    ctx.notes.append(f"command-line wiring of --cleanup read from cli/__init__.py: {cli_wiring()}")
    correspond_a(ctx)
    correspond_bc(ctx)


# ======================================================================================= findings, search, replay


def run_witness(ctx, finding):
    if common.run_script_witness(ctx, finding):
        return
    w = finding["witness"]
    case = w["case"]
    res = run_ws_cases(ctx, [case], shards=1)
    before = len(ctx.monitor_failures)
    if res[0]["error"]:
        ctx.notes.append(f"witness {finding['id']}: {res[0]['error']}")
        ctx.monitor_fail(f"witness-unrunnable:{finding['id']}", f"witness of {finding['id']} could not be executed: {res[0]['error']}", case)
        return
    ev = CaseEval(ctx, case, res[0], set())
    ev.run()
    hit = [m for m in ctx.monitor_failures[before:] if m["key"] == finding["key"]]
    others = [m for m in ctx.monitor_failures[before:] if m["key"] != finding["key"]]
    if finding.get("status") == "known":
        # keep exactly one failure with the finding's key (printed as KNOWN-FINDING by the verdict); anything else is new
        del ctx.monitor_failures[before:]
        ctx.monitor_failures.extend(hit[:1] + others)
        if not hit:
            ctx.notes.append(f"known finding {finding['id']} no longer reproduces on its witness (flip it to fixed)")
    else:
        del ctx.monitor_failures[before:]
        known = known_keys()
        back = [m for m in hit + others if m["key"] not in known]
        if back:
            ctx.monitor_fail(f"regression:{finding['key']}", f"fixed finding {finding['id']} is back: {back[0]['key']}: {back[0]['what']}", case)
    ctx.count("witness_replayed", finding["id"])


def search(ctx):
    rng = random.Random(f"c20-search-{ctx.seed}")
    t0 = time.time()
    libs, cases = gen_a(ctx, rng, 8, 60, "c20s")
    res = identlib.run_cases(ctx, libs, [{"lib": c["lib"], "steps": c["steps"]} for c in cases], shards=12, real_flags=True)[None]
    for case, rec in zip(cases, res):
        if not rec["error"]:
            monitor_a(ctx, case, rec)
    clibs, ccases = gen_c(ctx, rng, 6, 40, "c20cs")
    srecs, lrecs = run_c(ctx, clibs, ccases, shards=6)
    evaluate_c(ctx, clibs, ccases, srecs, lrecs, with_model=False)
    known = known_keys()
    rounds = 0
    while time.time() - t0 < ctx.scale(60, 240) and not [m for m in ctx.monitor_failures if m["key"] not in known]:
        wcases = [gen_ws_case(rng, f"s{ctx.seed}_{rounds}_{i}") for i in range(200)]
        evaluate_ws(ctx, wcases, run_ws_cases(ctx, wcases, shards=16), with_model=False)
        rounds += 1


def replay(ctx, obj):
    """re-run the failing inputs of a replay file on the real code (monitors only)"""
    n = 0
    for f in obj.get("failures", []):
        case = f.get("case", {})
        if case.get("part") == "b":
            c = {"lib": case["lib"], "jobs": case["jobs"], "ops": case["ops"]}
            evaluate_ws(ctx, [c], run_ws_cases(ctx, [c], shards=1), with_model=False)
            n += 1
        elif case.get("part") == "c":
            c = {"id": 0, "lib": 0, "graph": case["graph"], "sel": case["sel"], "root_is_task": case.get("root_is_task", False)}
            srecs, lrecs = run_c(ctx, [case["lib"]], [c], shards=1)
            evaluate_c(ctx, [case["lib"]], [c], srecs, lrecs, with_model=False)
            n += 1
        elif "graph_old" in case:
            print("identifier case: re-run `./check C20` (the class library is regenerated from the seed)")
    known = known_keys()
    new = [m for m in ctx.monitor_failures if m["key"] not in known]
    for m in new[:5]:
        print(f"REPRODUCED {m['key']}: {m['what']}")
    if not n or not new:
        prove(ctx)
        correspond(ctx)
        return common.verdict(ctx, search)
    print(f"VIOLATION property={PROP} replay=reproduced")
    return 1
