import XpmVerif.Proofs.SerialLoad
/-! What the runtime objects of the job process are given (C12, last sentence): the values decoded
    from the parameter file are the configured ones. -/
namespace XpmVerif.Serial
open XpmVerif.Ident

theorem instanceValuesAux_mkDef (fl : Flags) (lib : List Cls) (sg : SGraph) (ids : List Nat) :
    ∀ l : List Nat,
      (∀ n ∈ l, ∀ m ∈ succAll sg.g n, m ∈ ids) →
      instanceValuesAux ids (l.map (mkDef fl lib sg))
        = .ok (l.map (fun n => (n, ((sg.g.node n).args.filter present).map (fun a => (a.name, a.value)))))
  | [], _ => rfl
  | n :: l, hs => by
    have hd := decFields_enc ids
      (match findCls lib (sg.cls n) with | some c => c.data | none => [])
      ((sg.g.node n).args.filter present)
      (fun a ha m hm => hs n List.mem_cons_self m (by
        have : m ∈ argRefs (sg.g.node n) := mem_argRefs_of_mem (List.mem_filter.1 ha).1 hm
        simp only [succAll, List.mem_append]
        exact Or.inl (Or.inl (Or.inl this))))
    have ih := instanceValuesAux_mkDef fl lib sg ids l
      (fun k hk' => hs k (List.mem_cons_of_mem _ hk'))
    simp only [List.map_cons, instanceValuesAux]
    have hf : (mkDef fl lib sg n).fields = ((sg.g.node n).args.filter present).map
        (fun a => (a.name, encField ((match findCls lib (sg.cls n) with | some c => c.data | none => []).contains a.name) a.value)) := rfl
    rw [hf, hd, ih]
    rfl

/-- the values assigned to the runtime objects when a task is loaded from its parameter file are, for
    every written configuration and every present parameter, the configured value (references being
    the objects of the referenced configurations). -/
theorem instanceValues_serialize (fl : Flags) (lib : List Cls) (sg : SGraph) (root : Nat)
    (hwf : WF sg.g) (hr : root < sg.g.size) :
    instanceValues (serialize fl lib sg [root])
      = .ok ((serialOrder sg.g [root]).map
          (fun n => (n, ((sg.g.node n).args.filter present).map (fun a => (a.name, a.value))))) := by
  have hroots : ∀ r ∈ [root], r < sg.g.size := by intro r h; simp at h; subst h; exact hr
  obtain ⟨_, hiff, _, hcl⟩ := serialOrder_spec sg.g [root] hwf hroots
  unfold instanceValues
  rw [serialize_ids]
  exact instanceValuesAux_mkDef fl lib sg _ _ hcl

end XpmVerif.Serial
