import XpmVerif.Proofs.Validate
/-! C15 — parameters only ever hold values of their declared type; submit fails fast.
    Property theorems only (model: `Model/Validate.lean`, lemmas: `Proofs/Validate.lean`).

    The model is parameterised by `Impl`, six behaviour switches of the source that the check probes on
    the real code at every run (`Impl.current` = the source as found, `Impl.repaired` = with the proposed
    patches).  Each theorem names exactly the switch values it needs; the `…_witness` theorems show that
    the hypothesis cannot be dropped (they are the findings F10, F11 and the ones found with them). -/
namespace XpmVerif.C15
open XpmVerif.Validate

/-! ## First sentence: a stored value is a value of the declared type -/

/-- **"Assigning a parameter either stores a value of the declared type … or raises", for
    `Type.validate`.**  For every type expression (unions included) and every Python value: if `validate`
    returns `w` then `w` is a member of the declared type.  Needs `UnionType.validate` to raise on an
    unmatched dict (F10) when the type mentions a union, and `ObjectType.validate` to reject `None` when
    it mentions a configuration class. -/
theorem validate_sound (I : Impl) (t : Ty) (v w : PyVal)
    (hU : I.unionDictNone = false ∨ t.unionFree = true) (hC : I.cfgNoneOk = false ∨ t.cfgFree = true)
    (h : validate I t v = .ok w) : conforms t w = true :=
  validate_sound_aux I t hU hC v w h

/-- **The same at the assignment (`ConfigInformation.set`, i.e. constructor and `setattr`).**  What is
    stored is a member of the declared type, or it is `None` and the argument is not required
    (`Optional[…]` or a default is declared: the documented way to say "optional"). -/
theorem set_sound (I : Impl) (a : ArgDecl) (v w : PyVal)
    (hU : I.unionDictNone = false ∨ a.ty.unionFree = true) (hC : I.cfgNoneOk = false ∨ a.ty.cfgFree = true)
    (h : setArg I a v = .ok w) : conforms a.ty w = true ∨ (w = .none ∧ a.required = false) :=
  set_sound_aux I a v w hU hC h

/-- **What the source as found already guarantees** (every switch value): the first sentence holds for
    all types without `Union` in which configuration classes occur only at the top (`Param[C]`,
    `Param[Optional[C]]`) — `set` itself intercepts `None` there. -/
theorem set_sound_current_source (I : Impl) (a : ArgDecl) (v w : PyVal)
    (hty : (a.ty.unionFree = true ∧ a.ty.cfgFree = true) ∨ ∃ c, a.ty.stripOpt = .cfg c)
    (h : setArg I a v = .ok w) : conforms a.ty w = true ∨ (w = .none ∧ a.required = false) := by
  rcases hty with ⟨h1, h2⟩ | ⟨c, hc⟩
  · exact set_sound_aux I a v w (Or.inr h1) (Or.inr h2) h
  · exact set_sound_top_cfg I a c hc v w h

/-- **"after the documented coercions: integral float to int, int to float, string to path"** — these are
    the *only* ways in which `int`, `float`, `str` and `Path` parameters accept something that is not already
    a member (every switch value): an `int` parameter takes an `int`/`bool` unchanged or a finite float
    without fractional part as that integer; a `float` parameter takes a `float` unchanged, an `int` rounded
    to the nearest double (`OverflowError` beyond the range) or a `bool` as 0.0/1.0; a `str` parameter only a
    `str`; a `Path` parameter a `Path` unchanged, a `str` as that path, or the serialised form
    `{"$type": "path", "$value": …}`.  (`bool` parameters store `bool(v)` for every `v`.) -/
theorem scalar_coercions_exact (I : Impl) (v w : PyVal) :
    (validate I .int v = .ok w →
      (w = v ∧ conforms .int v = true) ∨ (∃ f i, v = .float f ∧ f.toInt? = some i ∧ w = .int i)) ∧
    (validate I .float v = .ok w →
      (w = v ∧ conforms .float v = true) ∨ (∃ i f, v = .int i ∧ Fl.ofInt? i = some f ∧ w = .float f) ∨
      (∃ b, v = .bool b ∧ w = .float (.fin false (if b then 1 else 0) 0))) ∧
    (validate I .str v = .ok w → w = v ∧ conforms .str v = true) ∧
    (validate I .path v = .ok w →
      (w = v ∧ conforms .path v = true) ∨ (∃ s, v = .str s ∧ w = .path (pnorm s)) ∨
      (∃ ks vs, v = .dict ks vs ∧ isPathTag (lookup "$type" ks vs) = true ∧ pathOf (lookup "$value" ks vs) = .ok w)) ∧
    validate I .bool v = .ok (.bool v.truthy) :=
  ⟨fun h => vInt_exact (by simpa [validate] using h), fun h => vFloat_exact (by simpa [validate] using h),
   fun h => vStr_exact (by simpa [validate] using h), fun h => vPath_exact (by simpa [validate] using h), by simp [validate]⟩

/-- F10 (negation witness): with the source as found, `Param[Union[int, str]]` given `{"a": 1}` stores
    `None`, which is not a member of the declared type. -/
theorem F10_witness :
    setArg Impl.current { ty := .union [.int, .str] } (.dict [.str "a"] [.int 1]) = .ok .none ∧
    conforms (.union [.int, .str]) .none = false := ⟨rfl, rfl⟩

/-- negation witness for `ObjectType.validate(None) = None`: `Param[List[C]]` given `[None]` stores `[None]`. -/
theorem cfgNone_witness :
    setArg Impl.current { ty := .list (.cfg 0) } (.list [.none]) = .ok (.list [.none]) ∧
    conforms (.list (.cfg 0)) (.list [.none]) = false := ⟨rfl, rfl⟩

/-- with the patches both witnesses are rejected -/
example : setArg Impl.repaired { ty := .union [.int, .str] } (.dict [.str "a"] [.int 1]) = .error .invalid := rfl
example : setArg Impl.repaired { ty := .list (.cfg 0) } (.list [.none]) = .error .invalid := rfl

/-- non-vacuity of `set_sound`: the documented coercions on a nested type,
    `Dict[str, List[Union[int, str]]]` given `{"k": [2.0, "x", True]}` stores `{"k": [2, "x", True]}`;
    a string becomes a path; an int becomes a float. -/
example : setArg Impl.repaired { ty := .dict (.list (.union [.int, .str])) }
      (.dict [.str "k"] [.list [.float (.fin false 1 1), .str "x", .bool true]])
    = .ok (.dict [.str "k"] [.list [.int 2, .str "x", .bool true]]) := rfl
example : validate Impl.current (.opt (.list .float)) (.list [.int 3, .float (.fin true 5 (-1))])
    = .ok (.list [.float (.fin false 3 0), .float (.fin true 5 (-1))]) := rfl
example : validate Impl.current .int (.float (.fin false 5 (-1))) = .error .invalid := rfl
example : validate Impl.current .int (.float (.inf false)) = .error .overflow := rfl

/-! ## First sentence, second half: a conforming value reads back equal -/

/-- **"a conforming value reads back equal", for every type of the statement's grammar** (scalars,
    enums, paths, lists, dicts, optionals, configuration classes; any depth; every switch value): a member
    of the declared type is returned *unchanged*. -/
theorem validate_conforming_id (I : Impl) (t : Ty) (hU : t.unionFree = true) (v : PyVal)
    (hc : conforms t v = true) : validate I t v = .ok v :=
  validate_id_aux I t hU v hc

/-- **The same at the assignment**: a conforming value (`None` only where the argument is not
    required) assigned to a writable argument is stored unchanged, hence reads back `==`. -/
theorem set_conforming_id (I : Impl) (a : ArgDecl) (hw : a.generator = false ∧ a.constant = false)
    (hU : a.ty.unionFree = true) (v : PyVal) (hc : conforms a.ty v = true) (hn : v = .none → a.required = false) :
    setArg I a v = .ok v ∧ pyEq v v = true :=
  ⟨set_id_aux I a hw hU v hc hn, pyEq_refl v⟩

/-- **Unions** (beyond the statement's grammar): with `UnionType.validate` raising on no match (F10),
    `EnumType.validate` raising a `TypeError`/`ValueError` instead of using `assert`, and `EnumType`
    having a name, a value conforming to a type whose unions list only `int`, `str`, enum, configuration,
    list and dict alternatives is accepted, and what is stored is `==` to it (the first accepting
    alternative may be `int` for an integral `float` of a later one: equal, not identical). -/
theorem validate_conforming_id_union (I : Impl)
    (hI : I.unionDictNone = false ∧ I.enumAssert = false ∧ I.enumNameFails = false)
    (t : Ty) (hD : t.unionDom = true) (v : PyVal) (hc : conforms t v = true) :
    ∃ w, validate I t v = .ok w ∧ pyEq w v = true :=
  conf_union I hI t hD v hc

/-- negation witness (`assert` in `EnumType.validate`): with the source as found `Param[Union[E, int]]`
    rejects the conforming value `3` — the `AssertionError` of the enum alternative is not caught. -/
theorem enumAssert_witness :
    conforms (.union [.enum 0, .int]) (.int 3) = true ∧
    validate Impl.current (.union [.enum 0, .int]) (.int 3) = .error .assertion ∧
    validate Impl.repaired (.union [.enum 0, .int]) (.int 3) = .ok (.int 3) := ⟨rfl, rfl, rfl⟩

/-- why `bool`, `float` and `Path` alternatives are outside `unionDom`: they accept and convert values of
    later alternatives (ordered-union semantics, not reported as a defect). -/
example : validate Impl.repaired (.union [.path, .str]) (.str "a") = .ok (.path (pnorm "a")) := rfl
example : validate Impl.repaired (.union [.bool, .int]) (.int 3) = .ok (.bool true) := rfl

/-- non-vacuity: a nested conforming value of a union-free type, and of a union type. -/
example : conforms (.dict (.list (.opt (.cfg 1)))) (.dict [.str "a", .str "b"] [.list [.config [2, 1] 7], .list []]) = true := by decide
example : (Ty.list (.union [.list .int, .dict (.enum 1), .str])).unionDom = true ∧
    conforms (.list (.union [.list .int, .dict (.enum 1), .str])) (.list [.dict [.str "k"] [.enumMember 1 "Z"], .str "s"]) = true := by decide

/-! ## Second sentence: a missing required value anywhere in the graph is found before anything is registered -/

/-- **Along the edges the validation follows**, for every switch value, every graph (shared nodes and
    cycles included) and fresh objects: if a node reachable from the submitted task misses a required
    value (no default, not `Optional`, no generator), `ConfigInformation.validate` does not succeed. -/
theorem validate_finds_missing_walk (I : Impl) (g : Graph) (root n : Nat)
    (hr : Reach (succs I g) root n) (hm : nodeMissing g n = true) : validateGraph I g root ≠ .ok :=
  finds_missing_aux I g root n hr hm

/-- **"A task with a required parameter missing anywhere in its parameter graph is rejected"**: when
    `validate` also descends into list and dict values (F11 repaired), every node reachable through
    values, lists, dicts (nested at any depth), nested configurations, pre-tasks and init tasks counts. -/
theorem validate_finds_missing (I : Impl) (hI : I.deepValidate = true) (g : Graph) (root n : Nat)
    (hr : Reach (allSuccs g) root n) (hm : nodeMissing g n = true) : validateGraph I g root ≠ .ok := by
  rw [← succs_deep I hI g] at hr
  exact validate_finds_missing_walk I g root n hr hm

/-- **"… rejected at submission, before any job is registered"**: `submit` then does not succeed and
    leaves the scheduler registry as it was. -/
theorem submit_rejects_missing (I : Impl) (hI : I.deepValidate = true) (g : Graph) (s : Sched) (root n : Nat)
    (hr : Reach (allSuccs g) root n) (hm : nodeMissing g n = true) :
    (submit I g s root).1 ≠ .ok ∧ (submit I g s root).2 = s := by
  have h := validate_finds_missing I hI g root n hr hm
  unfold submit
  cases hv : validateGraph I g root <;> simp_all

/-- **Conversely (the model does not reject everything)**: on a graph whose references stay inside it,
    if no node reachable along the walk misses a required value then validation succeeds — in particular
    the fuel of the walk is never exhausted — and `submit` registers exactly the task. -/
theorem validate_accepts_complete (I : Impl) (g : Graph) (s : Sched) (root : Nat)
    (hwf : ∀ n, n < g.nodes.length → ∀ m ∈ succs I g n, m < g.nodes.length) (hroot : root < g.nodes.length)
    (hc : ∀ n, Reach (succs I g) root n → nodeMissing g n = false) :
    validateGraph I g root = .ok ∧ submit I g s root = (.ok, { s with jobs := root :: s.jobs }) := by
  have hv := accepts_complete_aux I g root hwf hroot hc
  exact ⟨hv, by simp [submit, hv]⟩

/-- a graph for the witnesses: a task (node 0, class 0) with `subs: Param[List[Sub]]` holding one `Sub`
    (node 1, class 1) whose required `x: int` is not set -/
def gF11 : Graph :=
  { classes := [[{ ty := .list (.cfg 1) }], [{ ty := .int }]]
    nodes := [{ cls := 0, vals := [some (.list [.config [1] 1])] }, { cls := 1, vals := [none] }] }

/-- F11 (negation witness): with the source as found the incomplete `Sub` is reachable (through the list)
    and yet validation succeeds and `submit` registers the job; with the patch it is rejected and nothing
    is registered. -/
theorem F11_witness :
    Reach (allSuccs gF11) 0 1 ∧ nodeMissing gF11 1 = true ∧
    validateGraph Impl.current gF11 0 = .ok ∧ (submit Impl.current gF11 {} 0).2.jobs = [0] ∧
    validateGraph Impl.repaired gF11 0 = .missing ∧ (submit Impl.repaired gF11 {} 0).2.jobs = [] :=
  ⟨Reach.step Reach.refl (by decide), by decide, by decide, by decide, by decide, by decide⟩

/-- the same sub-configuration given *directly* (`sub: Param[Sub]`) is found by every variant, and a
    complete graph is accepted (non-vacuity of `validate_finds_missing_walk` / `validate_accepts_complete`). -/
def gDirect (x : Option PyVal) : Graph :=
  { classes := [[{ ty := .cfg 1 }, { ty := .opt (.dict (.cfg 1)) }], [{ ty := .int }, { ty := .str, hasDefault := true }]]
    nodes := [{ cls := 0, vals := [some (.config [1] 1), none], pre := [2] }, { cls := 1, vals := [x, none] },
              { cls := 1, vals := [some (.int 1), none] }] }

example : validateGraph Impl.current (gDirect none) 0 = .missing ∧ validateGraph Impl.current (gDirect (some (.int 3))) 0 = .ok := by decide
example : (∀ n, n < (gDirect (some (.int 3))).nodes.length → ∀ m ∈ succs Impl.current (gDirect (some (.int 3))) n,
    m < (gDirect (some (.int 3))).nodes.length) := by decide

/-! ### Histories: the `_validated` flags of earlier validations -/

/-- **The second sentence over all histories of validations of the same (unmodified) objects**, for every
    switch value: when the flags left by earlier calls are trustworthy (`FlagsOk`: every flagged node is
    complete and the nodes the walk visits from it are flagged — true of fresh objects), a successful
    validation means that no node reachable along the walk misses a required value, and it leaves
    trustworthy flags; a failing one leaves the flags as they were, provided a validation that raises
    clears the flags it has set. By induction every validation of every history is then complete. -/
theorem validate_history_sound (I : Impl) (g : Graph) (vis : List Nat) (hinv : FlagsOk I g vis) (root : Nat) :
    ((validateFrom I g vis root).1 = .ok →
        (∀ n, Reach (succs I g) root n → nodeMissing g n = false) ∧ FlagsOk I g (validateFrom I g vis root).2) ∧
    (I.resetOnFail = true → (validateFrom I g vis root).1 ≠ .ok → (validateFrom I g vis root).2 = vis) :=
  ⟨validateFrom_ok_spec I g vis hinv root, fun hI h => validateFrom_reset hI h⟩

/-- fresh objects carry trustworthy flags (none) -/
theorem fresh_flags_ok (I : Impl) (g : Graph) : FlagsOk I g [] := flagsOk_nil I g

/-- negation witness (source as found): `_validated` is set before the checks (l.707) and stays set when
    they raise, so the flags after a failed validation are *not* trustworthy and a second validation of the
    same objects succeeds; with the patch it fails again. -/
theorem revalidation_witness :
    (validateFrom Impl.current (gDirect none) [] 0).1 = .missing ∧
    (validateFrom Impl.current (gDirect none) (validateFrom Impl.current (gDirect none) [] 0).2 0).1 = .ok ∧
    (validateFrom Impl.repaired (gDirect none) (validateFrom Impl.repaired (gDirect none) [] 0).2 0).1 = .missing := by decide

/-! ### Histories of assignments and submit attempts over shared objects -/

/-- **The second sentence for every history** (several `submit` attempts and assignments over the same
    objects: a rejected task reused as a parameter value of another task — possible because `submit` stores
    `job` before validating —, an accepted task reused, a sub-configuration completed between two
    attempts, …), provided a validation that raises clears the flags it has set: starting from trustworthy
    flags (fresh objects), with assignments going only to objects that no successful validation has flagged
    (those are sealed), every accepted `submit` had no node with a missing required value reachable along
    the walk *at that moment*; an operation that is not an accepted `submit` leaves the scheduler registry
    unchanged and an accepted one adds exactly the submitted task. -/
theorem history_sound (I : Impl) (hI : I.resetOnFail = true) (s : HState) (ops : List HOp)
    (h0 : FlagsOk I s.g s.flags) (hadm : Admissible I s ops) :
    ∀ t ∈ hrun I s ops,
      (∀ n, t.2.1 = .submit n → t.2.2 = .accepted → ∀ m, Reach (succs I t.1.g) n m → nodeMissing t.1.g m = false) ∧
      (t.2.2 ≠ .accepted → (hstep I t.1 t.2.1).2.registry = t.1.registry) ∧
      (∀ n, t.2.1 = .submit n → t.2.2 = .accepted → (hstep I t.1 t.2.1).2.registry = n :: t.1.registry) :=
  hrun_sound I hI ops s h0 hadm

/-- **… "is rejected at submission, before any job is registered", at any point of a history**: with the
    walk descending into lists and dicts, a `submit` of a task from which a node with a missing required
    value is reachable (through values, lists, dicts, nested configurations *and tasks*, pre-tasks, init
    tasks) is not accepted and leaves the registry as it was, whatever happened to these objects before. -/
theorem history_rejects_missing (I : Impl) (hD : I.deepValidate = true) (s : HState) (h0 : FlagsOk I s.g s.flags)
    (n m : Nat) (hr : Reach (allSuccs s.g) n m) (hm : nodeMissing s.g m = true) :
    (hstep I s (.submit n)).1 ≠ .accepted ∧ (hstep I s (.submit n)).2.registry = s.registry := by
  have hs := hstep_sound I s (.submit n) h0 (by intro _ _ _ h; cases h)
  have hna : (hstep I s (.submit n)).1 ≠ .accepted := by
    intro ha
    have := hs.2.1 n rfl ha m (by rw [succs_deep I hD]; exact hr)
    rw [hm] at this
    exact absurd this (by simp)
  exact ⟨hna, hs.2.2.1 hna⟩

/-- a history of the seeded kind: task `P` (node 1, class 1) misses its required `corpus: Param[Path]`;
    `P.submit()` is rejected and keeps its `job`; `T(data=P)` (node 0), then `T2(datasets=[P])` (node 2) are
    rejected and nothing is registered; after `P.corpus = …` a new `T3(data=P)` (node 3) is accepted and is
    the only registered job; submitting `P` again raises "already submitted"; a task that never went
    through `submit()` (node 4) cannot be given as a value. -/
def hP : HState :=
  { g := { classes := [[{ ty := .cfg 1 }], [{ ty := .path }, { ty := .int, hasDefault := true }], [{ ty := .list (.cfg 1) }]]
           tasks := [0, 1, 2]
           nodes := [{ cls := 0, vals := [none] }, { cls := 1, vals := [none, none] }, { cls := 2, vals := [none] },
                     { cls := 0, vals := [none] }, { cls := 1, vals := [none, none] }] } }

def hOps : List HOp :=
  [.assign 0 0 (.config [1] 4), .submit 1, .assign 0 0 (.config [1] 1), .submit 0, .assign 2 0 (.list [.config [1] 1]), .submit 2,
   .assign 1 0 (.path "c"), .assign 3 0 (.config [1] 1), .submit 3, .submit 1, .assign 3 0 (.config [1] 1)]

theorem rejected_task_reuse_history :
    (hrun Impl.repaired hP hOps).map (·.2.2) =
      [.invalid, .rejected .missing, .stored, .rejected .missing, .stored, .rejected .missing,
       .stored, .stored, .accepted, .already, .readonly] ∧
    ((hrun Impl.repaired hP hOps).map (·.1.registry)).getLast? = some [3] := by decide

/-! ### non-vacuity of the named hypotheses `FlagsOk` / `Admissible` (audit round 8, item 6): the history above without its last (refused) assignment —
    classes with two declared parameters (a path that is really coerced from a `str`, an `int` with a default) and a container type (`list` of configurations) -/
def hOpsAdm : List HOp := hOps.dropLast

theorem hP_flagsOk : FlagsOk Impl.repaired hP.g hP.flags := by intro m hm; cases hm

theorem hOpsAdm_admissible : Admissible Impl.repaired hP hOpsAdm := by
  simp only [hOpsAdm, hOps, List.dropLast, Admissible]
  refine ⟨?_, ?_, ?_, ?_, ?_, ?_, ?_, ?_, ?_, ?_, trivial⟩ <;> (intro n k v h; cases h <;> decide)

/-- `history_sound` applies and says something: the one accepted submit (node 3) had nothing missing reachable at that moment. -/
example := history_sound Impl.repaired (by decide) hP hOpsAdm hP_flagsOk hOpsAdm_admissible
example : (hrun Impl.repaired hP hOpsAdm).map (·.2.2) =
    [.invalid, .rejected .missing, .stored, .rejected .missing, .stored, .rejected .missing, .stored, .stored, .accepted, .already] := by decide

end XpmVerif.C15
