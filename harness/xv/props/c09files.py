"""C09 (file-based, multi-scheduler part) — tokens are given back and waiting jobs run when several scheduler
processes share a token directory: same engine and model as c08files, with the give-back / wake-up monitors,
the fault classes (scheduler dropped while holding, reader between create and write) and two scenarios on the
real code outside the engine: the real watchdog observer meeting a half-written file (F6), and a token file
left empty by a killed writer.

Chained from c09.py:   MODULES += c09files.MODULES ; c09files.correspond(ctx) ; c09files.search(ctx)"""
import json
import multiprocessing as mp
import os
import subprocess
import sys
import tempfile

from .. import common
from . import c08files

PROP = "C09"
MODULES = ["XpmVerif.Properties.C09Files", "XpmVerif.Properties.C09Watch", "XpmVerif.Properties.C09Fair", "XpmVerif.Properties.C11Files", "XpmVerif.Properties.TokSrc"]

_OBSERVER_SCRIPT = r'''
import sys, time, tempfile, logging, shutil, json
from pathlib import Path
logging.disable(logging.CRITICAL)
from experimaestro.tokens import CounterToken, TokenFile
from experimaestro.ipc import ipcom
TokenFile.watch = lambda self: None
d = Path(tempfile.mkdtemp(prefix="xv-f6-"))
out = {}
try:
    T = CounterToken("t", d / "tok", 2)
    obs = ipcom().observer
    time.sleep(0.3)
    out["alive_before"] = obs.is_alive()
    fp = (d / "tok" / "id7.token").open("wt")      # first half of TokenFile.create in another process
    time.sleep(0.6)
    out["alive_half_written"] = obs.is_alive()
    fp.write("1\n/x/id7\n"); fp.close()              # second half
    time.sleep(0.4)
    out["cached_after_write"] = "id7.token" in T.cache
    (d / "tok" / "id7.token").unlink()               # the other process releases
    time.sleep(0.4)
    out["cache_after_release"] = sorted(T.cache)
    out["alive_end"] = obs.is_alive()
finally:
    shutil.rmtree(d, ignore_errors=True)
print(json.dumps(out))
'''

_KILLED_WRITER_SCRIPT = r'''
import tempfile, logging, shutil, json
from pathlib import Path
logging.disable(logging.CRITICAL)
import experimaestro.tokens as tk
tk.ipcom = lambda: type("I", (), {"fswatch": lambda *a, **k: None})()
tk.TokenFile.watch = lambda self: None
d = Path(tempfile.mkdtemp(prefix="xv-kw-"))
out = {}
try:
    T = tk.CounterToken("t", d / "tok", 2)
    (d / "tok" / "id7.token").touch()    # a scheduler was killed between open("wt") and write() of TokenFile.create
    try:
        T2 = tk.CounterToken("t", d / "tok", 2)
        out["constructor"] = "ok"
    except Exception as e:
        out["constructor"] = type(e).__name__
    class J:
        identifier = "id9"
        basepath = Path("/x/id9")
    dep = T.dependency(1)
    dep.target = J()
    try:
        T.acquire(dep)
        out["acquire"] = "ok"
    except Exception as e:
        out["acquire"] = type(e).__name__
    out["files"] = sorted(p.name for p in (d / "tok").glob("*.token"))
finally:
    shutil.rmtree(d, ignore_errors=True)
print(json.dumps(out))
'''


_SEQ_SRC = r'''
import sys, os, logging, json, time, threading
from pathlib import Path
args = json.loads(sys.argv[1])
sys.path.insert(0, args["pkg"])
logging.basicConfig(level=logging.CRITICAL)
from experimaestro import experiment
from experimaestro.scheduler import JobState
from xvtokpkg.tasks import Hold
names = args["tokens"]                      # [[name, total, request], ...]


def submit_all(xp, xs):
    jobs = []
    toks = [xp.token(n, t) for n, t, _ in names]     # the per-process registry hands the same objects out again
    for x in xs:
        task = Hold(x=x, count=1, log=Path(args["log"]), dur=args["dur"])
        for tok, (_, _, c) in zip(toks, names):
            tok(c, task)
        task.submit()
        jobs.append(task.__xpm__.job)
    return toks, jobs


def setenv(xp):
    xp.setenv("PYTHONPATH", os.pathsep.join([args["pkg"]] + ([os.environ["PYTHONPATH"]] if os.environ.get("PYTHONPATH") else [])))


out = {}
with experiment(Path(args["ws"]), "first", port=-1) as xp:          # experiment 1 runs to completion
    setenv(xp)
    toks, first = submit_all(xp, range(args["first"]))
out["first"] = [j.state.name for j in first]
xp = experiment(Path(args["ws"]), "second", port=-1)                # experiment 2, same interpreter, same tokens
xp.__enter__()
setenv(xp)
toks2, second = submit_all(xp, range(100, 100 + args["second"]))
out["same_token_objects"] = all(a is b for a, b in zip(toks, toks2))
t0 = time.time()
while time.time() - t0 < args["deadline"] and not all(j.state.finished() for j in second):
    time.sleep(0.1)
out["second"] = [j.state.name for j in second]
out["second_ended_on_disk"] = [j.donepath.is_file() or j.failedpath.is_file() for j in second]
waited = threading.Event()
threading.Thread(target=lambda: (xp.wait(), waited.set()), daemon=True).start()
waited.wait(3.0 if all(j.state.finished() for j in second) else 0.5)
out["wait_returned"] = waited.is_set()
time.sleep(0.8)                                                     # let the last release and its events settle
out["tokens"] = [{"name": n, "total": t.total, "available": t.available, "files": sorted(p.name[:8] for p in t.path.glob("*.token"))}
                 for t, (n, _, _) in zip(toks2, names)]
print(json.dumps(out), flush=True)
os._exit(0)
'''


def sequential_experiments_scenario(ctx, variants=None, timeout=75):
    """`sequential-experiments-one-process`: one interpreter runs experiment 1 (jobs needing every token) to completion, then
    experiment 2 with the same token objects (xp.token registry).  C09: every job of experiment 2 becomes final within the time
    limit, wait() returns, and at the end no token file is left and every token shows its total.  A run that does not end is
    an observation of the property (monitor failure `…:never-ends`), not a harness error."""
    from pathlib import Path
    variants = variants or [([["A", 1, 1], ["B", 1, 1]], 2, 3)]
    root = Path(ctx.tmpdir()) / "seq-C09"
    pkg = root / "pkg" / "xvtokpkg"
    pkg.mkdir(parents=True, exist_ok=True)
    (pkg / "__init__.py").write_text("")
    (pkg / "tasks.py").write_text(c08files._TASKS_SRC)
    res = []
    for vi, (toks, n1, n2) in enumerate(variants):
        attempts = []
        for k in range(2):
            adir = root / f"s{vi}-{k}"
            adir.mkdir(parents=True, exist_ok=True)
            args = {"pkg": str(root / "pkg"), "ws": str(adir / "ws"), "tokens": toks, "first": n1, "second": n2, "dur": 0.2,
                    "log": str(adir / "log.txt"), "deadline": 12 + 3 * n2}
            env = dict(os.environ, XPM_WORKDIR=str(adir / "xpm"), PYTHONWARNINGS="ignore")
            ctx.evaluations += 1
            try:
                p = subprocess.run([sys.executable, "-c", _SEQ_SRC, json.dumps(args)], capture_output=True, text=True, timeout=timeout, env=env)
            except subprocess.TimeoutExpired as e:
                attempts.append({"failed": "the process did not end", "stderr": str(e.stderr or "")[-300:]})
                if k == 1:
                    ctx.monitor_fail("sequential-experiments-one-process:never-ends",
                                     f"one process running two experiments in sequence on the same tokens {toks} did not end within {timeout} s (twice)",
                                     {"scenario": "sequential-experiments-one-process", "tokens": toks, "first": n1, "second": n2})
                continue
            o = None
            for line in reversed(p.stdout.strip().splitlines()):
                try:
                    o = json.loads(line)
                    break
                except json.JSONDecodeError:
                    continue
            if o is None:
                attempts.append({"failed": f"rc={p.returncode}", "stderr": p.stderr[-300:]})
                ctx.notes.append(f"sequential-experiments-one-process: attempt {k} gave no observation (rc={p.returncode}): ...{p.stderr[-200:]}")
                continue
            o["stderr_signature"] = "Event loop is closed" if "Event loop is closed" in p.stderr else None
            attempts.append(o)
            case = {"scenario": "sequential-experiments-one-process", "tokens": toks, "first": n1, "second": n2, "observed": o}
            head = (f"one process, experiment 1 ({n1} jobs needing {'+'.join(f'{n}({c} of {t})' for n, t, c in toks)}) ran to completion "
                    f"({o['first']}), then experiment 2 with the same token objects and {n2} such jobs: ")
            stuck = [i for i, st in enumerate(o["second"]) if st not in ("DONE", "ERROR")]
            leaked = [t for t in o["tokens"] if t["files"]]
            short = [t for t in o["tokens"] if not t["files"] and t["available"] < t["total"]]
            fails = []
            if stuck or not o["wait_returned"]:
                fails.append(("sequential-experiments-one-process:never-ends",
                                 head + f"after {args['deadline']} s its jobs are {o['second']} (their processes ended: {o['second_ended_on_disk']}), "
                                        f"wait() returned: {o['wait_returned']}; tokens at the end: {o['tokens']}"
                                        + (f"; stderr shows '{o['stderr_signature']}'" if o["stderr_signature"] else ""), case))
            if not stuck and (leaked or short):
                fails.append(("sequential-experiments-one-process:token-not-returned",
                              head + f"all jobs are final ({o['second']}) but the tokens show {o['tokens']}", case))
            if fails and not any(o["second_ended_on_disk"]) and k == 0:
                ctx.notes.append("sequential-experiments-one-process: no job of experiment 2 ever ran; retried in a fresh process to rule out an unrelated start-up problem")
                continue
            for key, what, cs in fails:
                ctx.monitor_fail(key, what, cs)
            break
        res.append({"tokens": toks, "first": n1, "second": n2, "attempts": attempts})
    ctx.extra_cov["file_token_sequential_experiments"] = res
    return res


def _script(src, timeout=60):
    env = dict(os.environ, PYTHONWARNINGS="ignore")
    p = subprocess.run([sys.executable, "-c", src], capture_output=True, text=True, timeout=timeout, env=env)
    for line in reversed(p.stdout.strip().splitlines()):
        try:
            return json.loads(line)
        except json.JSONDecodeError:
            continue
    raise RuntimeError(f"scenario script failed: rc={p.returncode} {p.stderr[-400:]}")


def real_observer_scenario(ctx):
    """the real watchdog Observer + a real CounterToken: another process creates a token file and writes it 0.6 s later"""
    o = _script(_OBSERVER_SCRIPT)
    ctx.count("ft_real_observer_survives_half_written_file", o.get("alive_half_written"))
    ctx.evaluations += 1
    if not o.get("alive_before"):
        raise RuntimeError(f"watchdog observer did not start: {o}")
    if not o.get("alive_half_written") or not o.get("alive_end"):
        ctx.monitor_fail("watcher-dies-on-half-written-token-file",
                         f"real watchdog observer: a token file created by another process and written 0.6 s later kills the dispatcher thread "
                         f"(on_created parses the empty file: ValueError); afterwards the instance misses the release: {o}",
                         {"scenario": "real-observer", "observed": o})
    elif o.get("cache_after_release"):
        ctx.monitor_fail("release-not-seen-by-live-observer", f"the observer is alive but the foreign release left {o['cache_after_release']} in the cache",
                         {"scenario": "real-observer", "observed": o})
    return o


def killed_writer_scenario(ctx):
    o = _script(_KILLED_WRITER_SCRIPT)
    ctx.evaluations += 1
    ctx.count("ft_killed_writer_recount", f"constructor={o.get('constructor')} acquire={o.get('acquire')}")
    if o.get("constructor") != "ok" or o.get("acquire") != "ok":
        ctx.monitor_fail("empty-token-file-blocks-every-recount",
                         f"a token file left empty by a scheduler killed between open() and write() makes every later recount raise: "
                         f"CounterToken(...) -> {o.get('constructor')}, acquire -> {o.get('acquire')}; the capacity is never usable again "
                         f"until the file is removed by hand: {o}",
                         {"scenario": "killed-writer", "observed": o})
    return o


def prove(ctx):
    prev = ctx.proof
    pr = common.check_proofs(ctx, MODULES)
    if prev is not None:
        pr.obligations += prev.obligations
        pr.discharged += prev.discharged
        pr.failures = prev.failures + pr.failures
        pr.axioms = {**prev.axioms, **pr.axioms}


def correspond(ctx):
    c08files.run(ctx, PROP, 320, 6000)
    if not ctx.quick():
        c08files.real_runs(ctx, PROP)
    ctx.extra_cov["file_token_scenarios"] = {"real_observer": real_observer_scenario(ctx), "killed_writer": killed_writer_scenario(ctx)}
    sequential_experiments_scenario(ctx, None if ctx.quick() else [([["A", 1, 1], ["B", 1, 1]], 2, 3), ([["A", 2, 1], ["B", 1, 1], ["C", 2, 2]], 2, 4),
                                                                   ([["A", 1, 1]], 1, 3)])


def search(ctx):
    c08files.search_run(ctx, PROP)


def run_witness(ctx, finding):
    w = finding.get("witness") or {}
    if w.get("scenario") == "real-observer":
        real_observer_scenario(ctx)
        return True
    if w.get("scenario") == "killed-writer":
        killed_writer_scenario(ctx)
        return True
    return c08files.witness_run(ctx, PROP, finding)


def replay(ctx, obj):
    rc = c08files.replay_run(ctx, PROP, obj)
    for f in obj.get("failures", []):
        sc = f["case"].get("scenario")
        if sc == "sequential-experiments-one-process":
            c = f["case"]
            sub = common.Ctx(PROP, ctx.tier, ctx.seed)
            try:
                sequential_experiments_scenario(sub, [(c["tokens"], c["first"], c["second"])])
            finally:
                sub.cleanup()
            print("replay:", [m["what"][:300] for m in sub.monitor_failures] or "no failure on this tree")
            if sub.monitor_failures:
                rc = 1
                print(f"VIOLATION property={PROP} replay=(replayed)")
        if sc in ("real-observer", "killed-writer"):
            sub = common.Ctx(PROP, ctx.tier, ctx.seed)
            (real_observer_scenario if sc == "real-observer" else killed_writer_scenario)(sub)
            print("replay:", [m["key"] for m in sub.monitor_failures] or "no failure on this tree")
            if sub.monitor_failures:
                rc = 1
                print(f"VIOLATION property={PROP} replay=(replayed)")
    return rc
