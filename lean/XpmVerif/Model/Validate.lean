/-! M6 (validation part) — `Type.validate`, `ConfigInformation.set`, `ConfigInformation.validate`, `submit`.

Mirrors, branch by branch, `src/experimaestro/core/types.py` (IntType … ObjectType `.validate`,
l.492-515 and l.538-685), `core/arguments.py` (`Argument.validate` l.101-106, `ArgumentOptions.create`
l.139-153), `core/objects.py` (`ConfigInformation.set` l.655-681, `.validate` l.704-738, `.submit`
l.950-1012).

Not in the model: `Argument.checker`, the user hook `__validate__`, `GenericType`, task-typed
parameter values ("must be submitted before giving it"), subclasses of `str`/`int`/`float`, mutation
of a list/dict after it was stored.  Import-free and executable. -/
namespace XpmVerif.Validate

/-! ### Behaviour switches of the source

Places where the current source departs from the property (findings F10, F11 and others found while
building this check) or raises an unexpected exception class.  The harness *probes* the real code for each of them on its witness input and
sends the result with every case, so that the correspondence check compares the code with the variant
it really is; the property theorems name the switch values they need. -/
structure Impl where
  /-- F10: `UnionType.validate` falls off its end (returns `None`) for an unmatched `dict`. -/
  unionDictNone : Bool
  /-- `EnumType.validate` uses `assert`: a mismatch raises `AssertionError`, which `UnionType.validate`
      does not catch. -/
  enumAssert : Bool
  /-- `ObjectType.validate(None)` returns `None` (reachable for elements of lists/dicts/unions). -/
  cfgNoneOk : Bool
  /-- F11 repaired: `ConfigInformation.validate` also descends into list and dict values. -/
  deepValidate : Bool
  /-- `EnumType` has neither `name()` nor `identifier`: formatting the "value is not within the types"
      message of a union that mentions an enum raises `AttributeError` instead of the `ValueError`. -/
  enumNameFails : Bool
  /-- a validation that raises clears the `_validated` flags it has set (as found: the flag is set before
      the checks, l.707, and stays set when they raise) -/
  resetOnFail : Bool
deriving DecidableEq, Repr

/-- the source as it is at the time of writing -/
def Impl.current : Impl := ⟨true, true, true, false, true, false⟩
/-- the source with the proposed patches -/
def Impl.repaired : Impl := ⟨false, false, false, true, false, true⟩

/-- exception classes, as far as the code distinguishes them: `invalid` = `TypeError`/`ValueError`
    (the two classes `UnionType.validate` catches), `assertion` = `AssertionError`, `overflow` =
    `OverflowError`, `attribute` = `AttributeError` raised by `ConfigInformation.set`. -/
inductive Err | invalid | assertion | overflow | attribute
deriving DecidableEq, Repr

/-! ### Python values -/

/-- An IEEE double: `fin neg m e` is `(-1)^neg * m * 2^e`, canonical when `m` is odd or `m = 0 ∧ e = 0`. -/
inductive Fl
  | fin (neg : Bool) (m : Nat) (e : Int)
  | inf (neg : Bool)
  | nan
deriving DecidableEq, Repr

namespace Fl

def truthy : Fl → Bool
  | fin _ m _ => m != 0
  | _ => true

/-- the exact integer value of a finite float without fractional part (`math.modf(x)[0] == 0`) -/
def toInt? : Fl → Option Int
  | fin neg m e =>
    if m = 0 then some 0
    else if 0 ≤ e then some ((if neg then -1 else 1) * ((m * 2 ^ e.toNat : Nat) : Int))
    else none
  | _ => none

def strip : Nat → Nat → Int → Nat × Int
  | 0, m, e => (m, e)
  | f + 1, m, e => if m != 0 && m % 2 == 0 then strip f (m / 2) (e + 1) else (m, e)

/-- `float(n)` for a natural number: round to 53 bits, ties to even; `none` = `OverflowError`. -/
def ofNat? (a : Nat) : Option (Nat × Int) :=
  let bits := if a = 0 then 0 else Nat.log2 a + 1
  if bits ≤ 53 then some (strip 64 a 0)
  else
    let sh := bits - 53
    let q := a >>> sh
    let r := a % 2 ^ sh
    let half := 2 ^ (sh - 1)
    let q' := if r > half || (r == half && q % 2 == 1) then q + 1 else q
    if q' * 2 ^ sh ≥ 2 ^ 1024 then none else some (strip 64 q' (sh : Int))

def ofInt? (i : Int) : Option Fl :=
  match ofNat? i.natAbs with
  | none => none
  | some (m, e) => some (fin (decide (i < 0)) m e)

/-- `==` on floats, extended by identity (`x is y or x == y`, what container comparison uses):
    `0.0 == -0.0`, and a NaN equals itself. -/
def eq : Fl → Fl → Bool
  | fin n m e, fin n' m' e' => (m == 0 && m' == 0) || (n == n' && m == m' && e == e')
  | inf n, inf n' => n == n'
  | nan, nan => true
  | _, _ => false

end Fl

/-- keys of a `dict` value: strings, integers, anything else hashable -/
inductive Key
  | str (s : String)
  | int (i : Int)
  | other (tag : String)
deriving DecidableEq, Repr

inductive PyVal
  | none
  | bool (b : Bool)
  | int (i : Int)
  | float (f : Fl)
  | str (s : String)
  /-- a `pathlib.Path`, by its normalised string -/
  | path (s : String)
  | enumMember (cls : Nat) (name : String)
  | list (vs : List PyVal)
  | tuple (vs : List PyVal)
  /-- a `dict`, keys and values in insertion order (two lists of the same length) -/
  | dict (ks : List Key) (vs : List PyVal)
  /-- a configuration object: the classes it is an instance of (its own class and all ancestors) and the
      object identity (the node of the configuration graph) -/
  | config (mro : List Nat) (id : Nat)
  /-- any other Python object (`bytes`, `set`, …) with its truth value -/
  | other (tag : String) (truthy : Bool)
deriving Repr

namespace PyVal

/-- `bool(v)` -/
def truthy : PyVal → Bool
  | none => false
  | bool b => b
  | int i => i != 0
  | float f => f.truthy
  | str s => s != ""
  | path _ => true
  | enumMember _ _ => true
  | list vs => !vs.isEmpty
  | tuple vs => !vs.isEmpty
  | dict ks _ => !ks.isEmpty
  | config _ _ => true
  | other _ t => t

def isDict : PyVal → Bool
  | dict _ _ => true
  | _ => false

end PyVal

/-! ### Type expressions (`Type.fromType`) -/

inductive Ty
  | bool | int | float | str | path
  | enum (cls : Nat)
  | cfg (cls : Nat)
  /-- `Optional[t]` (only at the top of an annotation) -/
  | opt (t : Ty)
  | list (t : Ty)
  /-- `Dict[str, v]` -/
  | dict (v : Ty)
  | union (ts : List Ty)
  /-- `experimaestro.core.types.Any` (only at the top of an annotation) -/
  | any
deriving Repr

namespace Ty

mutual
/-- what may appear below the top of an annotation: no `Optional` (`Type.fromType` has no case for
    `NoneType`), unions of at least two alternatives -/
def inner : Ty → Bool
  | opt _ => false
  | list t => t.inner
  | dict t => t.inner
  | union ts => innerAll ts && decide (2 ≤ ts.length)
  | _ => true
def innerAll : List Ty → Bool
  | [] => true
  | t :: ts => t.inner && innerAll ts
end

def isAny : Ty → Bool
  | any => true
  | _ => false

/-- annotations for which `ArgumentOptions.create` builds a type: `Optional` only at the top;
    `Optional[Union[…]]` is *not* recognised (`get_optional` wants exactly two arguments) and a
    two-argument union with `Any` at the top makes `get_optional` raise. -/
def declarable : Ty → Bool
  | any => true
  | opt (union _) => false
  | opt any => false
  | opt t => t.inner
  | union [a, b] => !a.isAny && !b.isAny && a.inner && b.inner
  | t => t.inner

mutual
/-- `Type.name()` raises for this type (it reaches `EnumType`, which has no `identifier`) -/
def nameFails : Ty → Bool
  | enum _ => true
  | list t => t.nameFails
  | dict t => t.nameFails
  | opt t => t.nameFails
  | union ts => nameFailsAny ts
  | _ => false
def nameFailsAny : List Ty → Bool
  | [] => false
  | t :: ts => t.nameFails || nameFailsAny ts
end

/-- the grammar of the property statement: scalars, enums, paths, lists, dicts, optionals,
    configuration classes (no `Union`) -/
def unionFree : Ty → Bool
  | opt t => t.unionFree
  | list t => t.unionFree
  | dict t => t.unionFree
  | union _ => false
  | _ => true

mutual
/-- no configuration class anywhere in the type -/
def cfgFree : Ty → Bool
  | cfg _ => false
  | opt t => t.cfgFree
  | list t => t.cfgFree
  | dict t => t.cfgFree
  | union ts => cfgFreeAll ts
  | _ => true
def cfgFreeAll : List Ty → Bool
  | [] => true
  | t :: ts => t.cfgFree && cfgFreeAll ts
end

mutual
/-- alternatives a union may list inside the domain of `validate_conforming_id_union`: types whose
    `validate` neither converts to an unequal value (`str`→`Path`, large `int`→`float`, anything→`bool`)
    nor accepts everything -/
def alt : Ty → Bool
  | int => true
  | str => true
  | enum _ => true
  | cfg _ => true
  | list t => t.alt
  | dict t => t.alt
  | union ts => altAll ts
  | _ => false
def altAll : List Ty → Bool
  | [] => true
  | t :: ts => t.alt && altAll ts
end

/-- every union in the type lists only `alt` alternatives -/
def unionDom : Ty → Bool
  | opt t => t.unionDom
  | list t => t.unionDom
  | dict t => t.unionDom
  | union ts => altAll ts
  | _ => true

end Ty

/-! ### `Type.validate` -/

/-- `PurePosixPath(s)` as a string: empty and `.` components dropped, `//` root kept -/
def pnorm (s : String) : String :=
  let parts := (s.splitOn "/").filter (fun p => p != "" && p != ".")
  let root := if s.startsWith "//" && !s.startsWith "///" then "//" else if s.startsWith "/" then "/" else ""
  let body := "/".intercalate parts
  if root == "" && body == "" then "." else root ++ body

/-- `IntType.validate` -/
def vInt : PyVal → Except Err PyVal
  | .float .nan => .error .invalid            -- modf(nan) = (nan, nan); nan != 0
  | .float (.inf _) => .error .overflow       -- modf(inf) = (0.0, inf); int(inf)
  | .float (.fin n m e) =>
    match (Fl.fin n m e).toInt? with
    | some i => .ok (.int i)
    | none => .error .invalid
  | .int i => .ok (.int i)
  | .bool b => .ok (.bool b)                   -- isinstance(True, int)
  | _ => .error .invalid

/-- `FloatType.validate` -/
def vFloat : PyVal → Except Err PyVal
  | .float f => .ok (.float f)
  | .int i =>
    match Fl.ofInt? i with
    | some f => .ok (.float f)
    | none => .error .overflow
  | .bool b => .ok (.float (.fin false (if b then 1 else 0) 0))
  | _ => .error .invalid

/-- `StrType.validate` -/
def vStr : PyVal → Except Err PyVal
  | .str s => .ok (.str s)
  | _ => .error .invalid

def lookup (k : String) : List Key → List PyVal → Option PyVal
  | .str k' :: ks, v :: vs => if k' == k then some v else lookup k ks vs
  | _ :: ks, _ :: vs => lookup k ks vs
  | _, _ => none

/-- `Path(x)` for the `$value` entry of a serialised path -/
def pathOf : Option PyVal → Except Err PyVal
  | some (.str s) => .ok (.path (pnorm s))
  | some (.path s) => .ok (.path s)
  | _ => .error .invalid

def isPathTag : Option PyVal → Bool
  | some (.str s) => s == "path"
  | _ => false

/-- `PathType.validate` -/
def vPath : PyVal → Except Err PyVal
  | .dict ks vs => if isPathTag (lookup "$type" ks vs) then pathOf (lookup "$value" ks vs) else .error .invalid
  | .str s => .ok (.path (pnorm s))
  | .path s => .ok (.path s)
  | _ => .error .invalid

/-- `EnumType.validate` -/
def vEnum (I : Impl) (c : Nat) : PyVal → Except Err PyVal
  | .enumMember c' n => if c' = c then .ok (.enumMember c' n) else .error (if I.enumAssert then .assertion else .invalid)
  | _ => .error (if I.enumAssert then .assertion else .invalid)

/-- `ObjectType.validate` -/
def vCfg (I : Impl) (c : Nat) : PyVal → Except Err PyVal
  | .none => if I.cfgNoneOk then .ok .none else .error .invalid
  | .config mro id => if c ∈ mro then .ok (.config mro id) else .error .invalid
  | _ => .error .invalid

/-- `[f(x) for x in vs]`: stops at the first exception -/
def mapE (f : PyVal → Except Err PyVal) : List PyVal → Except Err (List PyVal)
  | [] => .ok []
  | v :: vs =>
    match f v with
    | .error e => .error e
    | .ok w =>
      match mapE f vs with
      | .error e => .error e
      | .ok ws => .ok (w :: ws)

def keyOk : Key → Bool
  | .str _ => true
  | _ => false

/-- `{str.validate(k): f(v) for k, v in items}`: key first, then value, item by item
    (a `dict` value has as many keys as values; anything else is not a Python value and is rejected) -/
def mapD (f : PyVal → Except Err PyVal) : List Key → List PyVal → Except Err (List PyVal)
  | [], [] => .ok []
  | k :: ks, v :: vs =>
    if keyOk k then
      match f v with
      | .error e => .error e
      | .ok w =>
        match mapD f ks vs with
        | .error e => .error e
        | .ok ws => .ok (w :: ws)
    else .error .invalid
  | _, _ => .error .invalid

mutual
/-- `Type.validate` for the type built from `t` -/
def validate (I : Impl) : Ty → PyVal → Except Err PyVal
  | .bool, v => .ok (.bool v.truthy)
  | .int, v => vInt v
  | .float, v => vFloat v
  | .str, v => vStr v
  | .path, v => vPath v
  | .enum c, v => vEnum I c v
  | .cfg c, v => vCfg I c v
  | .any, v => .ok v
  | .opt _, .none => .ok .none
  | .opt t, v => validate I t v
  | .list t, .list vs =>
    match mapE (validate I t) vs with
    | .ok ws => .ok (.list ws)
    | .error e => .error e
  | .list _, _ => .error .invalid
  | .dict t, .dict ks vs =>
    match mapD (validate I t) ks vs with
    | .ok ws => .ok (.dict ks ws)
    | .error e => .error e
  | .dict _, _ => .error .invalid
  | .union ts, v =>
    match validateU I ts v with
    | some r => r
    | none =>
      if I.unionDictNone && v.isDict then .ok .none
      else .error (if I.enumNameFails && Ty.nameFailsAny ts then .attribute else .invalid)
/-- the loop of `UnionType.validate`: the first alternative that does not raise `ValueError`/`TypeError`
    decides (any other exception propagates); `none` = every alternative raised one of the two -/
def validateU (I : Impl) : List Ty → PyVal → Option (Except Err PyVal)
  | [], _ => none
  | t :: ts, v =>
    match validate I t v with
    | .ok w => some (.ok w)
    | .error .invalid => validateU I ts v
    | .error e => some (.error e)
end

/-! ### Membership in the declared type -/

mutual
/-- `conforms t v`: the Python value `v` is a value of the declared type `t`
    (`True`/`False` are `int`s in Python; a configuration conforms to every class of its MRO). -/
def conforms : Ty → PyVal → Bool
  | .bool, .bool _ => true
  | .int, .int _ => true
  | .int, .bool _ => true
  | .float, .float _ => true
  | .str, .str _ => true
  | .path, .path _ => true
  | .enum c, .enumMember c' _ => c' == c
  | .cfg c, .config mro _ => mro.contains c
  | .any, _ => true
  | .opt _, .none => true
  | .opt t, v => conforms t v
  | .list t, .list vs => vs.all (conforms t)
  | .dict t, .dict ks vs => ks.length == vs.length && ks.all keyOk && vs.all (conforms t)
  | .union ts, v => conformsAny ts v
  | _, _ => false
def conformsAny : List Ty → PyVal → Bool
  | [], _ => false
  | t :: ts, v => conforms t v || conformsAny ts v
end

/-! ### Python equality -/

inductive Num | i (n : Int) | f (x : Fl)

def numOf : PyVal → Option Num
  | .bool b => some (.i (if b then 1 else 0))
  | .int n => some (.i n)
  | .float x => some (.f x)
  | _ => none

/-- `int`/`bool`/`float` compare by exact numeric value -/
def Num.eq : Num → Num → Bool
  | .i a, .i b => a == b
  | .f x, .f y => x.eq y
  | .i a, .f x => x.toInt? == some a
  | .f x, .i a => x.toInt? == some a

mutual
/-- `a == b` in Python (`a is b or a == b` for NaN).  For dicts the same keys in the same order are
    required, which implies Python's order-insensitive equality. -/
def pyEq : PyVal → PyVal → Bool
  | .none, .none => true
  | .bool a, w => match numOf w with | some y => (Num.i (if a then 1 else 0)).eq y | none => false
  | .int a, w => match numOf w with | some y => (Num.i a).eq y | none => false
  | .float a, w => match numOf w with | some y => (Num.f a).eq y | none => false
  | .str a, .str b => a == b
  | .path a, .path b => a == b
  | .enumMember c n, .enumMember c' n' => c == c' && n == n'
  | .list a, .list b => pyEqL a b
  | .tuple a, .tuple b => pyEqL a b
  | .dict ka a, .dict kb b => ka == kb && pyEqL a b
  | .config _ i, .config _ j => i == j
  | .other s _, .other s' _ => s == s'
  | _, _ => false
def pyEqL : List PyVal → List PyVal → Bool
  | [], [] => true
  | a :: as, b :: bs => pyEq a b && pyEqL as bs
  | _, _ => false
end

/-! ### Arguments and `ConfigInformation.set` -/

structure ArgDecl where
  /-- the annotation (`Optional[…]` kept at the top) -/
  ty : Ty
  /-- a default value is declared -/
  hasDefault : Bool := false
  /-- a generator (`pathgenerator`, `field(default_factory=…)`) is declared -/
  generator : Bool := false
  constant : Bool := false
deriving Repr

def Ty.isOpt : Ty → Bool
  | .opt _ => true
  | _ => false

def Ty.stripOpt : Ty → Ty
  | .opt t => t
  | t => t

/-- `ArgumentOptions.create`: required iff not `Optional` and no default -/
def ArgDecl.required (a : ArgDecl) : Bool := !a.ty.isOpt && !a.hasDefault

/-- `ConfigInformation.set(k, v)` (not sealed, no bypass): the value stored, or the exception -/
def setArg (I : Impl) (a : ArgDecl) (v : PyVal) : Except Err PyVal :=
  if a.generator || a.constant then .error .attribute
  else match v with
    | .none => if a.required then .error .attribute else .ok .none
    | v => validate I a.ty.stripOpt v

/-! ### Configuration graphs, `ConfigInformation.validate`, `submit` -/

structure Node where
  cls : Nat
  /-- one entry per argument of the class, in the order of `xpmtype.arguments`; `none` = `None`/not set -/
  vals : List (Option PyVal)
  pre : List Nat := []
  init : List Nat := []
deriving Repr

structure Graph where
  /-- class id ↦ its arguments -/
  classes : List (List ArgDecl)
  nodes : List Node
  /-- the class ids that are `Task` subclasses (`ObjectType.task` is set) -/
  tasks : List Nat := []
deriving Repr

def Graph.args (g : Graph) (c : Nat) : List ArgDecl := g.classes.getD c []

/-- what the walk does for one argument, in order: visit a configuration, or fail -/
inductive Item
  | visit (n : Nat)
  | fail
deriving DecidableEq, Repr

mutual
/-- configurations inside a value, through lists and dicts (left to right) -/
def refsDeep : PyVal → List Nat
  | .config _ id => [id]
  | .list vs => refsDeepL vs
  | .dict _ vs => refsDeepL vs
  | _ => []
def refsDeepL : List PyVal → List Nat
  | [] => []
  | v :: vs => refsDeep v ++ refsDeepL vs
end

/-- `isinstance(value, Config)` only -/
def refsTop : PyVal → List Nat
  | .config _ id => [id]
  | _ => []

def refs (deep : Bool) (v : PyVal) : List Nat := if deep then refsDeep v else refsTop v

/-- one iteration of the loop of `ConfigInformation.validate` (l.710-720) -/
def argItems (deep : Bool) (a : ArgDecl) : Option PyVal → List Item
  | some .none => if a.required && !a.generator then [.fail] else []
  | some v => (refs deep v).map .visit
  | none => if a.required && !a.generator then [.fail] else []

def argsItems (deep : Bool) : List ArgDecl → List (Option PyVal) → List Item
  | [], _ => []
  | a :: as, [] => argItems deep a none ++ argsItems deep as []
  | a :: as, v :: vs => argItems deep a v ++ argsItems deep as vs

/-- everything `validate` does at node `n`: arguments, then pre-tasks, then init tasks -/
def nodeItems (deep : Bool) (g : Graph) (n : Nat) : List Item :=
  match g.nodes[n]? with
  | none => []
  | some nd => argsItems deep (g.args nd.cls) nd.vals ++ nd.pre.map .visit ++ nd.init.map .visit

inductive Out | ok | missing | fuel
deriving DecidableEq, Repr

/-- the loop body over the items of one node; `cb` validates a configuration -/
def walkItems (cb : List Nat → Nat → Out × List Nat) : List Nat → List Item → Out × List Nat
  | vis, [] => (.ok, vis)
  | vis, .fail :: _ => (.missing, vis)
  | vis, .visit m :: r =>
    match cb vis m with
    | (.ok, vis') => walkItems cb vis' r
    | res => res

/-- `ConfigInformation.validate` at node `n`.  `vis` is the set of nodes whose `_validated` flag is set
    (the flag is set *before* the checks, l.707, and stays set when the checks raise). -/
def walkNode (items : Nat → List Item) : Nat → List Nat → Nat → Out × List Nat
  | 0, vis, _ => (.fuel, vis)
  | f + 1, vis, n => if n ∈ vis then (.ok, vis) else walkItems (walkNode items f) (n :: vis) (items n)

/-- `root.__xpm__.validate()` when the nodes in `vis` carry the `_validated` flag from earlier calls:
    the outcome and the flags afterwards -/
def validateFrom (I : Impl) (g : Graph) (vis : List Nat) (root : Nat) : Out × List Nat :=
  let r := walkNode (nodeItems I.deepValidate g) (g.nodes.length + 1) vis root
  if I.resetOnFail && r.1 != .ok then (r.1, vis) else r

/-- `root.__xpm__.validate()` on fresh objects -/
def validateGraph (I : Impl) (g : Graph) (root : Nat) : Out := (validateFrom I g [] root).1

def visits (l : List Item) : List Nat := l.filterMap fun | .visit m => some m | .fail => none
def hasFail (l : List Item) : Bool := l.contains .fail

/-- a required argument without generator has no value at node `n` -/
def nodeMissing (g : Graph) (n : Nat) : Bool := hasFail (nodeItems false g n)

/-- edges followed by the validation walk of variant `I` -/
def succs (I : Impl) (g : Graph) (n : Nat) : List Nat := visits (nodeItems I.deepValidate g n)

/-- every edge of the parameter graph: configurations in values (also inside lists and dicts),
    pre-tasks, init tasks -/
def allSuccs (g : Graph) (n : Nat) : List Nat := visits (nodeItems true g n)

inductive Reach (S : Nat → List Nat) (a : Nat) : Nat → Prop
  | refl : Reach S a a
  | step {b c : Nat} : Reach S a b → c ∈ S b → Reach S a c

/-- the flags of earlier validations are trustworthy: every flagged node is complete and all the nodes
    the walk would visit from it are flagged -/
def FlagsOk (I : Impl) (g : Graph) (vis : List Nat) : Prop :=
  ∀ m ∈ vis, nodeMissing g m = false ∧ ∀ k ∈ succs I g m, k ∈ vis

/-- references stay inside the graph -/
def Graph.WF (g : Graph) : Prop := ∀ n, n < g.nodes.length → ∀ m ∈ allSuccs g n, m < g.nodes.length

/-- the scheduler registry, as far as this property looks at it -/
structure Sched where
  jobs : List Nat := []
deriving Repr

/-- `task.submit()`: validation comes first (l.978-980); the job is registered (`experiment.submit`,
    l.1012) only when it passed -/
def submit (I : Impl) (g : Graph) (s : Sched) (root : Nat) : Out × Sched :=
  match validateGraph I g root with
  | .ok => (.ok, { s with jobs := root :: s.jobs })
  | o => (o, s)

/-! ### Histories: several assignments and submit attempts over the same objects

`ConfigInformation.submit` stores `self.job` (l.974) *before* `validate_and_seal` and leaves it there when
the validation raises; `ObjectType.validate` only asks for that attribute when a task is given as a
parameter value ("The value must be submitted before giving it").  A task whose submission was rejected
can therefore be given to another task. -/

structure HState where
  g : Graph
  /-- `_validated` -/
  flags : List Nat := []
  /-- nodes whose `job` attribute is set (registered or not) -/
  jobAttr : List Nat := []
  /-- `_sealed` -/
  sealed : List Nat := []
  /-- `xp.scheduler.jobs` -/
  registry : List Nat := []
deriving Repr

inductive HOp
  /-- `node.submit()` -/
  | submit (n : Nat)
  /-- `node.<k-th argument> = v` -/
  | assign (n k : Nat) (v : PyVal)
deriving Repr

inductive HOut
  | accepted
  /-- the validation raised (`ValueError`) -/
  | rejected (o : Out)
  /-- "task … was already submitted" (`Exception`) -/
  | already
  /-- "… is not a task" (`ValueError`) -/
  | notTask
  | stored
  /-- sealed object, generated or constant argument (`AttributeError`) -/
  | readonly
  /-- `TypeError`/`ValueError` of the type validation, or a task value without `job` -/
  | invalid
  | noSuchNode
deriving DecidableEq, Repr

/-- a task-typed place of the value holds a task that never went through `submit()` -/
def unsubmitted (tasks jobAttr : List Nat) : Ty → PyVal → Bool
  | .cfg c, .config _ m => tasks.contains c && !jobAttr.contains m
  | .opt t, v => unsubmitted tasks jobAttr t v
  | .list t, .list vs => vs.any (unsubmitted tasks jobAttr t)
  | .dict t, .dict _ vs => vs.any (unsubmitted tasks jobAttr t)
  | _, _ => false

def Graph.setVal (g : Graph) (n k : Nat) (v : PyVal) : Graph :=
  match g.nodes[n]? with
  | none => g
  | some nd => { g with nodes := g.nodes.set n { nd with vals := nd.vals.set k (some v) } }

/-- `seal`: every node reachable through values (lists and dicts included), pre-tasks and init tasks -/
def sealWalk (g : Graph) (root : Nat) : List Nat :=
  (walkNode (fun n => (visits (nodeItems true g n)).map .visit) (g.nodes.length + 1) [] root).2

def hstep (I : Impl) (s : HState) : HOp → HOut × HState
  | .submit n =>
    if n ∈ s.jobAttr then (.already, s)
    else match s.g.nodes[n]? with
      | none => (.noSuchNode, s)
      | some nd =>
        if !s.g.tasks.contains nd.cls then (.notTask, s)
        else
          let r := validateFrom I s.g s.flags n
          if r.1 = .ok then
            (.accepted, { s with jobAttr := n :: s.jobAttr, flags := r.2, sealed := sealWalk s.g n ++ s.sealed,
                                 registry := n :: s.registry })
          else (.rejected r.1, { s with jobAttr := n :: s.jobAttr, flags := r.2 })
  | .assign n k v =>
    if n ∈ s.sealed then (.readonly, s)
    else match s.g.nodes[n]? with
      | none => (.noSuchNode, s)
      | some nd =>
        match (s.g.args nd.cls)[k]? with
        | none => (.noSuchNode, s)
        | some a =>
          match setArg I a v with
          | .error .attribute => (.readonly, s)
          | .error _ => (.invalid, s)
          | .ok w =>
            if unsubmitted s.g.tasks s.jobAttr a.ty w then (.invalid, s)
            else (.stored, { s with g := s.g.setVal n k w })

/-- the run of a history: (state before, operation, outcome) for every operation -/
def hrun (I : Impl) : HState → List HOp → List (HState × HOp × HOut)
  | _, [] => []
  | s, op :: ops => (s, op, (hstep I s op).1) :: hrun I (hstep I s op).2 ops

/-- every assignment of the history goes to an object that no successful validation has flagged
    (such an object is sealed, the real assignment raises) -/
def Admissible (I : Impl) : HState → List HOp → Prop
  | _, [] => True
  | s, op :: ops => (∀ n k v, op = .assign n k v → n ∉ s.flags) ∧ Admissible I (hstep I s op).2 ops

end XpmVerif.Validate
