/-! M9 (first half): the job filter of `cli/filter.py`.

    * `Expr` — what `createFilter` accepts: a flat chain `atom (op atom)*` (the entry point is
      `logicExpr`; the parenthesised productions of the grammar are never reached).
    * `evalSpec` — the documented meaning (`=`, `in`, `not in`, `~`, chain folded left to right).
    * `Obj`, `summary`, `Obj.filter`, `evalImpl` — the expression *objects* the parse actions build
      (`LogicExpr.summary` links every `LogicExpr(op, y)` to its left neighbour through `.x`) and
      their `filter` methods, which evaluate the right operand `y` first.
    * `Quirks` — the defects of the pinned source that the model can reproduce (all flags `false`
      = repaired code).  The theorems of C19 are about `Quirks.none`; the flags exist so that the
      correspondence check can also follow a source that still has the defect, and so that the
      defect itself is a (negative) theorem.

    Regular-expression matching is a parameter `rx pat v` ("`re.compile(pat).match(v)` succeeds"). -/
namespace XpmVerif.Filter

/-- defects of the pinned source (`406b0b9`) reproduced by the model when the flag is set. -/
structure Quirks where
  /-- F14: `BaseInExpr` keeps the `ConstantString` parse objects, so `value in self.values` compares a
      `str` with objects: `in` is always false and `not in` always true. -/
  memberObj : Bool := false
  /-- F14: `RegexExpr.__init__` calls `re.compile` on a `ConstantString` object (`TypeError` while
      parsing, i.e. `createFilter` raises). -/
  regexRaises : Bool := false
  /-- F21: `process()` records experiment membership under the task *script name*. -/
  xpByScript : Bool := false
  /-- F17: `JobInformation.state` tests `.failed` before `.pid`. -/
  failedFirst : Bool := false
  deriving Repr, DecidableEq

/-- the repaired code. -/
def Quirks.none : Quirks := {}
/-- the pinned source. -/
def Quirks.legacy : Quirks := { memberObj := true, regexRaises := true, xpByScript := true, failedFirst := true }

/-- a variable of the filter language: `@state`, `@name` or a tag. -/
inductive Var where
  | state
  | name
  | tag (t : String)
  deriving Repr, DecidableEq

/-- one comparison (`matchExpr` of the grammar). -/
inductive Atom where
  | eqVar (v w : Var)                    -- `v = w`
  | eqConst (v : Var) (c : String)       -- `v = "c"`
  | isIn (v : Var) (cs : List String)    -- `v in ["a", "b"]`
  | notIn (v : Var) (cs : List String)   -- `v not in ["a", "b"]`
  | regex (v : Var) (pat : String)       -- `v ~ "pat"`
  deriving Repr, DecidableEq

inductive Op where
  | and
  | or
  deriving Repr, DecidableEq

/-- `atom (op atom)*` -/
structure Expr where
  first : Atom
  rest : List (Op × Atom)
  deriving Repr, DecidableEq

/-- what a filter can see of a job (`JobInformation`): state name (`None` when no marker file exists),
    the name of the task (directory `jobs/<name>/<id>`), the tags of `params.json`. -/
structure Info where
  state : Option String
  name : String
  tags : List (String × String)
  deriving Repr, DecidableEq

def lookup (k : String) : List (String × String) → Option String
  | [] => none
  | (a, b) :: r => if a = k then some b else lookup k r

/-- `VarExpr.get` -/
def Var.get (i : Info) : Var → Option String
  | .state => i.state
  | .name => some i.name
  | .tag t => lookup t i.tags

abbrev Rx := String → String → Bool

/-! ### documented meaning -/

/-- membership of the variable's value in the list (a missing value is in no list). -/
def memberOf (x : Option String) (cs : List String) : Bool :=
  match x with
  | some s => cs.contains s
  | none => false

/-- the variable has a non-empty value that the expression matches. -/
def rxMatch (rx : Rx) (pat : String) (x : Option String) : Bool :=
  match x with
  | some s => if s = "" then false else rx pat s
  | none => false

def Atom.spec (rx : Rx) (i : Info) : Atom → Bool
  | .eqVar v w => decide (v.get i = w.get i)
  | .eqConst v c => decide (v.get i = some c)
  | .isIn v cs => memberOf (v.get i) cs
  | .notIn v cs => !memberOf (v.get i) cs
  | .regex v pat => rxMatch rx pat (v.get i)

def Op.apply : Op → Bool → Bool → Bool
  | .and, a, b => a && b
  | .or, a, b => a || b

/-- the chain is folded from the left: `a or b and c` is `(a or b) and c`. -/
def evalSpec (rx : Rx) (e : Expr) (i : Info) : Bool :=
  e.rest.foldl (fun acc p => p.1.apply acc (p.2.spec rx i)) (e.first.spec rx i)

/-! ### the implementation's objects -/

/-- `EqExpr.filter`, `InExpr.filter`, `NotInExpr.filter`, `RegexExpr.filter` (truth value of the result). -/
def Atom.impl (q : Quirks) (rx : Rx) (i : Info) : Atom → Bool
  | .eqVar v w => decide (v.get i = w.get i)
  | .eqConst v c => decide (v.get i = some c)
  | .isIn v cs => if q.memberObj then false else memberOf (v.get i) cs
  | .notIn v cs => if q.memberObj then true else !memberOf (v.get i) cs
  | .regex v pat => rxMatch rx pat (v.get i)

/-- the object graph after parsing: a match object, or a `LogicExpr` with operator, right operand `y`
    and the object to its left `x`. -/
inductive Obj where
  | atom (a : Atom)
  | logic (op : Op) (y : Atom) (x : Obj)
  deriving Repr

/-- `LogicExpr.summary`: `tokens[1].x = tokens[0]`, then each later token's `x` is its predecessor;
    the last token is returned. -/
def summary (e : Expr) : Obj :=
  e.rest.foldl (fun v p => Obj.logic p.1 p.2 v) (Obj.atom e.first)

/-- `LogicExpr.filter`: `self.y.filter(info) and/or self.x.filter(info)` — `y` first. -/
def Obj.filter (q : Quirks) (rx : Rx) (i : Info) : Obj → Bool
  | .atom a => a.impl q rx i
  | .logic .and y x => if y.impl q rx i then x.filter q rx i else false
  | .logic .or y x => if y.impl q rx i then true else x.filter q rx i

def Atom.isRegex : Atom → Bool
  | .regex _ _ => true
  | _ => false

def Expr.atoms (e : Expr) : List Atom := e.first :: e.rest.map (·.2)

/-- `createFilter`: `none` when parsing raises (quirk `regexRaises`: any `~` comparison). -/
def compile (q : Quirks) (e : Expr) : Option Obj :=
  if q.regexRaises && e.atoms.any Atom.isRegex then none else some (summary e)

/-- truth value of `createFilter(text)(info)`; `none` = `createFilter` raised. -/
def evalImpl (q : Quirks) (rx : Rx) (e : Expr) (i : Info) : Option Bool :=
  (compile q e).map (fun o => o.filter q rx i)

end XpmVerif.Filter
