"""Worker process for C12 / C13: builds real configuration graphs from specs (xv.gen.cfggen), drives
the real serialiser / loader / instance builder, and emits (a) the driver lines for Drive/Serial.lean
with the canonicalised outcome of the real code for each line, (b) implementation-only monitor
verdicts.

usage: python -m xv.impl.serial_worker <in.json> <out.json>
in:  {"libs": [lib], "cases": [{"lib": i, "kind": "c12"|"c13"|"witness", ...}]}
out: [{"lines": [...], "impl": [...], "monitors": [{"key","what","detail"}], "stats": {...}, "error": str|None}]

Class libraries may declare `decl: "data"` arguments (DataPath); they and the logging methods
(`__init__`, `__post_init__`, `execute` appending to the module `xvlog`) are added through
`emit_source(lib, extra_body)`.  Data files live under <root>/data and appear as /XVDATA/... in specs
and outputs."""
import copy
import json
import os
import shutil
import struct
import sys
import tempfile
import traceback
from enum import Enum
from pathlib import Path

DATA_TAG = "/XVDATA"

XVLOG_SRC = '''
"""call log of the generated classes (C13) and canonical description of object graphs"""
import struct
from enum import Enum
from pathlib import Path
LOG = []


def log(kind, obj):
    names = [n for n in obj.__xpmtype__.arguments if n in vars(obj)]
    LOG.append((kind, obj, names, getattr(obj, "__tags__", None) if kind == "exec" else None))
    import os
    echo = os.environ.get("XV_ECHO")
    if echo:   # a real job process: write what the task code observes
        import json
        rec = {"kind": kind, "obj": _oid(obj), "cls": type(obj).__mro__[1].__name__, "names": names}
        if kind == "exec":
            rec["tags"] = getattr(obj, "__tags__", None)
            rec["desc"] = describe(obj, lambda o: {n: vars(o)[n] for n in o.__xpmtype__.arguments if n in vars(o)})
        with open(echo, "at") as fp:
            fp.write(json.dumps(rec) + chr(10))


_OIDS = {}
_KEEP = []


def _oid(o):
    if id(o) not in _OIDS:
        _OIDS[id(o)] = len(_OIDS)
        _KEEP.append(o)
    return _OIDS[id(o)]


def hx(s):
    return s.encode("utf-8").hex()


def plain(v, ref):
    if v is None:
        return None
    if isinstance(v, bool):
        return {"b": v}
    if isinstance(v, float):
        return {"f": struct.pack("!d", v).hex()}
    if isinstance(v, int):
        return {"i": str(v)}
    if isinstance(v, str):
        return {"s": hx(v)}
    if isinstance(v, Enum):
        k = v.__class__
        return {"e": hx(f"{k.__module__}.{k.__qualname__}:{v.name}")}
    if isinstance(v, Path):
        return {"p": hx(str(v))}
    if isinstance(v, list):
        return {"l": [plain(x, ref) for x in v]}
    if isinstance(v, dict):
        return {"d": [[hx(k), plain(x, ref)] for k, x in v.items()]}
    if hasattr(v, "__xpmtype__"):
        return {"r": ref(v)}
    return {"unsupported": type(v).__name__}


def clsname(o):
    for k in type(o).__mro__:
        if k.__dict__.get("__XPMValue__") is not None or k.__dict__.get("__xpmid__") is not None:
            return f"{k.__module__}:{k.__qualname__}"
    return type(o).__name__


def describe(root, values_of, data_as_str=False):
    """objects reachable from `root` through declared parameters, numbered by first visit"""
    index, order, nodes = {}, [], []

    def ref(o):
        if id(o) not in index:
            index[id(o)] = len(order)
            order.append(o)
        return index[id(o)]

    ref(root)
    i = 0
    while i < len(order):
        o = order[i]
        i += 1
        vals = []
        present = values_of(o)
        for name in o.__xpmtype__.arguments:
            if name not in present:
                continue
            v = present[name]
            if data_as_str and o.__xpmtype__.arguments[name].is_data and isinstance(v, Path):
                v = str(v)
            vals.append([hx(name), plain(v, ref)])
        nodes.append({"cls": clsname(o), "values": sorted(vals)})
    return nodes


def describe_instance(root):
    """runtime objects reachable from `root` through declared parameters, numbered by first visit"""
    index, order, nodes = {}, [], []

    def ref(o):
        if id(o) not in index:
            index[id(o)] = len(order)
            order.append(o)
        return index[id(o)]

    ref(root)
    i = 0
    while i < len(order):
        o = order[i]
        i += 1
        b = o.__xpmtype__.basetype
        vals = []
        for name in o.__xpmtype__.arguments:
            if name in vars(o):
                vals.append([hx(name), plain(vars(o)[name], ref)])
        nodes.append({"cls": hx(f"{b.__module__}:{b.__qualname__}"), "values": vals})
    return nodes
'''


def hx(s: str) -> str:
    return s.encode("utf-8").hex()


# ----------------------------------------------------------------- library


def strip_lib(lib):
    """the library without `data` arguments (emit_source does not know them)"""
    lib2 = copy.deepcopy(lib)
    for c in lib2["classes"]:
        c["args"] = [a for a in c["args"] if a["decl"] != "data"]
    return lib2


def make_extra_body(lib):
    data = {c["name"]: [a["name"] for a in c["args"] if a["decl"] == "data"] for c in lib["classes"]}

    def extra(c):
        out = []
        for n in data.get(c["name"], []):
            out.append(f'    {n}: __import__("experimaestro").DataPath')
        out += ["    def __init__(self):", '        __import__("xvlog").log("init", self)',
                "    def __post_init__(self):", '        __import__("xvlog").log("post", self)']
        if c["kind"] in ("task", "light"):
            out += ["    def execute(self):", '        __import__("xvlog").log("exec", self)']
        # user-defined special methods the machinery must not depend on (truth value, length, equality, iteration, attribute defaults)
        d = c.get("dunder", [])
        if "len" in d:
            cont = next((a["name"] for a in c["args"] if isinstance(a.get("ty"), dict) and ("list" in a["ty"] or "dict" in a["ty"])), None)
            out += ["    def __len__(self):", f"        v = vars(self).get({cont!r})", "        return len(v) if isinstance(v, (list, dict)) else 0"]
        if "bool" in d:
            out += ["    def __bool__(self):", "        return False"]
        if "eq" in d:
            out += ["    def __eq__(self, other):", "        return type(self) is type(other)", "    def __hash__(self):", "        return 7"]
        if "iter" in d:
            out += ["    def __iter__(self):", "        return iter(())"]
        if "getattr" in d:
            out += ["    def __getattr__(self, name):", "        if name.startswith('_'):", "            raise AttributeError(name)", "        return None"]
        return out

    return extra


def load_lib(lib, root):
    from . import cfgbuild
    (root / "xvlog.py").write_text(XVLOG_SRC)
    return cfgbuild.load_library(strip_lib(lib), root, make_extra_body(lib))


def localise(g, datadir):
    """spec graph with /XVDATA replaced by the real data directory"""
    def f(v):
        if isinstance(v, dict):
            if "p" in v and v["p"].startswith(DATA_TAG):
                return {"p": str(datadir) + v["p"][len(DATA_TAG):]}
            if "l" in v:
                return {"l": [f(x) for x in v["l"]]}
            if "d" in v:
                return {"d": [[k, f(x)] for k, x in v["d"]]}
        return v
    g2 = copy.deepcopy(g)
    for nd in g2["nodes"]:
        nd["values"] = [[k, f(v)] for k, v in nd["values"]]
    return g2


# ----------------------------------------------------------------- descriptions


class Canon:
    """canonicalisation of paths: data dir and save dirs never appear in outputs"""

    def __init__(self, datadir):
        self.repl = [(str(datadir), DATA_TAG)]

    def path(self, s):
        for a, b in self.repl:
            if s.startswith(a):
                return b + s[len(a):]
        return s


def defining_file(b):
    """the file whose execution created class `b` (code object of a method defined in its body), or None"""
    import types
    for v in vars(b).values():
        if isinstance(v, types.FunctionType):
            return v.__code__.co_filename
    return None


def type_key(t, canon):
    """class identity as `load_objects` resolves it: `module:qualname` for a class of a package,
    `<defining file>:qualname` for a class of a plain script / top-level module (recorded with "file")"""
    b = t.basetype
    t.arguments  # initialises the type (module / package / file detection)
    if getattr(t, "_package", None):
        return f"{b.__module__}:{b.__qualname__}"
    f = defining_file(b) or str(t._file)
    return f"{canon.path(str(f))}:{b.__qualname__}"


def cls_name(o, canon=None):
    return type_key(o.__xpmtype__, canon or Canon("/nonexistent-xv"))


def model_val(v, index, canon):
    from experimaestro import Config
    if v is None:
        return None
    if isinstance(v, bool):
        return {"b": v}
    if isinstance(v, float):
        return {"f": struct.pack("!d", v).hex()}
    if isinstance(v, int):
        return {"i": str(v)}
    if isinstance(v, str):
        return {"s": hx(v)}
    if isinstance(v, Enum):
        k = v.__class__
        return {"e": hx(f"{k.__module__}.{k.__qualname__}:{v.name}")}
    if isinstance(v, Path):
        return {"p": hx(canon.path(str(v)))}
    if isinstance(v, list):
        return {"l": [model_val(x, index, canon) for x in v]}
    if isinstance(v, dict):
        return {"d": [[hx(k), model_val(x, index, canon)] for k, x in v.items()]}
    if isinstance(v, Config):
        return {"r": index.get(id(v), -1)}
    raise ValueError(f"unsupported value {type(v)}")


def node_json(o, index, canon):
    x = o.__xpm__
    args = []
    for name, a in o.__xpmtype__.arguments.items():
        args.append({"name": hx(name), "ignored": bool(a.ignored), "generator": a.generator is not None,
                     "constant": bool(a.constant), "required": bool(a.required),
                     "default": model_val(a.default, index, canon), "value": model_val(x.values.get(name), index, canon)})
        if (name in x.values) != (x.values.get(name) is not None or not a.required):
            raise RuntimeError(f"presence invariant of the model broken for {name}")
    return {"typeId": hx(o.__xpmtype__.identifier.name), "cls": hx(cls_name(o, canon)), "args": args,
            "task": None if x.task is None else index.get(id(x.task), -1), "meta": x.meta, "sealed": bool(x._sealed),
            "pre": [index.get(id(p), -1) for p in x.pre_tasks], "init": [index.get(id(p), -1) for p in x.init_tasks],
            "tags": [[hx(k), model_val(v, index, canon)] for k, v in x._tags.items()]}


def lib_line(mod, lib, canon):
    return types_line([getattr(mod, c["name"]).__getxpmtype__() for c in lib["classes"]], canon)


def types_line(types, canon):
    """class templates: declared arguments with the state after the parameter-less __init__"""
    classes = []
    for t in types:
        args = []
        for name, a in t.arguments.items():
            init = a.default if a.default is not None else None
            args.append({"name": hx(name), "ignored": bool(a.ignored), "generator": a.generator is not None,
                         "constant": bool(a.constant), "required": bool(a.required),
                         "default": model_val(a.default, {}, canon), "value": model_val(init, {}, canon)})
        classes.append({"name": hx(type_key(t, canon)), "typeId": hx(t.identifier.name),
                        "args": args, "data": [hx(n) for n, a in t.arguments.items() if a.is_data]})
    return {"op": "lib", "classes": classes}


def canon_j(j, idmap, canon):
    """a JSON value written by the real serialiser -> the driver's JVal JSON"""
    if j is None:
        return None
    if isinstance(j, bool):
        return {"b": j}
    if isinstance(j, float):
        return {"f": struct.pack("!d", j).hex()}
    if isinstance(j, int):
        return {"i": str(j)}
    if isinstance(j, str):
        return {"s": hx(j)}
    if isinstance(j, list):
        return {"a": [canon_j(x, idmap, canon) for x in j]}
    if isinstance(j, dict):
        t = j.get("type")
        if t == "enum" and set(j) == {"type", "module", "enum", "value"}:
            return {"o": [[hx("type"), {"s": hx("enum")}], [hx("value"), {"s": hx(f"{j['module']}.{j['enum']}:{j['value']}")}]]}
        if t == "python" and set(j) == {"type", "value"}:
            return {"o": [[hx("type"), {"s": hx("python")}], [hx("value"), {"i": str(idmap.get(j["value"], -1))}]]}
        if t == "path" and set(j) == {"type", "value"}:
            return {"o": [[hx("type"), {"s": hx("path")}], [hx("value"), {"s": hx(canon.path(j["value"]))}]]}
        if t == "path.serialized" and set(j) == {"type", "value", "is_folder"}:
            return {"o": [[hx("type"), {"s": hx("path.serialized")}], [hx("value"), {"s": hx(canon.path(j["value"]))}],
                          [hx("is_folder"), {"b": False}]]}
        return {"o": [[hx(k), canon_j(v, idmap, canon)] for k, v in j.items()]}
    raise ValueError(type(j))


KNOWN_DEF_KEYS = {"id", "module", "type", "typename", "identifier", "fields", "pre-tasks", "init-tasks", "meta", "task", "file"}


def canon_defs(defs, idmap, canon):
    out = []
    for d in defs:
        extra = set(d) - KNOWN_DEF_KEYS
        if extra:
            raise RuntimeError(f"definition has members unknown to the model: {sorted(extra)}")
        out.append({"id": idmap.get(d["id"], -1), "cls": hx(f"{canon.path(d['file'])}:{d['type']}" if "file" in d else f"{d['module']}:{d['type']}"),
                    "fields": [[hx(k), canon_j(v, idmap, canon)] for k, v in d["fields"].items()],
                    "pre": [idmap.get(i, -1) for i in d["pre-tasks"]] if "pre-tasks" in d else None,
                    "init": [idmap.get(i, -1) for i in d["init-tasks"]] if "init-tasks" in d else None,
                    "meta": d.get("meta"), "task": idmap.get(d["task"], -1) if "task" in d else None,
                    "identifier": d["identifier"]})
    return out


def err_kind(e):
    if isinstance(e, KeyError):
        return "key-error"
    if isinstance(e, AttributeError):
        return "attribute-error"
    if isinstance(e, IndexError):
        return "index-error"
    if isinstance(e, AssertionError) and "Duplicate id" in str(e):
        return "duplicate-id"
    if isinstance(e, TypeError):
        return "type-error"
    if isinstance(e, ValueError):
        return "value-error"
    if "Unhandled type" in str(e):
        return "unhandled-type"
    if isinstance(e, RecursionError):
        return "recursion-error"
    return "other:" + type(e).__name__


def loaded_json(objects, defs, idmap, canon):
    """the objects created by load_objects (configuration mode), keyed by the *original* node index"""
    lindex = {id(o): idmap.get(k, -1) for k, o in objects.items()}
    out = []
    for d in defs:
        o = objects[d["id"]]
        nj = node_json(o, lindex, canon)
        nj.pop("tags", None)        # tags are not part of a definition: they travel in the "tags" member of params.json
        nj["id"] = idmap.get(d["id"], -1)
        out.append(nj)
    return out


# ----------------------------------------------------------------- structural monitors (implementation only)


class Differ(Exception):
    def __init__(self, kind, what):
        super().__init__(what)
        self.kind, self.what = kind, what


def cfg_view(o):
    x = o.__xpm__
    return {"cls": o.__xpmtype__, "values": dict(x.values), "meta": x.meta, "pre": list(x.pre_tasks), "init": list(x.init_tasks),
            "task": x.task}


def inst_type(o):
    """the ObjectType of the configuration class a runtime object (`K.XPMValue`) stands for"""
    for k in type(o).__mro__[1:]:
        if k.__dict__.get("__XPMValue__") is type(o):
            return k.__getxpmtype__()
    return o.__xpmtype__


def inst_view(o):
    return {"cls": inst_type(o), "values": {n: vars(o)[n] for n in o.__xpmtype__.arguments if n in vars(o)}, "meta": None, "pre": [],
            "init": [], "task": None}


def pair_walk(a_root, b_root, a_view, b_view, is_node, links=("pre", "init", "task"), data_eq=None, where="root", soft=None):
    """parallel traversal of two object graphs starting from two *values* (an object or a list/dict
    structure of objects); raises Differ at the first structural difference.  Returns the bijection id(a) -> b."""
    fwd, bwd = {}, {}
    todo = []

    def pair(a, b, at):
        if is_node(a) != is_node(b):
            raise Differ("value", f"{at}: {type(a).__name__} vs {type(b).__name__}")
        if is_node(a):
            if id(a) in fwd:
                if fwd[id(a)] is not b:
                    raise Differ("sharing", f"{at}: a shared object was duplicated")
                return
            if id(b) in bwd:
                raise Differ("sharing", f"{at}: two distinct objects were merged into one")
            fwd[id(a)] = b
            bwd[id(b)] = a
            todo.append((a, b, at))
            return
        if isinstance(a, list) and isinstance(b, list):
            if len(a) != len(b):
                raise Differ("value", f"{at}: list lengths {len(a)} vs {len(b)}")
            for i, (x, y) in enumerate(zip(a, b)):
                pair(x, y, f"{at}[{i}]")
            return
        if isinstance(a, dict) and isinstance(b, dict):
            if list(a.keys()) != list(b.keys()):
                raise Differ("value", f"{at}: dict keys {list(a.keys())} vs {list(b.keys())}")
            for k in a:
                pair(a[k], b[k], f"{at}[{k!r}]")
            return
        if type(a) is not type(b):
            if not (isinstance(a, Path) and isinstance(b, Path)):
                raise Differ("value", f"{at}: {type(a).__name__} {a!r} vs {type(b).__name__} {b!r}")
        if isinstance(a, float) and a != a and b != b:
            return
        if a != b:
            raise Differ("value", f"{at}: {a!r} vs {b!r}")

    pair(a_root, b_root, where)
    i = 0
    while i < len(todo):
        a, b, at = todo[i]
        i += 1
        va, vb = a_view(a), b_view(b)
        if va["cls"] is not vb["cls"]:
            raise Differ("class", f"{at}: class {va['cls']} vs {vb['cls']}")
        if set(va["values"].keys()) != set(vb["values"].keys()):
            raise Differ("value", f"{at}: parameters present {sorted(va['values'])} vs {sorted(vb['values'])}")
        for name in [n for n in va["cls"].arguments if n in va["values"]]:
            x, y = va["values"][name], vb["values"][name]
            arg = va["cls"].arguments[name]
            if data_eq is not None and arg.is_data and x is not None and y is not None:
                data_eq(x, y, f"{at}.{name}")
                continue
            pair(x, y, f"{at}.{name}")
        if "meta" in links and va["meta"] != vb["meta"]:
            if soft is None:
                raise Differ("meta", f"{at}: meta flag {va['meta']} vs {vb['meta']}")
            soft.append(("meta", f"{at}: meta flag {va['meta']} vs {vb['meta']}"))
        for l in ("pre", "init"):
            if l in links:
                if len(va[l]) != len(vb[l]):
                    if soft is None or l != "init":
                        raise Differ(l, f"{at}: {l}-tasks {len(va[l])} vs {len(vb[l])}")
                    soft.append((l, f"{at}: {l}-tasks {len(va[l])} vs {len(vb[l])}"))
                    continue
                for k, (x, y) in enumerate(zip(va[l], vb[l])):
                    pair(x, y, f"{at}.<{l}{k}>")
        if "task" in links:
            if (va["task"] is None) != (vb["task"] is None):
                raise Differ("task", f"{at}: task link {va['task'] is not None} vs {vb['task'] is not None}")
            if va["task"] is not None:
                pair(va["task"], vb["task"], f"{at}.<task>")
    return fwd


def is_cfg(v):
    from experimaestro import Config
    return isinstance(v, Config)


def compare_reloaded(orig_val, new_val, data_eq=None):
    """orig_val / new_val: a configuration or a list/dict structure of configurations.
    returns None or (kind, what)"""
    soft = []
    try:
        pair_walk(orig_val, new_val, cfg_view, cfg_view, is_cfg, links=("meta", "pre", "init", "task"), data_eq=data_eq, soft=soft)
    except Differ as d:
        soft.append((d.kind, d.what))
    seen, out = set(), []
    for k, w in soft:    # one report per kind of difference
        if k not in seen:
            seen.add(k)
            out.append((k, w))
    return out


def classify_reload_diff(kind):
    return {"meta": "meta-flag-lost", "init": "init-tasks-lost"}.get(kind, f"structure:{kind}")


# ----------------------------------------------------------------- C12


def reachable_all(root_objs):
    """configurations that `__get_objects__` must emit for the given roots"""
    seen, order = set(), []

    def walk(v):
        if is_cfg(v):
            if id(v) in seen:
                return
            seen.add(id(v))
            x = v.__xpm__
            for val in x.values.values():
                walk(val)
            if x.task is not None:
                walk(x.task)
            walk(list(x.pre_tasks))
            walk(list(x.init_tasks))
            order.append(v)
        elif isinstance(v, list):
            for e in v:
                walk(e)
        elif isinstance(v, dict):
            for e in v.values():
                walk(e)
    walk(root_objs)
    return order


def run_c12(mod, lib, case, root, canon, datadir):
    from experimaestro.core.objects import ConfigInformation
    from experimaestro.core.context import SerializationContext
    from experimaestro.core import serialization
    from . import cfgbuild
    rec = {"lines": [], "impl": [], "monitors": [], "stats": {}}

    def mon(key, what, detail=None):
        rec["monitors"].append({"key": key, "what": what, "detail": detail})

    g = localise(case["graph"], datadir)
    objs = cfgbuild.build_graph(mod, g)
    index = {id(o): i for i, o in enumerate(objs)}
    idmap = dict(index)
    rec["lines"].append(lib_line(mod, lib, canon))
    rec["impl"].append({"ok": True})
    rec["lines"].append({"op": "graph", "nodes": [node_json(o, index, canon) for o in objs]})
    rec["impl"].append({"ok": True})
    r = case.get("root", 0)
    rootobj = objs[r]
    orig_id = rootobj.__xpm__.full_identifier.all.hex()

    # --- entry point 1: __json__ / fromParameters(as_instance=False)
    try:
        defs = json.loads(rootobj.__json__())
    except (Exception, RecursionError) as e:
        mon("serialize-raises:" + err_kind(e), f"__json__ raised {type(e).__name__}: {str(e)[:200]}", {"entry": "json"})
        return rec
    rec["lines"].append({"op": "serialize", "roots": [r]})
    rec["impl"].append({"defs": canon_defs(defs, idmap, canon)})
    rec["stats"]["defs"] = len(defs)
    # every needed object exactly once, in an order where ... (implementation-only)
    need = reachable_all(rootobj)
    ids = [d["id"] for d in defs]
    if len(set(ids)) != len(ids) or set(ids) != {id(o) for o in need}:
        mon("definitions:not-one-per-object", f"{len(ids)} definitions ({len(set(ids))} distinct ids) for {len(need)} reachable configurations", None)
    try:
        objects = ConfigInformation.load_objects(json.loads(json.dumps(defs)), as_instance=False)
        out = {"objs": loaded_json(objects, defs, idmap, canon)}
    except Exception as e:
        out = {"err": err_kind(e)}
    rec["lines"].append({"op": "reload", "roots": [r]})
    rec["impl"].append(out)
    try:
        new = ConfigInformation.fromParameters(json.loads(json.dumps(defs)), as_instance=False)
        diffs = compare_reloaded(rootobj, new)
        new_id = new.__xpm__.full_identifier.all.hex()
        rec["lines"].append({"op": "reid", "root": r})
        rec["impl"].append({"id": new_id, "orig": orig_id})
        for k, w in diffs:
            mon(classify_reload_diff(k), f"__json__ -> fromParameters(as_instance=False): {w}", {"entry": "json"})
        if new_id != orig_id:
            # a structural difference already reported explains the identifier; otherwise it is a finding of its own
            if not diffs:
                mon("identifier-differs", f"__json__ -> fromParameters(as_instance=False): the reloaded graph is structurally identical but its recomputed "
                    f"identifier {new_id[:12]}… differs from the original {orig_id[:12]}…", {"entry": "json"})
            else:
                rec["stats"]["identifier_changed"] = True
    except Exception as e:
        rec["lines"].append({"op": "reid", "root": r})
        rec["impl"].append({"err": err_kind(e)})
        mon("reload-raises:" + err_kind(e), f"__json__ -> fromParameters(as_instance=False) raised {type(e).__name__}: {e}", {"entry": "json"})

    # --- entry point 2: state_dict / from_state_dict on a structure of configurations
    vs = case.get("value")
    if vs is not None:
        val = cfgbuild.real_val(mod, vs, {i: o for i, o in enumerate(objs)})
        try:
            st = serialization.state_dict(SerializationContext(), val)
            st = json.loads(json.dumps(st))
        except (Exception, RecursionError) as e:
            mon("serialize-raises:" + err_kind(e), f"state_dict raised {type(e).__name__}: {str(e)[:200]}", {"entry": "state_dict"})
            return rec
        rec["lines"].append({"op": "statedict", "v": model_val(val, index, canon)})
        rec["impl"].append({"defs": canon_defs(st["objects"], idmap, canon), "data": canon_j(st["data"], idmap, canon)})
        try:
            objects = ConfigInformation.load_objects(copy.deepcopy(st["objects"]), as_instance=False,
                                                     data_loader=serialization.get_data_loader(Path("/")))
            lindex = {id(o): idmap.get(k, -1) for k, o in objects.items()}
            data = ConfigInformation._objectFromParameters(st["data"], objects)
            out = {"objs": loaded_json(objects, st["objects"], idmap, canon), "data": model_val(data, lindex, canon)}
        except Exception as e:
            out = {"err": err_kind(e)}
        rec["lines"].append({"op": "restate", "v": model_val(val, index, canon)})
        rec["impl"].append(out)
        try:
            new = serialization.from_state_dict(copy.deepcopy(st), Path("/"))
            for k, w in compare_reloaded(val, new):
                mon(classify_reload_diff(k), f"state_dict -> from_state_dict: {w}", {"entry": "state_dict"})
        except Exception as e:
            mon("reload-raises:" + err_kind(e), f"state_dict -> from_state_dict raised {type(e).__name__}: {e}", {"entry": "state_dict"})

    # --- entry point 3: save / load (data files are copied next to definition.json)
    if case.get("save"):
        sd = Path(tempfile.mkdtemp(prefix="save-", dir=str(datadir.parent)))
        try:
            val = rootobj if vs is None else cfgbuild.real_val(mod, vs, {i: o for i, o in enumerate(objs)})
            try:
                serialization.save(val, sd)
            except shutil.SameFileError as e:
                mon("save-data-collision", f"save raised SameFileError: two DataPath parameters of different objects are copied to the same file "
                    f"({canon.path(str(e.args[0]))[-60:] if e.args else ''})", {"entry": "save"})
                return rec
            except (Exception, RecursionError) as e:
                mon("serialize-raises:" + err_kind(e), f"save raised {type(e).__name__}: {str(e)[:200]}", {"entry": "save"})
                return rec
            bad = modified_sources()
            if bad:
                mon("save-modifies-source", f"save modified (or removed) the data file(s) it was given: {[canon.path(b) for b in bad]}", {"entry": "save"})
                make_data_files(datadir)
            has_data = '"path.serialized"' in (sd / "definition.json").read_text()
            rec["stats"]["save_has_data"] = has_data
            new = None
            try:
                new = serialization.load(sd)
            except Exception as e:
                mon("save-load-raises:" + err_kind(e) + (":data" if has_data else ""),
                    f"save -> load raised {type(e).__name__}: {e}" + (" (the saved graph holds DataPath values)" if has_data else ""), {"entry": "save"})
                try:   # what load() is documented to do: resolve data paths against the directory
                    content = json.loads((sd / "definition.json").read_text())
                    new = serialization.from_state_dict(content, sd)
                except Exception as e2:
                    mon("reload-raises:" + err_kind(e2), f"save -> from_state_dict(content, dir) raised {type(e2).__name__}: {e2}", {"entry": "save"})

            def data_eq(x, y, at):
                x, y = Path(x), Path(y)
                if not str(y).startswith(str(sd)):
                    raise Differ("data", f"{at}: loaded data path {canon.path(str(y))} is not inside the save directory")
                if not y.is_file() or y.read_bytes() != expected_bytes(x):
                    raise Differ("data", f"{at}: the file restored for {canon.path(str(x))} ({canon.path(str(y))}) does not hold its content")
            if new is not None:
                for k, w in compare_reloaded(val, new, data_eq=data_eq):
                    mon("save-data-collision" if k == "data" else classify_reload_diff(k), f"save -> load: {w}", {"entry": "save"})
        finally:
            shutil.rmtree(sd, ignore_errors=True)

    # --- entry point 3, compared with the model: relative names, copied files, relocated paths (and a second save of the loaded value)
    if case.get("save"):
        val = rootobj if vs is None else cfgbuild.real_val(mod, vs, {i: o for i, o in enumerate(objs)})
        save_route(rec, val, index, idmap, canon, datadir, case.get("gen2"))

    # --- second generation: the *loaded* graph is written again and loaded again (same ids in the model)
    if case.get("gen2"):
        try:
            objects1 = ConfigInformation.load_objects(json.loads(json.dumps(defs)), as_instance=False)
            idmap1 = {id(o): idmap.get(k, -1) for k, o in objects1.items()}
            root1 = objects1[defs[-1]["id"]]
            defs2 = json.loads(root1.__json__())
            out = {"defs": canon_defs(defs2, idmap1, canon)}
            objects2 = ConfigInformation.load_objects(json.loads(json.dumps(defs2)), as_instance=False)
            # ids of generation 2 are python ids of generation-1 objects
            out["objs"] = loaded_json(objects2, defs2, idmap1, canon)
            root2 = objects2[defs2[-1]["id"]]
            out["id"] = root2.__xpm__.full_identifier.all.hex()
            out["orig"] = orig_id
            rec["lines"].append({"op": "generation2", "roots": [r]})
            rec["impl"].append(out)
            for k, w in compare_reloaded(rootobj, root2):
                mon(classify_reload_diff(k), f"generation 2 (__json__ -> load -> __json__ of the loaded graph -> load): {w}", {"entry": "gen2"})
            if out["id"] != orig_id and not compare_reloaded(rootobj, root2):
                mon("identifier-differs", f"generation 2: structurally identical but the recomputed identifier {out['id'][:12]}… differs from {orig_id[:12]}…",
                    {"entry": "gen2"})
            rec["stats"]["gen2"] = True
        except (Exception, RecursionError) as e:
            rec["lines"].append({"op": "generation2", "roots": [r]})
            rec["impl"].append({"err": err_kind(e)})
            mon("reload-raises:" + err_kind(e), f"generation 2 (writing / loading a loaded graph) raised {type(e).__name__}: {str(e)[:200]}", {"entry": "gen2"})

    # --- several generations through a mix of entry points (implementation only): every generation is compared with the original
    routes = case.get("routes")
    if routes:
        dirs = []
        try:
            cur = rootobj
            for gi, route in enumerate(routes):
                label = f"generation {gi + 1} of {'>'.join(routes)}"
                try:
                    if route == "json":
                        cur = ConfigInformation.fromParameters(json.loads(cur.__json__()), as_instance=False)
                        new = cur
                    elif route in ("state", "state+mix"):
                        val = {"a": cur, "b": [rootobj, cur]} if route == "state+mix" else cur
                        st = json.loads(json.dumps(serialization.state_dict(SerializationContext(), val)))
                        new = serialization.from_state_dict(st, Path("/"))
                        if route == "state+mix":
                            if new["b"][1] is not new["a"]:
                                mon("structure:sharing", f"{label}: the same configuration listed twice in a state dictionary came back as two objects", {"entry": "routes"})
                            for k, w in compare_reloaded(rootobj, new["b"][0]):
                                mon(classify_reload_diff(k), f"{label} (fresh graph written next to a loaded one): {w}", {"entry": "routes"})
                            new = new["a"]
                        cur = new
                    else:
                        sd = Path(tempfile.mkdtemp(prefix="gen-", dir=str(datadir.parent)))
                        dirs.append(sd)
                        serialization.save(cur, sd)
                        bad = modified_sources()
                        if bad:
                            mon("save-modifies-source", f"{label}: save modified the data file(s) it was given: {[canon.path(b) for b in bad]}", {"entry": "routes"})
                            make_data_files(datadir)
                        cur = new = serialization.load(sd)
                except (Exception, RecursionError) as e:
                    mon("reload-raises:" + err_kind(e), f"{label} raised {type(e).__name__}: {str(e)[:200]}", {"entry": "routes"})
                    break

                def data_same(x, y, at):
                    if not Path(y).is_file() or Path(y).read_bytes() != expected_bytes(x):
                        raise Differ("data", f"{at}: the file restored for {canon.path(str(x))} does not hold its content")
                diffs = compare_reloaded(rootobj, new, data_eq=data_same)
                for k, w in diffs:
                    mon("save-data-collision" if k == "data" else classify_reload_diff(k), f"{label}: {w}", {"entry": "routes"})
                nid = new.__xpm__.full_identifier.all.hex()
                if nid != orig_id and not diffs:
                    mon("identifier-differs", f"{label}: structurally identical but the recomputed identifier {nid[:12]}… differs from {orig_id[:12]}…",
                        {"entry": "routes"})
                if diffs:
                    break
            rec["stats"]["routes"] = str(len(routes))
        finally:
            for d in dirs:
                shutil.rmtree(d, ignore_errors=True)

    # --- entry point 4: params.json -> the job process side (run.py::run in this process): what the task code observes
    if case.get("job"):
        from experimaestro.xpmutils import DirectoryContext
        jobdir = root / "xv-job"
        canon.repl.append((str(jobdir), "/XVJOB"))
        rootobj.__xpm__.validate()
        rootobj.__xpm__.seal(DirectoryContext(jobdir))
        is_task = bool(case.get("root_is_task"))
        try:
            log, loaded, inst, _ = job_side(rootobj, root, is_task)
        except (Exception, RecursionError) as e:
            mon("job-side-raises:" + err_kind(e), f"params.json -> run() raised {type(e).__name__}: {str(e)[:200]}", {"entry": "job"})
            return rec
        target = loaded.get(id(rootobj)) if is_task else inst
        # the values given to the runtime objects, definition by definition (model: instanceValues);
        # a DataPath that arrives as a str is rendered as the path it denotes (finding C12-N3 is the monitor's business)
        if loaded:
            inst_index = {id(o): index[k] for k, o in loaded.items() if k in index}
            vals = []
            for k, o in loaded.items():
                fs = []
                for name, a in inst_type(o).arguments.items():
                    if name in vars(o):
                        v = vars(o)[name]
                        if a.is_data and isinstance(v, str):
                            v = Path(v)
                        fs.append([hx(name), model_val(v, inst_index, canon)])
                vals.append([index.get(k, -1), fs])
            rec["lines"].append({"op": "graph", "nodes": [node_json(o, index, canon) for o in objs]})
            rec["impl"].append({"ok": True})
            rec["lines"].append({"op": "instvalues", "root": r})
            rec["impl"].append({"values": vals})

        def data_obs(x, y, at):
            if isinstance(y, str) and not isinstance(y, Path):
                raise Differ("data-str", f"{at}: the task code sees the DataPath value as a str ({canon.path(y)!r}) instead of a Path")
            if x != y:
                raise Differ("value", f"{at}: {canon.path(str(x))} vs {canon.path(str(y))}")
        try:
            pair_walk(rootobj, target, cfg_view, inst_view, is_cfg, links=(), data_eq=data_obs)
        except Differ as d:
            mon("job-side:data-path-as-str" if d.kind == "data-str" else f"job-side:{d.kind}",
                f"params.json -> {'run()' if is_task else 'fromParameters(as_instance=True)'}: {d.what}", {"entry": "job"})
        if is_task:
            seen = [t for k, o, _, t in log if k == "exec" and o is target]
            want = json.loads(json.dumps(rootobj.tags()))
            if not seen:
                mon("job-side:body-not-run", "run() did not execute the task body", {"entry": "job"})
            elif seen[-1] != want:
                mon("job-side:tags", f"the task body observed tags {seen[-1]} instead of {want}", {"entry": "job"})
            if seen and isinstance(seen[-1], dict):
                # what the task code observes as `__tags__`, compared with the model (collectTags -> "tags" member -> job process)
                rec["lines"].append({"op": "graph", "nodes": [node_json(o, index, canon) for o in objs]})
                rec["impl"].append({"ok": True})
                rec["lines"].append({"op": "tags", "root": r})
                rec["impl"].append({"tags": [[hx(k), model_val(v, {}, canon)] for k, v in seen[-1].items()]})
        rec["stats"]["job"] = "task" if is_task else "config"
    return rec


# ----------------------------------------------------------------- save / load with data files: correspondence (model: Model/SerialData.lean)

# data files: name relative to the data directory -> content id; files with the same base name in different directories
# hold different contents (a copy named after the file rather than after the parameter makes them collide)
DATA_FILES = {**{f"f{i}.bin": i + 1 for i in range(8)}, "q/model.bin": 9, "d/model.bin": 10, "q/weights.pt": 11, "d/weights.pt": 12}
DATA_FS = [[hx(f"{DATA_TAG}/{name}"), cid] for name, cid in DATA_FILES.items()]
EXPECTED = {}        # absolute path of a data file -> the bytes it was created with


def data_bytes(name):
    return f"content of data file {name}\n".encode() * DATA_FILES[name]


def make_data_files(datadir):
    for name in DATA_FILES:
        p = datadir / name
        p.parent.mkdir(parents=True, exist_ok=True)
        p.write_bytes(data_bytes(name))
        EXPECTED[str(p)] = data_bytes(name)


def expected_bytes(x):
    """the bytes a data file was created with (NOT what the file holds now: a save may have written through a hard link)"""
    b = EXPECTED.get(str(x))
    return Path(x).read_bytes() if b is None else b


def modified_sources():
    return sorted(p for p, b in EXPECTED.items() if not Path(p).is_file() or Path(p).read_bytes() != b)


def content_id(b):
    """content id of a data file made by make_data_files(), 0 for anything else"""
    for name, cid in DATA_FILES.items():
        if b == data_bytes(name):
            return cid
    return 0


def dir_listing(sd):
    return [[hx(p.relative_to(sd).as_posix()), content_id(p.read_bytes())]
            for p in sorted(sd.rglob("*")) if p.is_file() and p.name != "definition.json"]


def load_capturing(fn):
    """fn() with the objects dictionary built by `ConfigInformation.load_objects` during the call captured"""
    from experimaestro.core.objects import ConfigInformation
    orig = ConfigInformation.__dict__["load_objects"]
    seen = []

    def wrapper(*a, **kw):
        res = orig.__func__(*a, **kw)
        seen.append((a[0] if a else kw.get("definitions"), res))
        return res

    ConfigInformation.load_objects = staticmethod(wrapper)
    try:
        out = fn()
    finally:
        ConfigInformation.load_objects = orig
    return out, (seen[-1] if seen else (None, None))


def save_route(rec, val, index, idmap, canon, datadir, gen2):
    """`serialization.save(val, dir)` / `serialization.load(dir)` (and once more into a second directory) described for the model:
    definition list with the relative names, files of the directory with their content ids, loaded objects with the relocated
    paths.  Returns False when the implementation raised before anything comparable was produced."""
    from experimaestro.core import serialization
    sd = Path(tempfile.mkdtemp(prefix="savec-", dir=str(datadir.parent)))
    sd2 = Path(tempfile.mkdtemp(prefix="savec2-", dir=str(datadir.parent)))
    canon.repl[0:0] = [(str(sd2), "/XVSAVE2"), (str(sd), "/XVSAVE")]
    line = {"op": "save", "v": model_val(val, index, canon), "fs": DATA_FS, "base": hx("/XVSAVE"), "base2": hx("/XVSAVE2"), "gen2": bool(gen2)}
    try:
        def described(val, sd, idmap):
            serialization.save(val, sd)
            content = json.loads((sd / "definition.json").read_text())
            # (the identifier member is compared by the `serialize` / `generation2` lines of the same case)
            out = {"defs": [{k: v for k, v in d.items() if k != "identifier"} for d in canon_defs(content["objects"], idmap, canon)], "data": canon_j(content["data"], idmap, canon), "dir": dir_listing(sd)}
            return content, out

        def loaded(sd, content, idmap):
            new, (_, objects) = load_capturing(lambda: serialization.load(sd))
            if objects is None:
                raise RuntimeError("serialization.load did not go through ConfigInformation.load_objects")
            lindex = {id(o): idmap.get(k, -1) for k, o in objects.items()}
            return new, objects, {"objs": loaded_json(objects, content["objects"], idmap, canon), "value": model_val(new, lindex, canon)}

        try:
            content, out = described(val, sd, idmap)
        except Exception as e:
            rec["stats"]["save_route"] = "save-raises:" + err_kind(e)
            return False
        try:
            new, objects, lo = loaded(sd, content, idmap)
        except Exception as e:
            out["load"] = {"err": err_kind(e)}
            if gen2:
                out = {"err": err_kind(e)}
            rec["lines"].append(line)
            rec["impl"].append(out)
            return True
        out["objs"] = lo["objs"]
        if not gen2:
            out["value"] = lo["value"]
        else:
            idmap1 = {id(o): idmap.get(k, -1) for k, o in objects.items()}
            try:
                content2, out2 = described(new, sd2, idmap1)
                _, _, lo2 = loaded(sd2, content2, idmap1)
                out2.update(lo2)
                out["gen2"] = out2
            except Exception as e:
                out = {"err": err_kind(e)}
        rec["lines"].append(line)
        rec["impl"].append(out)
        rec["stats"]["save_route"] = "gen2" if gen2 else "gen1"
        return True
    finally:
        if modified_sources():
            make_data_files(datadir)
        shutil.rmtree(sd, ignore_errors=True)
        shutil.rmtree(sd2, ignore_errors=True)


# ----------------------------------------------------------------- C13


def reachable_inst(root):
    """configurations the FromPython walk must create objects for (values, pre-tasks, init tasks; not the task link)"""
    seen, order = set(), []

    def walk(v):
        if is_cfg(v):
            if id(v) in seen:
                return
            seen.add(id(v))
            order.append(v)
            x = v.__xpm__
            for val in x.values.values():
                walk(val)
            walk(list(x.pre_tasks))
            walk(list(x.init_tasks))
        elif isinstance(v, list):
            for e in v:
                walk(e)
        elif isinstance(v, dict):
            for e in v.values():
                walk(e)
    walk(root)
    return order


def events_json(log, obj_index):
    """the call log with objects named by the configuration they stand for"""
    out = []
    unknown = {}
    for kind, o, names, _ in log:
        k = obj_index.get(id(o))
        if k is None:
            k = unknown.setdefault(id(o), f"?{len(unknown)}")
        if kind == "post":
            out.append(["post", k, [hx(n) for n in names]])
        else:
            out.append([kind, k])
    return out


def check_instances(mon, label, cfgs, stub_of, log, expect_pre, expect_init, body_obj):
    """implementation-only statement of C13 on one run.
    cfgs: configurations that must have exactly one runtime object; stub_of: id(cfg) -> object (or None)"""
    from experimaestro import Config
    # one object per distinct configuration
    stubs = {}
    for c in cfgs:
        s = stub_of(c)
        if s is None:
            mon("instance:missing", f"{label}: no runtime object for a reachable configuration of class {type(c).__name__}")
            return
        if id(s) in stubs:
            mon("instance:merged", f"{label}: two distinct configurations share one runtime object")
            return
        stubs[id(s)] = c
    inits = [o for k, o, _, _ in log if k == "init"]
    for o in inits:
        if id(o) not in stubs:
            mon("instance:extra-object", f"{label}: a runtime object of class {type(o).__name__} was created that stands for no configuration of the graph "
                "(more than one object per configuration)")
            return
    if len({id(o) for o in inits}) != len(inits):
        mon("instance:init-twice", f"{label}: __init__ ran twice on one runtime object")
        return
    # wiring like the graph
    for c in cfgs:
        s = stub_of(c)
        x = c.__xpm__

        def same(cv, iv, at):
            if isinstance(cv, Config):
                if iv is not stub_of(cv):
                    raise Differ("wiring", f"{at}: the attribute is not the runtime object of the referenced configuration")
            elif isinstance(cv, list):
                if not isinstance(iv, list) or len(iv) != len(cv):
                    raise Differ("wiring", f"{at}: list differs")
                for i, (a, b) in enumerate(zip(cv, iv)):
                    same(a, b, f"{at}[{i}]")
            elif isinstance(cv, dict):
                if not isinstance(iv, dict) or list(iv.keys()) != list(cv.keys()):
                    raise Differ("wiring", f"{at}: dict differs")
                for k in cv:
                    same(cv[k], iv[k], f"{at}[{k!r}]")
            elif isinstance(iv, Config):
                raise Differ("wiring", f"{at}: a runtime object where the configuration holds a plain value")
        try:
            for name, cv in x.values.items():
                if name not in vars(s):
                    raise Differ("wiring", f"{type(c).__name__}.{name}: parameter not set on the runtime object")
                same(cv, vars(s)[name], f"{type(c).__name__}.{name}")
        except Differ as d:
            mon("instance:wiring", f"{label}: {d.what}")
            return
    # __post_init__ once, after the parameters are set
    posts = {}
    for k, o, names, _ in log:
        if k == "post":
            posts.setdefault(id(o), []).append(names)
    for c in cfgs:
        s = stub_of(c)
        p = posts.get(id(s), [])
        if len(p) != 1:
            mon("post-init:count", f"{label}: __post_init__ ran {len(p)} times on the object of a {type(c).__name__}")
            return
        want = [n for n in c.__xpmtype__.arguments if n in c.__xpm__.values]
        if p[0] != want:
            mon("post-init:before-parameters", f"{label}: __post_init__ of a {type(c).__name__} saw parameters {p[0]} set, expected {want}")
            return
    if set(posts) - set(stubs):
        mon("post-init:extra", f"{label}: __post_init__ ran on an object that stands for no configuration")
        return
    # pre-tasks once; init tasks once, after the pre-tasks, before the body
    execs = [o for k, o, _, _ in log if k == "exec"]
    body_pos = None
    if body_obj is not None:
        pos = [i for i, o in enumerate(execs) if o is body_obj]
        if len(pos) != 1 or pos[0] != len(execs) - 1:
            mon("body:not-last", f"{label}: the task body ran {len(pos)} times / not after every pre-task and init task")
            return
        body_pos = pos[0]
        execs_lw = execs[:-1]
    else:
        execs_lw = execs
    pre_stubs = [stub_of(p) for p in expect_pre]
    init_stubs = [stub_of(p) for p in expect_init]
    for p, s in zip(expect_pre, pre_stubs):
        n = sum(1 for o in execs_lw if o is s)
        if n != 1:
            mon("pre-task:count", f"{label}: a pre-task of class {type(p).__name__} was executed {n} times")
            return
    for p, s in zip(expect_init, init_stubs):
        n = sum(1 for o in execs_lw if o is s)
        if n != 1:
            mon("init-task:count", f"{label}: an init task of class {type(p).__name__} was executed {n} times")
            return
    allowed = {id(s) for s in pre_stubs + init_stubs}
    for o in execs_lw:
        if id(o) not in allowed:
            mon("exec:unexpected", f"{label}: execute() ran on an object that is neither a pre-task nor an init task of the loaded task")
            return
    if init_stubs and pre_stubs:
        last_pre = max(i for i, o in enumerate(execs_lw) if any(o is s for s in pre_stubs))
        first_init = min(i for i, o in enumerate(execs_lw) if any(o is s for s in init_stubs))
        if first_init < last_pre:
            mon("init-task:before-pre-task", f"{label}: an init task ran before a pre-task")
            return
    # the init tasks keep their order
    got = [o for o in execs_lw if any(o is s for s in init_stubs)]
    if [id(o) for o in got] != [id(s) for s in init_stubs]:
        mon("init-task:order", f"{label}: init tasks ran in another order than listed")


def all_pre_tasks(cfgs):
    seen, out = set(), []
    for c in cfgs:
        for p in c.__xpm__.pre_tasks:
            if id(p) not in seen:
                seen.add(id(p))
                out.append(p)
    return out


class NewTap:
    """while a loader runs, every runtime object created through `Config.__new__` (the first loop of `load_objects` calls
    `cls.XPMValue.__new__(cls.XPMValue)`, `instance()` calls `XPMValue()`) is appended to the call log as `new`.
    /repo is not touched: the attribute is replaced in this process and put back."""

    def __enter__(self):
        from experimaestro.core.objects import Config
        from experimaestro.core.types import XPMValue
        import xvlog
        self.Config = Config
        self.orig_new = Config.__dict__["__new__"]
        new_fn = Config.__new__

        def tapped_new(cls, *a, **kw):
            o = new_fn(cls, *a, **kw)
            if issubclass(cls, XPMValue):
                xvlog.LOG.append(("new", o, [], None))
            return o
        Config.__new__ = staticmethod(tapped_new)
        return self

    def __exit__(self, *exc):
        self.Config.__new__ = self.orig_new
        return False


def job_side(rootobj, root, is_task):
    """what the job process does: params.json written by `outputjson`, then `run.py::run` (task) or
    `fromParameters(as_instance=True)`; returns (call log, {id(config): runtime object}, returned object, definitions)"""
    from experimaestro.core.objects import ConfigInformation
    from experimaestro.core.context import SerializationContext
    import experimaestro.taskglobals as taskglobals
    import xvlog

    class Ctx(SerializationContext):
        def __init__(self, ws):
            super().__init__()
            from types import SimpleNamespace
            self.workspace = SimpleNamespace(path=ws)
    taskdir = root / "xv-task"
    taskdir.mkdir(exist_ok=True)
    params = taskdir / "params.json"
    with params.open("wt") as out:
        rootobj.__xpm__.outputjson(out, Ctx(root / "xv-ws"))
    content = json.loads(params.read_text())
    defs = content["objects"]
    captured = {}
    orig_load = ConfigInformation.load_objects

    def tap(*a, **kw):
        res = orig_load(*a, **kw)
        captured["objects"] = res
        return res
    xvlog.LOG.clear()
    env = taskglobals.Env.instance()
    env.slave = True
    inst = None
    try:
        ConfigInformation.load_objects = staticmethod(tap)
        with NewTap():
            if is_task:
                import experimaestro.run as xrun
                cwd = os.getcwd()
                os.chdir(taskdir)
                try:
                    xrun.run(params)
                finally:
                    os.chdir(cwd)
            else:
                inst = ConfigInformation.fromParameters(defs, as_instance=True)
    finally:
        ConfigInformation.load_objects = staticmethod(orig_load)
        env.wspath = None
        env.taskpath = None
    return list(xvlog.LOG), captured.get("objects") or {}, inst, defs


def run_c13(mod, lib, case, root, canon, datadir):
    from experimaestro.core.objects import ConfigInformation, ObjectStore
    from experimaestro.core.context import SerializationContext
    from experimaestro.xpmutils import DirectoryContext
    import experimaestro.taskglobals as taskglobals
    import xvlog
    from . import cfgbuild
    rec = {"lines": [], "impl": [], "monitors": [], "stats": {}}

    def mon(key, what, detail=None):
        rec["monitors"].append({"key": key, "what": what, "detail": detail})

    g = localise(case["graph"], datadir)
    objs = cfgbuild.build_graph(mod, g)
    index = {id(o): i for i, o in enumerate(objs)}
    r = case.get("root", 0)
    rootobj = objs[r]
    jobdir = root / "xv-job"
    canon.repl.append((str(jobdir), "/XVJOB"))
    ctx = DirectoryContext(jobdir)
    first = case.get("first")
    for k in ([first] if first is not None else []) + [r]:
        objs[k].__xpm__.validate()
        objs[k].__xpm__.seal(ctx)
    rec["lines"].append(lib_line(mod, lib, canon))
    rec["impl"].append({"ok": True})
    rec["lines"].append({"op": "graph", "nodes": [node_json(o, index, canon) for o in objs]})
    rec["impl"].append({"ok": True})

    # --- (a) config.instance(): FromPython walk with an ObjectStore, possibly in two calls sharing the store
    store = ObjectStore()
    calls = [r] if first is None else [first, r]
    constructed = []
    for ci, k in enumerate(calls):
        xvlog.LOG.clear()
        before = set(store.constructed)
        try:
            inst = objs[k].instance(ctx, objects=store)
        except (Exception, RecursionError) as e:
            mon("instance-raises:" + err_kind(e), f"instance() raised {type(e).__name__}: {str(e)[:200]}")
            return rec
        log = list(xvlog.LOG)
        stub_index = {id(s): index[c] for c, s in store.store.items() if c in index}
        rec["lines"].append({"op": "instance", "root": k, "constructed": sorted(constructed)})
        attrs = []
        for kind, o, names, _ in log:      # identity relations: every attribute rendered through the store (object -> configuration)
            if kind == "post":
                attrs.append([stub_index.get(id(o), -1), [[hx(n), model_val(vars(o)[n], stub_index, canon)] for n in names]])
        rec["impl"].append({"log": events_json(log, stub_index), "store": sorted(index[c] for c in store.constructed if c in index),
                            "attrs": attrs})
        cfgs = reachable_inst(objs[k])
        new_cfgs = [c for c in cfgs if id(c) not in before]
        label = f"instance() call {ci + 1}/{len(calls)}"
        if inst is not store.store.get(id(objs[k])):
            mon("instance:root", f"{label}: the returned object is not the stored object of the root configuration")
        # closed: every configuration reachable has an object; new objects only for not-yet-constructed configurations
        check_instances(mon, label, new_cfgs, lambda c: store.store.get(id(c)), log,
                        all_pre_tasks(new_cfgs), [], None)
        for c in cfgs:
            if store.store.get(id(c)) is None or id(c) not in store.constructed:
                mon("instance:missing", f"{label}: a reachable configuration has no constructed object in the store")
                break
        if before and any(id(c) in before for c in cfgs):
            rec["stats"]["store_reused"] = True
        constructed = [index[c] for c in store.constructed if c in index]

    # --- (b) the job process side: params.json -> run(): fromParameters(as_instance=True), pre-tasks, init tasks, body
    is_task = bool(case.get("root_is_task"))
    try:
        log, loaded, inst, defs = job_side(rootobj, root, is_task)
    except (Exception, RecursionError) as e:
        mon("job-side-raises:" + err_kind(e), f"params.json -> run() raised {type(e).__name__}: {str(e)[:200]}")
        return rec
    by_id = {id(o): o for o in objs}
    inst_index = {id(o): index[k] for k, o in loaded.items() if k in index}
    rec["lines"].append({"op": "loadinst", "root": r, "body": is_task, "new": True})
    ev = events_json(log, inst_index)       # with the object creations (`new`); the monitors below read the calls only
    log = [e for e in log if e[0] != "new"]
    if is_task and ev and ev[-1][0] == "exec" and ev[-1][1] == r:
        ev[-1] = ["body", r]
    rec["impl"].append({"log": ev})
    need = [by_id[d["id"]] for d in defs if d["id"] in by_id]
    stub_of = (lambda c: loaded.get(id(c)))
    body_obj = loaded.get(id(rootobj)) if is_task else None
    if inst is not None and inst is not loaded.get(id(rootobj)):
        mon("instance:root", "fromParameters(as_instance=True): the returned object is not the object of the last definition")
    check_instances(mon, "params.json -> run()" if is_task else "fromParameters(as_instance=True)", need, stub_of, log,
                    all_pre_tasks(need), list(rootobj.__xpm__.init_tasks), body_obj)
    rec["stats"]["is_task"] = is_task
    return rec


# ----------------------------------------------------------------- witnesses of findings


def run_witness(mod, lib, case, root, canon, datadir):
    from experimaestro.core.objects import ConfigInformation
    from . import cfgbuild
    rec = {"lines": [], "impl": [], "monitors": [], "stats": {}}
    w = case["witness"]
    g = localise(case["graph"], datadir)
    objs = cfgbuild.build_graph(mod, g)
    rootobj = objs[0]
    if w == "return-tasks":
        try:
            res = ConfigInformation.fromParameters(json.loads(rootobj.__json__()), as_instance=False, return_tasks=True)
            rec["stats"]["result_len"] = len(res) if isinstance(res, tuple) else None
        except Exception as e:
            rec["monitors"].append({"key": "return-tasks-raises", "what": f"fromParameters(as_instance=False, return_tasks=True) raised {type(e).__name__}: {e}",
                                    "detail": None})
    return rec


# ----------------------------------------------------------------- classes that do not live in a package


FILES_DEFS = """
from experimaestro import Config, Param


class Settings(Config):
    __xpmid__ = "xvfiles.@TAG@.settings"
    x: Param[int]
    name: Param[str] = "@TAG@"

    def origin(self):
        return "@TAG@"


class Only@CAP@(Config):
    __xpmid__ = "xvfiles.@TAG@.only"
    y: Param[int]
    s: Param[str] = "d"

    def origin(self):
        return "@TAG@"
"""

FILES_TRAIN = FILES_DEFS + """

if __name__ == "__main__":
    import sys
    from pathlib import Path
    from experimaestro import save
    out = Path(sys.argv[1])
    for name, c in (("Settings", Settings(x=int(sys.argv[2]))), ("Only", Only@CAP@(y=int(sys.argv[2]) + 1))):
        (out / name).mkdir(parents=True)
        save(c, out / name)
"""

FILES_EVAL = FILES_DEFS + """
from typing import List, Dict
from experimaestro import Task


class Holder(Task):
    __xpmid__ = "xvfiles.@TAG@.holder"
    items: Param[List[Config]]
    first: Param[Config]
    d: Param[Dict[str, Config]]

    def origin(self):
        return "@TAG@"

    def execute(self):
        pass


if __name__ == "__main__":
    import sys
    from xv.impl import serial_worker
    serial_worker.files_stage2(sys.argv[1], globals())
"""

FILES_LOADER = """
import sys
from xv.impl import serial_worker
serial_worker.files_stage3(sys.argv[1])
"""


def describe_files(top, canon):
    """objects reachable from `top` (configurations or runtime objects), numbered by first visit:
    defining file and qualified name of the class, what its code answers, values, identifier"""
    index, order = {}, []

    def ref(o):
        if id(o) not in index:
            index[id(o)] = len(order)
            order.append(o)
        return index[id(o)]

    def plain(v):
        if isinstance(v, list):
            return [plain(x) for x in v]
        if isinstance(v, dict):
            return {k: plain(x) for k, x in v.items()}
        if hasattr(v, "__xpmtype__"):
            return {"ref": ref(v)}
        return str(v) if isinstance(v, Path) else v

    ref(top)
    out, i = [], 0
    while i < len(order):
        o = order[i]
        i += 1
        is_cfg_obj = "__xpm__" in vars(o)
        base = next(k for k in type(o).__mro__ if "origin" in vars(k))
        vals = dict(o.__xpm__.values) if is_cfg_obj else {n: vars(o)[n] for n in o.__xpmtype__.arguments if n in vars(o)}
        ident = o.__xpm__.full_identifier.all.hex() if is_cfg_obj else o.__xpmidentifier__.all.hex()
        out.append({"file": canon.path(base.origin.__code__.co_filename), "qualname": base.__qualname__, "origin": o.origin(),
                    "values": {n: plain(vals[n]) for n in sorted(vals)}, "identifier": ident})
    return out


def files_stage2(spec_path, g):
    """runs inside evaluate.py (a plain script, `__main__`): builds a graph whose classes come from
    train.py (loaded; module `_main_`), evaluate.py (`__main__`), dirA/defs.py and dirB/defs.py (two plain
    modules both named `defs`), and writes it through every entry point"""
    import importlib
    from experimaestro import load, save
    from experimaestro.core.context import SerializationContext
    from experimaestro.core import serialization
    spec = json.loads(Path(spec_path).read_text())
    root = Path(spec["root"])
    canon = Canon(root)
    canon.repl = [(str(root), "/XVROOT")]
    pool = {}
    for k in ("Settings", "Only"):
        pool["train." + k] = load(root / "saved" / k)
    for tag in ("a", "b"):
        sys.path.insert(0, str(root / ("dir" + tag.upper())))
        sys.modules.pop("defs", None)
        importlib.invalidate_caches()
        m = importlib.import_module("defs")
        sys.path.pop(0)
        # instances are created while `defs` still is this file (experimaestro reads the file of a class lazily)
        pool[tag + ".Settings"] = m.Settings(x=spec["x"][tag])
        pool[tag + ".Only"] = getattr(m, "Only" + tag.upper())(y=spec["x"][tag] + 1)
    pool["eval.Settings"] = g["Settings"](x=spec["x"]["eval"])
    pool["eval.Only"] = g["OnlyEval"](y=spec["x"]["eval"] + 1, s="own")
    top = g["Holder"](items=[pool[k] for k in spec["order"]], first=pool[spec["first"]],
                      d={k.replace(".", "_"): pool[k] for k in spec["dict"]})
    out = root / "out"
    out.mkdir()
    expected = describe_files(top, canon)
    defs = json.loads(top.__json__())
    (out / "defs.json").write_text(json.dumps(defs))
    (out / "state.json").write_text(json.dumps(serialization.state_dict(SerializationContext(), {"t": top, "l": [top.first]})))
    (out / "saved").mkdir()
    save(top, out / "saved")
    # model lines: library = the classes of the reachable objects, graph, definition list
    objs = reachable_all(top)[::-1]
    objs.sort(key=lambda o: 0 if o is top else 1)
    index = {id(o): i for i, o in enumerate(objs)}
    types = []
    for o in objs:
        if not any(t is o.__xpmtype__ for t in types):
            types.append(o.__xpmtype__)
    lines = [types_line(types, canon), {"op": "graph", "nodes": [node_json(o, index, canon) for o in objs]}, {"op": "serialize", "roots": [0]}]
    impl = [{"ok": True}, {"ok": True}, {"defs": canon_defs(defs, index, canon)}]
    (out / "stage2.json").write_text(json.dumps({"expected": expected, "lines": lines, "impl": impl,
                                                 "idmap": {str(k): v for k, v in index.items()},
                                                 "orig": top.__xpm__.full_identifier.all.hex()}))


def files_stage3(spec_path):
    """runs in a fresh interpreter that defines none of the classes: load what stage 2 wrote"""
    from experimaestro import load
    from experimaestro.core import serialization
    from experimaestro.core.objects import ConfigInformation
    spec = json.loads(Path(spec_path).read_text())
    root = Path(spec["root"])
    canon = Canon(root)
    canon.repl = [(str(root), "/XVROOT")]
    out = root / "out"
    st2 = json.loads((out / "stage2.json").read_text())
    defs = json.loads((out / "defs.json").read_text())
    routes = {
        "save -> load": lambda: load(out / "saved"),
        "__json__ -> fromParameters(as_instance=False)": lambda: ConfigInformation.fromParameters(json.loads(json.dumps(defs)), as_instance=False),
        "__json__ -> fromParameters(as_instance=True)": lambda: ConfigInformation.fromParameters(json.loads(json.dumps(defs)), as_instance=True),
        "state_dict -> from_state_dict": lambda: serialization.from_state_dict(json.loads((out / "state.json").read_text()), Path("/"))["t"],
    }
    res = {}
    for name, fn in routes.items():
        try:
            res[name] = {"desc": describe_files(fn(), canon)}
        except Exception as e:
            res[name] = {"error": f"{type(e).__name__}: {e}"}
    idmap = {int(k): v for k, v in st2["idmap"].items()}
    try:
        objects = ConfigInformation.load_objects(json.loads(json.dumps(defs)), as_instance=False)
        reload_out = {"objs": loaded_json(objects, defs, idmap, canon)}
        rid = {"id": objects[defs[-1]["id"]].__xpm__.full_identifier.all.hex(), "orig": st2["orig"]}
    except Exception as e:
        reload_out = {"err": err_kind(e)}
        rid = {"err": err_kind(e)}
    (out / "stage3.json").write_text(json.dumps({"routes": res, "reload": reload_out, "reid": rid}))


def run_files(mod, lib, case, root, canon, datadir):
    """classes defined in plain scripts / top-level modules: two script files both run as `__main__`
    (hence both registered as `_main_` by the loader) and two files `defs.py` in different directories,
    with same-named (`Settings`) and differently-named (`OnlyX`) classes; written by one process, loaded by a fresh one"""
    import subprocess
    rec = {"lines": [], "impl": [], "monitors": [], "stats": {}}

    def mon(key, what, detail=None):
        rec["monitors"].append({"key": key, "what": what, "detail": detail})

    PROC_COUNTER[0] += 1
    froot = root / f"files{PROC_COUNTER[0]}"
    for d in ("scripts", "scripts2", "dirA", "dirB"):
        (froot / d).mkdir(parents=True)

    def fill(t, tag, cap):
        return t.replace("@TAG@", tag).replace("@CAP@", cap)
    (froot / "scripts" / "train.py").write_text(fill(FILES_TRAIN, "train", "Train"))
    (froot / "scripts2" / "evaluate.py").write_text(fill(FILES_EVAL, "eval", "Eval"))
    (froot / "dirA" / "defs.py").write_text(fill(FILES_DEFS, "a", "A"))
    (froot / "dirB" / "defs.py").write_text(fill(FILES_DEFS, "b", "B"))
    (froot / "loader.py").write_text(FILES_LOADER)
    spec = dict(case["spec"])
    spec["root"] = str(froot)
    (froot / "spec.json").write_text(json.dumps(spec))
    env = dict(os.environ)
    env["PYTHONWARNINGS"] = "ignore"
    stages = [[str(froot / "scripts" / "train.py"), str(froot / "saved"), str(spec["x"]["train"])],
              [str(froot / "scripts2" / "evaluate.py"), str(froot / "spec.json")],
              [str(froot / "loader.py"), str(froot / "spec.json")]]
    for si, cmd in enumerate(stages):
        p = subprocess.run([sys.executable] + cmd, env=env, capture_output=True, text=True, timeout=300, cwd=str(froot))
        if p.returncode != 0:
            if si == 1 and "load(" in p.stderr:
                mon("files:load-raises", f"a script could not load what another script saved: {p.stderr.strip().splitlines()[-1][:300]}", {"stage": si})
                return rec
            raise RuntimeError(f"files scenario: stage {si + 1} failed: {p.stderr[-1500:]}")
    st2 = json.loads((froot / "out" / "stage2.json").read_text())
    st3 = json.loads((froot / "out" / "stage3.json").read_text())
    rec["lines"] = st2["lines"] + [{"op": "reload", "roots": [0]}, {"op": "reid", "root": 0}]
    rec["impl"] = st2["impl"] + [st3["reload"], st3["reid"]]
    exp = st2["expected"]
    files = sorted({n["file"] for n in exp})
    rec["stats"]["files"] = str(len(files))
    for route, r in st3["routes"].items():
        if "error" in r:
            mon("files:load-raises", f"{route} in a fresh process, classes from {files}: {r['error'][:300]}", {"route": route})
            continue
        got = r["desc"]
        if len(got) != len(exp):
            mon("files:structure", f"{route}: {len(got)} objects reloaded for {len(exp)} written", {"route": route})
            continue
        for k, (a, b) in enumerate(zip(exp, got)):
            if (a["file"], a["qualname"], a["origin"]) != (b["file"], b["qualname"], b["origin"]):
                mon("files:class", f"{route}: object {k} configured with class {a['qualname']} of {a['file']} was rebuilt with class "
                    f"{b['qualname']} of {b['file']} (its code answers {b['origin']!r} instead of {a['origin']!r})", {"route": route})
                break
            if a["values"] != b["values"]:
                mon("files:value", f"{route}: object {k} ({a['qualname']} of {a['file']}): values {b['values']} instead of {a['values']}", {"route": route})
                break
            if a["identifier"] != b["identifier"]:
                mon("files:identifier", f"{route}: object {k} ({a['qualname']} of {a['file']}): identifier {b['identifier'][:12]}… instead of {a['identifier'][:12]}…",
                    {"route": route})
                break
    return rec


PROC_COUNTER = [0]


def run_proc(mod, lib, case, root, canon, datadir):
    """a real job process: the task is submitted in GENERATE_ONLY mode (real job script + params.json),
    the script is run with the real interpreter, the generated classes echo what they observe"""
    import subprocess
    import xvlog
    from experimaestro import experiment, RunMode
    from . import cfgbuild
    rec = {"lines": [], "impl": [], "monitors": [], "stats": {}}
    which = case.get("monitors", "c12")

    def mon(key, what, detail=None):
        rec["monitors"].append({"key": key, "what": what, "detail": detail})

    g = localise(case["graph"], datadir)
    inits = list(g["nodes"][0]["init"])
    g["nodes"][0]["init"] = []
    objs = cfgbuild.build_graph(mod, g)
    rootobj = objs[0]
    PROC_COUNTER[0] += 1
    ws = root / f"ws{PROC_COUNTER[0]}"
    with experiment(ws, "xv", port=-1, run_mode=RunMode.GENERATE_ONLY):
        rootobj.submit(init_tasks=[objs[i] for i in inits])
    job = rootobj.__xpm__.job
    jp = Path(job.path)
    scripts = list(jp.glob("*.py"))
    if len(scripts) != 1 or not (jp / "params.json").is_file():
        raise RuntimeError(f"unexpected job directory content: {[f.name for f in jp.iterdir()]}")
    echo = jp / "xv-echo.jsonl"
    env = dict(os.environ)
    src = os.environ.get("XPM_REPO", "/repo") + "/src"
    env["PYTHONPATH"] = ":".join([str(root), src] + ([env["PYTHONPATH"]] if env.get("PYTHONPATH") else []))
    env["XV_ECHO"] = str(echo)
    p = subprocess.run([sys.executable, str(scripts[0])], cwd=str(jp), env=env, capture_output=True, text=True, timeout=180)
    done = list(jp.glob("*.done"))
    events = [json.loads(l) for l in echo.read_text().splitlines()] if echo.exists() else []
    rec["stats"]["events"] = len(events)
    if not done:
        mon("proc:job-failed", f"the job process did not finish successfully (rc={p.returncode}): {p.stderr[-400:]}")
        return rec
    defs = json.loads((jp / "params.json").read_text())["objects"]
    execs = [e for e in events if e["kind"] == "exec"]
    if not execs:
        mon("proc:body-not-run", "no execute() was observed in the job process")
        return rec
    body = execs[-1]
    if which == "c12":
        want = xvlog.describe(rootobj, lambda o: dict(o.__xpm__.values))
        if body["desc"] != want:
            want_s = xvlog.describe(rootobj, lambda o: dict(o.__xpm__.values), data_as_str=True)
            if body["desc"] == want_s:
                mon("job-side:data-path-as-str", "real job process: the task body sees a DataPath parameter as a str instead of a Path", {"entry": "process"})
            else:
                mon("proc:values-differ", f"real job process: the parameter values echoed by the task body differ from the configured ones: "
                    f"{json.dumps(body['desc'])[:300]} vs {json.dumps(want)[:300]}", {"entry": "process"})
        wt = json.loads(json.dumps(rootobj.tags()))
        if body.get("tags") != wt:
            mon("proc:tags-differ", f"real job process: the task body observed tags {body.get('tags')} instead of {wt}", {"entry": "process"})
    else:
        by_id = {id(o): o for o in objs}
        need = [by_id[d["id"]] for d in defs if d["id"] in by_id]
        inits_ev = [e for e in events if e["kind"] == "init"]
        posts = [e for e in events if e["kind"] == "post"]
        if len(inits_ev) != len(need) or len({e["obj"] for e in inits_ev}) != len(inits_ev):
            mon("proc:objects", f"real job process: {len(inits_ev)} objects initialised for {len(need)} configurations")
        if sorted(e["obj"] for e in posts) != sorted(e["obj"] for e in inits_ev):
            mon("proc:post-init", "real job process: __post_init__ did not run exactly once per object")
        for e in posts:
            k = next((c for c in need if type(c).__mro__[1].__name__ == e["cls"] or e["cls"] in [b.__name__ for b in type(c).__mro__]), None)
        sig = lambda c: (type(c).__name__.split(".")[0], json.dumps(xvlog.describe(c, lambda o: dict(o.__xpm__.values))[0]["values"]))
        esig = lambda e: (e["cls"], json.dumps(e["desc"][0]["values"]))
        pre = all_pre_tasks(need)
        init = [objs[i] for i in inits]
        lw = execs[:-1]
        if len(lw) != len(pre) + len(init):
            mon("proc:exec-count", f"real job process: {len(lw)} lightweight executions for {len(pre)} pre-tasks and {len(init)} init tasks")
        else:
            if sorted(esig(e) for e in lw[:len(pre)]) != sorted(sig(c) for c in pre):
                mon("proc:pre-tasks", "real job process: the pre-tasks did not each run once before the init tasks")
            if [esig(e) for e in lw[len(pre):]] != [sig(c) for c in init]:
                mon("proc:init-tasks", "real job process: the init tasks did not run once, in order, after the pre-tasks")
        if len({e["obj"] for e in lw}) != len(lw):
            mon("proc:exec-twice", "real job process: a lightweight task object was executed twice")
        if esig(body)[0] != type(rootobj).__name__.split(".")[0]:
            mon("proc:body", "real job process: the last execution is not the task body")
    return rec


def main():
    data = json.loads(Path(sys.argv[1]).read_text())
    root = Path(tempfile.mkdtemp(prefix="xvser-"))
    datadir = root / "data"
    datadir.mkdir()
    make_data_files(datadir)
    out = []
    try:
        mods = [load_lib(lib, root) for lib in data["libs"]]
        for case in data["cases"]:
            mod, lib = mods[case["lib"]], data["libs"][case["lib"]]
            canon = Canon(datadir)
            try:
                if case["kind"] == "c13m":     # values with several roots loaded as runtime objects (xv.props.c13x_multiroot)
                    from .c13x_multiroot_worker import run_c13m as fn
                else:
                    fn = {"c12": run_c12, "c13": run_c13, "witness": run_witness, "proc": run_proc, "files": run_files}[case["kind"]]
                rec = fn(mod, lib, case, root, canon, datadir)
                rec["error"] = None
            except Exception as e:
                rec = {"lines": [], "impl": [], "monitors": [], "stats": {}, "error": f"{type(e).__name__}: {e}",
                       "trace": traceback.format_exc()[-2500:]}
            out.append(rec)
    finally:
        shutil.rmtree(root, ignore_errors=True)
    Path(sys.argv[2]).write_text(json.dumps(out, default=str))


if __name__ == "__main__":
    main()
