"""Task classes of the C07 multi-experiment programs (xv.impl.c07x_phases_worker): a task that takes other tasks as
parameters, directly (list), through a dictionary, or inside a nested configuration."""
from typing import Dict, List, Optional

from experimaestro import Config, Param, Task


class Holder(Config):
    """a plain configuration that carries tasks"""
    items: Param[List[Config]]


class Node(Task):
    val: Param[int]
    ups: Param[List[Config]] = []
    named: Param[Dict[str, Config]] = {}
    held: Param[Optional[Holder]] = None

    def execute(self):
        pass
