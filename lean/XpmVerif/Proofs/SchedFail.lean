import XpmVerif.Proofs.SchedDeps
/-! Proofs for C07 (failure containment), on top of the invariant `SchedDeps.Inv` of C04:
    `error` is stable, where `error`/`failedDep`/`done` come from, a job with a failed dependency is never
    launched, the `check` of every dependent of a failed job is queued or has run, and what the `failed`
    list and the waiter report. -/
namespace XpmVerif.SchedFail
open XpmVerif.Sched XpmVerif.SchedDeps

/-! ### dependencies by position -/

def orgAt (jb : Job) (i : Nat) : Origin := (jb.deps.getD i default).origin
def curAt (jb : Job) (i : Nat) : DS := (jb.deps.getD i default).cur

theorem getD_eq {l : List Dep} {i : Nat} (h : i < l.length) : l.getD i default = l[i] := by
  simp [List.getD, h]

theorem orgAt_mem {jb : Job} {d : Dep} (h : d ∈ jb.deps) : ∃ i, i < jb.deps.length ∧ orgAt jb i = d.origin ∧ curAt jb i = d.cur := by
  obtain ⟨i, hi, rfl⟩ := List.getElem_of_mem h
  exact ⟨i, hi, by rw [orgAt, getD_eq hi], by rw [curAt, getD_eq hi]⟩

theorem mem_of_lt {jb : Job} {i : Nat} (h : i < jb.deps.length) :
    ∃ d ∈ jb.deps, d.origin = orgAt jb i ∧ d.cur = curAt jb i :=
  ⟨jb.deps[i], List.getElem_mem h, by rw [orgAt, getD_eq h], by rw [curAt, getD_eq h]⟩

/-! ### more fields of `eventSet` and `depChanged` -/

@[simp] theorem eventSet_failedDep (jb : Job) : (eventSet jb).1.failedDep = jb.failedDep := by
  unfold eventSet; split
  · rfl
  · split <;> rfl
@[simp] theorem eventSet_code (jb : Job) : (eventSet jb).1.code = jb.code := by
  unfold eventSet; split
  · rfl
  · split <;> rfl
@[simp] theorem eventSet_marker (jb : Job) : (eventSet jb).1.marker = jb.marker := by
  unfold eventSet; split
  · rfl
  · split <;> rfl
@[simp] theorem eventSet_ident (jb : Job) : (eventSet jb).1.ident = jb.ident := by
  unfold eventSet; split
  · rfl
  · split <;> rfl

theorem depChanged_fields2 (fl : Flags) (jb : Job) (d : Nat) (st : DS) (hd : d < jb.deps.length) :
    let r := (depChanged fl jb d st).1
    r.ident = jb.ident ∧ r.code = jb.code ∧ r.marker = jb.marker ∧
    r.failedDep = (if st ≠ jb.deps[d].cur ∧ st = .fail ∧ !jb.state.finished then true else jb.failedDep) := by
  have hg : jb.deps.getD d default = jb.deps[d] := getD_eq hd
  simp only [depChanged, hg]
  by_cases h1 : st = jb.deps[d].cur
  · subst h1; simp
  · simp only [h1, if_false]
    by_cases h2 : st = DS.fail ∧ (!jb.state.finished) = true
    · simp only [h2, and_self, if_true, eventSet_unsat, eventSet_state]
      have h1' : ¬ DS.fail = jb.deps[d].cur := by rw [← h2.1]; exact h1
      split <;> simp [h1']
    · simp only [h2, if_false]
      split <;> simp

theorem depChanged_at (fl : Flags) (jb : Job) (d : Nat) (st : DS) (hd : d < jb.deps.length) :
    (depChanged fl jb d st).1.deps.length = jb.deps.length ∧
    orgAt (depChanged fl jb d st).1 = orgAt jb ∧
    curAt (depChanged fl jb d st).1 = upd (curAt jb) d st := by
  obtain ⟨e1, -⟩ := depChanged_fields fl jb d st hd
  refine ⟨by rw [e1]; simp, ?_, ?_⟩
  · funext i; simp only [orgAt, e1, List.getD, List.getElem?_set]
    split
    · rename_i e; subst e; simp [List.getElem?_eq_getElem hd]
    · rfl
  · funext i; simp only [curAt, e1, List.getD, List.getElem?_set, Sched.upd]
    split
    · rename_i e; subst e; simp
    · rename_i e; have : ¬ i = d := fun h => e h.symm
      simp [this]




theorem eventSet_sleeping (jb : Job) :
    ((eventSet jb).1.sleeping = true → jb.sleeping = true) ∧ ((eventSet jb).2 = true → jb.sleeping = true) := by
  unfold eventSet; split
  · simp
  · split <;> simp_all

theorem ite_eventSet_sleeping (jb : Job) (c : Prop) [Decidable c] (x y : Job)
    (hx : x.sleeping = true → jb.sleeping = true) (hy : y.sleeping = true → jb.sleeping = true) :
    ((if c then eventSet x else (y, false)).1.sleeping = true → jb.sleeping = true) ∧
    ((if c then eventSet x else (y, false)).2 = true → jb.sleeping = true) := by
  split
  · exact ⟨fun e => hx ((eventSet_sleeping x).1 e), fun e => hx ((eventSet_sleeping x).2 e)⟩
  · exact ⟨hy, by simp⟩

theorem depChanged_eq (fl : Flags) (jb : Job) (d : Nat) (st : DS) : depChanged fl jb d st =
    (if st = (jb.deps.getD d default).cur then (jb, false) else
     let jb0 : Job := { jb with unsat := jb.unsat - (val st - val (jb.deps.getD d default).cur) }
     let P1 := if st = .fail ∧ !jb0.state.finished then eventSet { jb0 with state := .error, failedDep := true } else (jb0, false)
     let P2 := if P1.1.unsat = 0 ∧ (!fl.readyGuarded ∨ P1.1.state = .waiting) then eventSet { P1.1 with state := .ready } else (P1.1, false)
     ({ P2.1 with deps := P2.1.deps.set d { (P2.1.deps.getD d default) with cur := st } }, P1.2 || P2.2)) := rfl

theorem depChanged_sleeping (fl : Flags) (jb : Job) (d : Nat) (st : DS) :
    ((depChanged fl jb d st).1.sleeping = true → jb.sleeping = true) ∧
    ((depChanged fl jb d st).2 = true → jb.sleeping = true) := by
  rw [depChanged_eq]
  split
  · simp
  · simp only
    have h1 := ite_eventSet_sleeping jb (st = .fail ∧ (!jb.state.finished) = true)
      { jb with unsat := jb.unsat - (val st - val (jb.deps.getD d default).cur), state := .error, failedDep := true }
      { jb with unsat := jb.unsat - (val st - val (jb.deps.getD d default).cur) } id id
    generalize (if st = DS.fail ∧ (!jb.state.finished) = true then
      eventSet { jb with unsat := jb.unsat - (val st - val (jb.deps.getD d default).cur), state := .error, failedDep := true }
      else ({ jb with unsat := jb.unsat - (val st - val (jb.deps.getD d default).cur) }, false)) = P1 at h1 ⊢
    have h2 := ite_eventSet_sleeping jb (P1.1.unsat = 0 ∧ ((!fl.readyGuarded) = true ∨ P1.1.state = .waiting))
      { P1.1 with state := .ready } P1.1 h1.1 h1.1
    generalize (if P1.1.unsat = 0 ∧ ((!fl.readyGuarded) = true ∨ P1.1.state = .waiting) then
      eventSet { P1.1 with state := .ready } else (P1.1, false)) = P2 at h2 ⊢
    refine ⟨h2.1, ?_⟩
    intro e
    rcases Bool.or_eq_true_iff.mp e with e | e
    · exact h1.2 e
    · exact h2.2 e


/-! ### the local invariant -/

def inStart (pc : PC) : Prop := pc = .lockEnter ∨ pc = .lockExitAbort ∨ pc = .lockExitRun ∨ pc = .codeWait
def pcFin (pc : PC) : Prop := ∃ r, pc = .finished r
def pcFinal (pc : PC) : Prop := pc = .doneHandler ∨ pcFin pc
def started (pc : PC) : Prop := pc ≠ .none ∧ pc ≠ .created

structure FLoc' (state : JS) (pc : PC) (len : Nat) (org : Nat → Origin) (cur : Nat → DS) (launches : Nat)
    (fd : Bool) (code : Nat) (marker : Bool) : Prop where
  f1 : (inStart pc ∨ 0 < launches) → ∀ i < len, ∀ o, org i = .job o → cur i = .ok
  f2 : state = .error → ¬ inStart pc
  f3 : (pc = .lockExitRun ∨ pc = .codeWait) → 0 < launches
  f4 : state = .error → fd = true ∨ (0 < launches ∧ code ≠ 0)
  f5 : pcFinal pc → state = .done ∨ state = .error
  f6 : (∃ i < len, cur i = .fail) → state = .done ∨ (state = .error ∧ fd = true)
  f7 : fd = true → ∃ i < len, (∃ o, org i = .job o) ∧ cur i = .fail
  f9 : state = .done → marker = true ∨ (0 < launches ∧ code = 0)

def FLoc (jb : Job) : Prop :=
  FLoc' jb.state jb.pc jb.deps.length (orgAt jb) (curAt jb) jb.launches jb.failedDep jb.code jb.marker

/-- what any callback may do to one record (transitive). -/
structure FStep (a b : Job) : Prop where
  err : a.state = .error → b.state = .error
  ident : b.ident = a.ident
  code : b.code = a.code
  marker : b.marker = a.marker
  len : b.deps.length = a.deps.length
  org : orgAt b = orgAt a
  fail : ∀ i, curAt a i = .fail → curAt b i = .fail
  started : started a.pc → started b.pc

/-- `FStep` without the stability of `error` (inside `startJob` a done marker overrides `error`). -/
structure FStep0 (a b : Job) : Prop where
  ident : b.ident = a.ident
  code : b.code = a.code
  marker : b.marker = a.marker
  len : b.deps.length = a.deps.length
  org : orgAt b = orgAt a
  fail : ∀ i, curAt a i = .fail → curAt b i = .fail
  started : started a.pc → started b.pc

theorem FStep.to0 {a b : Job} (h : FStep a b) : FStep0 a b := ⟨h.ident, h.code, h.marker, h.len, h.org, h.fail, h.started⟩
theorem FStep0.trans {a b c : Job} (h1 : FStep0 a b) (h2 : FStep0 b c) : FStep0 a c :=
  ⟨h2.ident.trans h1.ident, h2.code.trans h1.code, h2.marker.trans h1.marker,
   h2.len.trans h1.len, h2.org.trans h1.org, fun i e => h2.fail i (h1.fail i e), fun e => h2.started (h1.started e)⟩
theorem FStep0.toStep {a b : Job} (h : FStep0 a b) (he : a.state = .error → b.state = .error) : FStep a b :=
  ⟨he, h.ident, h.code, h.marker, h.len, h.org, h.fail, h.started⟩

theorem FStep.refl (a : Job) : FStep a a := ⟨id, rfl, rfl, rfl, rfl, rfl, fun _ => id, id⟩
theorem FStep.trans {a b c : Job} (h1 : FStep a b) (h2 : FStep b c) : FStep a c :=
  ⟨fun e => h2.err (h1.err e), h2.ident.trans h1.ident, h2.code.trans h1.code, h2.marker.trans h1.marker,
   h2.len.trans h1.len, h2.org.trans h1.org, fun i e => h2.fail i (h1.fail i e), fun e => h2.started (h1.started e)⟩

theorem dcState_err (fl : Flags) (hfl : fl.readyGuarded = true) (state : JS) (unsat : Int) (st cur : DS) :
    let r := dcState fl state unsat st cur
    (state = .error → r = .error) ∧ (state.finished = true → r = state) ∧
    (r = .error → state = .error ∨ (st ≠ cur ∧ st = .fail ∧ state.finished = false)) ∧
    (st ≠ cur → st = .fail → state.finished = false → r = .error) ∧ (r = .done → state = .done) := by
  simp only [dcState, hfl]
  cases state <;> cases st <;> cases cur <;> simp [JS.finished] <;> (try split) <;> simp_all

theorem depChanged_floc (fl : Flags) (hfl : fl.readyGuarded = true) (jb : Job) (d : Nat) (st : DS)
    (hd : d < jb.deps.length) (hloc : FLoc jb)
    (hs1 : ∀ o, orgAt jb d = .job o → curAt jb d = .ok → st = .ok)
    (hs2 : st = .fail → ∃ o, orgAt jb d = .job o)
    (hs3 : curAt jb d = .fail → st = .fail) :
    FLoc (depChanged fl jb d st).1 ∧ FStep jb (depChanged fl jb d st).1 := by
  obtain ⟨-, e2, e3, -, e5⟩ := depChanged_fields fl jb d st hd
  obtain ⟨i1, i2, i3, i4⟩ := depChanged_fields2 fl jb d st hd
  obtain ⟨a1, a2, a3⟩ := depChanged_at fl jb d st hd
  obtain ⟨c1, c2, c3, c4, c5⟩ := dcState_err fl hfl jb.state jb.unsat st jb.deps[d].cur
  have hcd : jb.deps[d].cur = curAt jb d := by rw [curAt, getD_eq hd]
  rw [hcd] at e5 i4 c1 c2 c3 c4 c5
  obtain ⟨f1, f2, f3, f4, f5, f6, f7, f9⟩ := hloc
  refine ⟨?_, ?_⟩
  · unfold FLoc
    rw [e2, e3, e5, i2, i3, i4, a1, a2, a3]
    generalize dcState fl jb.state jb.unsat st (curAt jb d) = r at *
    generalize curAt jb = cur at *
    generalize orgAt jb = org at *
    have hfin : ∀ s : JS, s = .done ∨ s = .error → s.finished = true := by
      intro s h; rcases h with rfl | rfl <;> rfl
    have hfin2 : ∀ s : JS, s.finished = true → s = .done ∨ s = .error := by
      intro s h; cases s <;> simp [JS.finished] at h ⊢
    constructor
    · grind [Sched.upd]
    · grind [Sched.upd]
    · grind [Sched.upd]
    · grind [Sched.upd]
    · grind [Sched.upd]
    · rintro ⟨i, hi, hc⟩
      have h6a : cur i = .fail → jb.state = .done ∨ (jb.state = .error ∧ jb.failedDep = true) := fun h => f6 ⟨i, hi, h⟩
      have h6b : cur d = .fail → jb.state = .done ∨ (jb.state = .error ∧ jb.failedDep = true) := fun h => f6 ⟨d, hd, h⟩
      have h1d := fun h => f1 h d hd
      cases hf : jb.state.finished <;> grind [Sched.upd]
    · grind [Sched.upd]
    · grind [Sched.upd]
  · refine ⟨by rw [e5]; exact c1, i1, i2, i3, a1, a2, ?_, by rw [e2]; exact id⟩
    intro i hi; rw [a3]; unfold Sched.upd; split
    · rename_i e; subst e; exact hs3 hi
    · exact hi




/-! ### the global invariant -/

/-- job `j` is registered as a dependent of the origin of each of its job dependencies. -/
def Registered (jobs : Nat → Job) (jd : Nat → List (Nat × Nat)) (j : Nat) : Prop :=
  ∀ i, i < (jobs j).deps.length → ∀ o, orgAt (jobs j) i = .job o → (j, i) ∈ jd o

structure G (n : Nat) (jobs : Nat → Job) (jd : Nat → List (Nat × Nat)) (failed : List Nat) : Prop where
  floc : ∀ j, FLoc (jobs j)
  g1 : ∀ j i, i < (jobs j).deps.length → curAt (jobs j) i = .fail → ∃ o, orgAt (jobs j) i = .job o ∧ (jobs o).state = .error
  g0 : ∀ o, ∀ p ∈ jd o, orgAt (jobs p.1) p.2 = .job o
  gR : ∀ j, started (jobs j).pc → Registered jobs jd j
  gF : ∀ x, x ∈ failed ↔ ∃ j, (jobs j).ident = x ∧ (jobs j).state = .error ∧ pcFinal (jobs j).pc
  gN : ∀ j, n ≤ j → (jobs j).deps = []
  gS : ∀ j i, i < (jobs j).deps.length → orgAt (jobs j) i ≠ .job j
  gSl : ∀ j, (jobs j).sleeping = true → started (jobs j).pc

/-- a queued wake-up targets a job whose first segment has run. -/
def GW (jobs : Nat → Job) (ready : List Cb) : Prop := ∀ j, Cb.wake j ∈ ready → started (jobs j).pc

/-- every dependent of a failed and finished job has seen the failure or its `check` is queued. -/
def GP (jobs : Nat → Job) (ready : List Cb) (jd : Nat → List (Nat × Nat)) : Prop :=
  ∀ o, ∀ p ∈ jd o, (jobs o).state = .error → pcFin (jobs o).pc →
    curAt (jobs p.1) p.2 = .fail ∨ Cb.check p.1 p.2 ∈ ready

structure Core' (n : Nat) (jobs : Nat → Job) (ready : List Cb) (jd td : Nat → List (Nat × Nat)) (failed : List Nat) : Prop where
  inv : Inv' n jobs ready jd td
  g : G n jobs jd failed

/-- `SchedDeps.Inv` and the clauses that do not mention the queue. -/
def Core (s : St) : Prop := Core' s.n s.jobs s.ready s.jobDeps s.tokDeps s.failed

structure Inv2' (n : Nat) (jobs : Nat → Job) (ready : List Cb) (jd td : Nat → List (Nat × Nat)) (failed : List Nat) : Prop where
  core : Core' n jobs ready jd td failed
  gp : GP jobs ready jd
  gw : GW jobs ready

/-- the invariant of C07 (depends on `n`, `jobs`, `ready`, `jobDeps`, `tokDeps`, `failed` only). -/
def Inv2 (s : St) : Prop := Inv2' s.n s.jobs s.ready s.jobDeps s.tokDeps s.failed

theorem Core.toInv {s : St} (h : Core s) : Inv s := h.inv
theorem Inv2.toInv {s : St} (h : Inv2 s) : Inv s := h.core.inv
theorem Inv2.toCore {s : St} (h : Inv2 s) : Core s := h.core

def FTr (jobs jobs' : Nat → Job) : Prop := ∀ i, FStep (jobs i) (jobs' i)
theorem FTr.refl (jobs : Nat → Job) : FTr jobs jobs := fun _ => FStep.refl _
theorem FTr.trans {a b c : Nat → Job} (h1 : FTr a b) (h2 : FTr b c) : FTr a c := fun i => (h1 i).trans (h2 i)
theorem FTr.updJob {jobs : Nat → Job} {x : Nat} {jb' : Job} (h : FStep (jobs x) jb') : FTr jobs (upd jobs x jb') := by
  intro i; unfold Sched.upd; split
  · rename_i e; subst e; exact h
  · exact FStep.refl _

theorem GP.mono {jobs ready ready' jd} (h : GP jobs ready jd) (hsub : ∀ cb ∈ ready, cb ∈ ready') : GP jobs ready' jd :=
  fun o p hp he hf => (h o p hp he hf).imp id (hsub _)

/-- replacing one record; the `failed` list may change (`hgF`); `error` of the record is kept, or no other
    job has recorded a failure of it (`herr`). -/
theorem G.updJob0 {n jobs jd failed} (h : G n jobs jd failed) (x : Nat) (jb' : Job) (failed' : List Nat)
    (hloc : FLoc jb') (hsl : jb'.sleeping = true → started jb'.pc) (hst : FStep0 (jobs x) jb')
    (herr : (jobs x).state = .error → jb'.state = .error ∨
      ∀ i k, i ≠ x → k < (jobs i).deps.length → orgAt (jobs i) k = .job x → curAt (jobs i) k ≠ .fail)
    (hg1 : ∀ i, i < jb'.deps.length → curAt jb' i = .fail → ∃ o, orgAt jb' i = .job o ∧ (upd jobs x jb' o).state = .error)
    (hreg : started jb'.pc → Registered jobs jd x)
    (hgF : ∀ y, y ∈ failed' ↔ ∃ j, (upd jobs x jb' j).ident = y ∧ (upd jobs x jb' j).state = .error ∧ pcFinal (upd jobs x jb' j).pc) :
    G n (upd jobs x jb') jd failed' := by
  have horg : ∀ i, orgAt (upd jobs x jb' i) = orgAt (jobs i) := by
    intro i; unfold Sched.upd; split
    · rename_i e; subst e; exact hst.org
    · rfl
  have hlen : ∀ i, (upd jobs x jb' i).deps.length = (jobs i).deps.length := by
    intro i; unfold Sched.upd; split
    · rename_i e; subst e; exact hst.len
    · rfl
  refine ⟨?_, ?_, ?_, ?_, hgF, ?_, ?_, ?_⟩
  rotate_right
  · intro j; unfold Sched.upd; split
    · exact hsl
    · exact h.gSl j
  · intro j; unfold Sched.upd; split
    · exact hloc
    · exact h.floc j
  · intro j i hi hc
    by_cases e : j = x
    · subst e; simp only [upd_same] at hi hc ⊢; exact hg1 i hi hc
    · simp only [Sched.upd, e, if_false] at hi hc
      obtain ⟨o, ho, he⟩ := h.g1 j i hi hc
      refine ⟨o, by simp only [Sched.upd, e, if_false]; exact ho, ?_⟩
      by_cases e' : o = x
      · subst e'; rw [upd_same]
        rcases herr he with h1 | h1
        · exact h1
        · exact absurd hc (h1 j i e hi ho)
      · simp only [Sched.upd, e', if_false]; exact he
  · intro o p hp; rw [horg]; exact h.g0 o p hp
  · intro j hs i hi o ho
    by_cases e : j = x
    · subst e; simp only [upd_same] at hs hi ho
      exact hreg hs i (by rw [← hst.len]; exact hi) o (by rw [← hst.org]; exact ho)
    · simp only [Sched.upd, e, if_false] at hs hi ho
      exact h.gR j hs i hi o ho
  · intro j hj
    have := hlen j
    rw [h.gN j hj] at this
    exact List.eq_nil_of_length_eq_zero this
  · intro j i hi
    rw [horg]; rw [hlen] at hi; exact h.gS j i hi

theorem G.updJob' {n jobs jd failed} (h : G n jobs jd failed) (x : Nat) (jb' : Job) (failed' : List Nat)
    (hloc : FLoc jb') (hsl : jb'.sleeping = true → started jb'.pc) (hst : FStep (jobs x) jb')
    (hg1 : ∀ i, i < jb'.deps.length → curAt jb' i = .fail → ∃ o, orgAt jb' i = .job o ∧ (upd jobs x jb' o).state = .error)
    (hreg : started jb'.pc → Registered jobs jd x)
    (hgF : ∀ y, y ∈ failed' ↔ ∃ j, (upd jobs x jb' j).ident = y ∧ (upd jobs x jb' j).state = .error ∧ pcFinal (upd jobs x jb' j).pc) :
    G n (upd jobs x jb') jd failed' :=
  h.updJob0 x jb' failed' hloc hsl hst.to0 (fun e => Or.inl (hst.err e)) hg1 hreg hgF

theorem gF_of_hF {n jobs jd failed} (h : G n jobs jd failed) (x : Nat) (jb' : Job)
    (hid : jb'.ident = (jobs x).ident)
    (hF : (jb'.state = .error ∧ pcFinal jb'.pc) ↔ ((jobs x).state = .error ∧ pcFinal (jobs x).pc)) :
    ∀ y, y ∈ failed ↔ ∃ j, (upd jobs x jb' j).ident = y ∧ (upd jobs x jb' j).state = .error ∧ pcFinal (upd jobs x jb' j).pc := by
  intro y
  rw [h.gF y]
  constructor
  · rintro ⟨j, hj⟩
    refine ⟨j, ?_⟩
    by_cases e : j = x
    · subst e; rw [upd_same]; exact ⟨hid.trans hj.1, hF.mpr hj.2⟩
    · simp only [Sched.upd, e, if_false]; exact hj
  · rintro ⟨j, hj⟩
    refine ⟨j, ?_⟩
    by_cases e : j = x
    · subst e; rw [upd_same] at hj; exact ⟨hid.symm.trans hj.1, hF.mp hj.2⟩
    · simp only [Sched.upd, e, if_false] at hj; exact hj

/-- replacing one record (not by `finish`). -/
theorem G.updJob {n jobs jd failed} (h : G n jobs jd failed) (x : Nat) (jb' : Job)
    (hloc : FLoc jb') (hsl : jb'.sleeping = true → started jb'.pc) (hst : FStep (jobs x) jb')
    (hg1 : ∀ i, i < jb'.deps.length → curAt jb' i = .fail → ∃ o, orgAt jb' i = .job o ∧ (upd jobs x jb' o).state = .error)
    (hreg : started jb'.pc → Registered jobs jd x)
    (hF : (jb'.state = .error ∧ pcFinal jb'.pc) ↔ ((jobs x).state = .error ∧ pcFinal (jobs x).pc)) :
    G n (upd jobs x jb') jd failed :=
  h.updJob' x jb' failed hloc hsl hst hg1 hreg (gF_of_hF h x jb' hst.ident hF)

theorem GP.updJob {jobs ready jd} (h : GP jobs ready jd) (x : Nat) (jb' : Job) (hst : FStep0 (jobs x) jb')
    (hfin : jb'.state = .error → pcFin jb'.pc → (jobs x).state = .error ∧ pcFin (jobs x).pc) :
    GP (upd jobs x jb') ready jd := by
  intro o p hp he hf
  have hold : (jobs o).state = .error ∧ pcFin (jobs o).pc := by
    by_cases e : o = x
    · subst e; rw [upd_same] at he hf; exact hfin he hf
    · simp only [Sched.upd, e, if_false] at he hf; exact ⟨he, hf⟩
  rcases h o p hp hold.1 hold.2 with hc | hc
  · left
    unfold Sched.upd; split
    · rename_i e; rw [e] at hc; exact hst.fail _ hc
    · exact hc
  · exact Or.inr hc



theorem GW.updJob {jobs ready} (h : GW jobs ready) (x : Nat) (jb' : Job) (hst : FStep0 (jobs x) jb') :
    GW (upd jobs x jb') ready := by
  intro j hj
  unfold Sched.upd; split
  · rename_i e; subst e; exact hst.started (h j hj)
  · exact h j hj

theorem GW.add {jobs ready} (h : GW jobs ready) {cbs : List Cb} (hcbs : ∀ j, Cb.wake j ∈ cbs → started (jobs j).pc) :
    GW jobs (ready ++ cbs) := by
  intro j hj
  rcases List.mem_append.mp hj with hj | hj
  · exact h j hj
  · exact hcbs j hj

theorem GW.addNoWake {jobs ready} (h : GW jobs ready) {cbs : List Cb} (hcbs : ∀ j, Cb.wake j ∉ cbs) :
    GW jobs (ready ++ cbs) := h.add (fun j hj => absurd hj (hcbs j))

/-! ### `St.put` -/

theorem Core.put {s : St} (h : Core s) (x : Nat) (jb' : Job) (cbs : List Cb) (ths : List (TK × Nat))
    (hinv : Inv (s.put x jb' cbs ths)) (hloc : FLoc jb') (hsl : jb'.sleeping = true → started jb'.pc)
    (hst : FStep (s.jobs x) jb')
    (hg1 : ∀ i, i < jb'.deps.length → curAt jb' i = .fail → ∃ o, orgAt jb' i = .job o ∧ (upd s.jobs x jb' o).state = .error)
    (hreg : started jb'.pc → Registered s.jobs s.jobDeps x)
    (hF : (jb'.state = .error ∧ pcFinal jb'.pc) ↔ ((s.jobs x).state = .error ∧ pcFinal (s.jobs x).pc)) :
    Core (s.put x jb' cbs ths) :=
  ⟨hinv, G.updJob h.g x jb' hloc hsl hst hg1 hreg hF⟩

theorem Inv2.put {s : St} (h : Inv2 s) (x : Nat) (jb' : Job) (cbs : List Cb) (ths : List (TK × Nat))
    (hinv : Inv (s.put x jb' cbs ths)) (hloc : FLoc jb') (hsl : jb'.sleeping = true → started jb'.pc)
    (hst : FStep (s.jobs x) jb')
    (hg1 : ∀ i, i < jb'.deps.length → curAt jb' i = .fail → ∃ o, orgAt jb' i = .job o ∧ (upd s.jobs x jb' o).state = .error)
    (hreg : started jb'.pc → Registered s.jobs s.jobDeps x)
    (hF : (jb'.state = .error ∧ pcFinal jb'.pc) ↔ ((s.jobs x).state = .error ∧ pcFinal (s.jobs x).pc))
    (hfin : jb'.state = .error → pcFin jb'.pc → (s.jobs x).state = .error ∧ pcFin (s.jobs x).pc)
    (hcbs : ∀ j, Cb.wake j ∈ cbs → started (upd s.jobs x jb' j).pc) :
    Inv2 (s.put x jb' cbs ths) ∧ FTr s.jobs (s.put x jb' cbs ths).jobs :=
  ⟨⟨Core.put h.core x jb' cbs ths hinv hloc hsl hst hg1 hreg hF,
    (GP.updJob h.gp x jb' hst.to0 hfin).mono (fun _ hm => List.mem_append_left _ hm),
    (GW.updJob h.gw x jb' hst.to0).add hcbs⟩, FTr.updJob hst⟩

/-- `hg1` when the dependency statuses are those of the old record. -/
theorem hg1_same {n jobs jd failed} (h : G n jobs jd failed) (x : Nat) (jb' : Job) (hst : FStep (jobs x) jb')
    (hc : curAt jb' = curAt (jobs x)) :
    ∀ i, i < jb'.deps.length → curAt jb' i = .fail → ∃ o, orgAt jb' i = .job o ∧ (upd jobs x jb' o).state = .error := by
  intro i hi hf
  rw [hst.len] at hi; rw [hc] at hf
  obtain ⟨o, ho, he⟩ := h.g1 x i hi hf
  exact ⟨o, by rw [hst.org]; exact ho, (FTr.updJob hst o).err he⟩

/-- index form of `Inv`'s `ready_ok`. -/
theorem ready_okAt {s : St} (h : Inv s) (j : Nat) (hp : (s.jobs j).state = .ready ∨ (s.jobs j).pc = .lockEnter) :
    ∀ i < (s.jobs j).deps.length, ∀ o, orgAt (s.jobs j) i = .job o → curAt (s.jobs j) i = .ok := by
  intro i hi o ho
  obtain ⟨d, hd, e1, e2⟩ := mem_of_lt hi
  rw [← e2]; exact (h.loc j).ready_ok hp d hd o (e1.trans ho)

/-- index form of `Inv`'s `okdone`. -/
theorem okdoneAt {s : St} (h : Inv s) (j i o : Nat) (hi : i < (s.jobs j).deps.length)
    (ho : orgAt (s.jobs j) i = .job o) (hc : curAt (s.jobs j) i = .ok) : (s.jobs o).state = .done := by
  obtain ⟨d, hd, e1, e2⟩ := mem_of_lt hi
  exact h.okdone j d hd o (e1.trans ho) (e2.trans hc)

/-- a record with the same fields (only `held`, `event`, `sleeping`, … change). -/
theorem Inv2.putSame {s : St} (h : Inv2 s) (x : Nat) (jb' : Job) (ths : List (TK × Nat))
    (hs : jb'.state = (s.jobs x).state) (hp : jb'.pc = (s.jobs x).pc) (hd : jb'.deps = (s.jobs x).deps)
    (hu : jb'.unsat = (s.jobs x).unsat) (hl : jb'.launches = (s.jobs x).launches)
    (hf : jb'.failedDep = (s.jobs x).failedDep) (hc : jb'.code = (s.jobs x).code)
    (hm : jb'.marker = (s.jobs x).marker) (hi : jb'.ident = (s.jobs x).ident)
    (hsl : jb'.sleeping = (s.jobs x).sleeping) :
    Inv2 (s.put x jb' [] ths) ∧ FTr s.jobs (s.put x jb' [] ths).jobs := by
  have ho : orgAt jb' = orgAt (s.jobs x) := by funext i; simp only [orgAt, hd]
  have hcu : curAt jb' = curAt (s.jobs x) := by funext i; simp only [curAt, hd]
  have hst : FStep (s.jobs x) jb' :=
    ⟨fun e => hs.trans e, hi, hc, hm, by rw [hd], ho, fun i e => by rw [hcu]; exact e, fun e => by rw [hp]; exact e⟩
  apply h.put x jb' [] ths (h.toInv.putSame x jb' ths hs hp hd hu hl).1 _ _ hst (hg1_same h.core.g x jb' hst hcu)
  · intro hs'; rw [hp] at hs'; exact h.core.g.gR x hs'
  · rw [hs, hp]
  · rw [hs, hp]; exact fun a b => ⟨a, b⟩
  · intro j hj; simp at hj
  · show FLoc' _ _ _ _ _ _ _ _ _
    rw [hs, hp, hd, hl, hf, hc, hm, ho, hcu]; exact h.core.g.floc x
  · rw [hsl, hp]; exact h.core.g.gSl x





theorem status_fail {s : St} {og : Origin} (h : s.status og = .fail) : ∃ o, og = .job o ∧ (s.jobs o).state = .error := by
  cases og with
  | job o =>
    refine ⟨o, rfl, ?_⟩
    simp only [St.status] at h
    split at h <;> simp_all
  | tok t c => simp only [St.status] at h; split at h <;> simp at h

theorem status_of_error {s : St} {o : Nat} (h : (s.jobs o).state = .error) : s.status (.job o) = .fail := by
  simp [St.status, h]

theorem status_of_done {s : St} {o : Nat} (h : (s.jobs o).state = .done) : s.status (.job o) = .ok := by
  simp [St.status, h]

/-- `St.check`; the queue hypothesis may count the `check j d` that is being run. -/
theorem Inv2.check (fl : Flags) (hfl : fl.readyGuarded = true) {s : St} (hc : Core s) (j d : Nat)
    (hP : GP s.jobs (.check j d :: s.ready) s.jobDeps) (hW : GW s.jobs s.ready)
    (hact : act (s.jobs j)) (hd : d < (s.jobs j).deps.length) :
    Inv2 (s.check fl j d) ∧ FTr s.jobs (s.check fl j d).jobs := by
  have hinv := (hc.toInv.check fl hfl j d hact hd).1
  have hst0 : s.status ((s.jobs j).deps.getD d default).origin = s.status (orgAt (s.jobs j) d) := rfl
  generalize hstv : s.status ((s.jobs j).deps.getD d default).origin = st at hst0
  have hs1 : ∀ o, orgAt (s.jobs j) d = .job o → curAt (s.jobs j) d = .ok → st = .ok := by
    intro o ho hcu; rw [hst0, ho]; exact status_of_done (okdoneAt hc.inv j d o hd ho hcu)
  have hs2' : st = .fail → ∃ o, orgAt (s.jobs j) d = .job o ∧ (s.jobs o).state = .error := by
    intro e; rw [hst0] at e; exact status_fail e
  have hs3 : curAt (s.jobs j) d = .fail → st = .fail := by
    intro e; obtain ⟨o, ho, he⟩ := hc.g.g1 j d hd e
    rw [hst0, ho]; exact status_of_error he
  obtain ⟨hloc, hstp⟩ := depChanged_floc fl hfl (s.jobs j) d st hd (hc.g.floc j) hs1
    (fun e => (hs2' e).imp fun _ h => h.1) hs3
  obtain ⟨-, e2, -, -, e5⟩ := depChanged_fields fl (s.jobs j) d st hd
  obtain ⟨c1, c2, -⟩ := dcState_err fl hfl (s.jobs j).state (s.jobs j).unsat st (s.jobs j).deps[d].cur
  obtain ⟨a1, a2, a3⟩ := depChanged_at fl (s.jobs j) d st hd
  have hkeep : pcFinal (s.jobs j).pc → (depChanged fl (s.jobs j) d st).1.state = (s.jobs j).state := by
    intro hf; rw [e5]; apply c2
    rcases (hc.g.floc j).f5 hf with e | e <;> rw [e] <;> rfl
  obtain ⟨sl1, sl2⟩ := depChanged_sleeping fl (s.jobs j) d st
  revert hinv
  simp only [St.check, hstv]
  rcases hdc : depChanged fl (s.jobs j) d st with ⟨jb', w⟩
  rw [hdc] at hloc hstp e2 e5 a1 a2 a3 hkeep sl1 sl2
  simp only at hloc hstp e2 e5 a1 a2 a3 hkeep sl1 sl2 ⊢
  intro hinv
  have hcore : Core (s.put j jb' (if w then [.wake j] else [])) := by
    apply hc.put j jb' _ _ hinv hloc (fun e => by rw [e2]; exact hc.g.gSl j (sl1 e)) hstp
    · intro i hi hf
      rw [a3] at hf; rw [a2]
      unfold Sched.upd at hf; split at hf
      · rename_i e; subst e
        obtain ⟨o, ho, he⟩ := hs2' hf
        exact ⟨o, ho, (FTr.updJob hstp o).err he⟩
      · obtain ⟨o, ho, he⟩ := hc.g.g1 j i (by rw [← a1]; exact hi) hf
        exact ⟨o, ho, (FTr.updJob hstp o).err he⟩
    · intro hs'; rw [e2] at hs'; exact hc.g.gR j hs'
    · rw [e2]; constructor
      · rintro ⟨a, b⟩; rw [hkeep b] at a; exact ⟨a, b⟩
      · rintro ⟨a, b⟩; rw [hkeep b]; exact ⟨a, b⟩
  refine ⟨⟨hcore, ?_, ?_⟩, FTr.updJob hstp⟩
  rotate_left
  · apply (GW.updJob hW j jb' hstp.to0).add
    intro j' hj'
    split at hj'
    · simp at hj'; subst hj'
      show started (upd s.jobs j' jb' j').pc
      rw [upd_same, e2]; exact hc.g.gSl j' (sl2 (by assumption))
    · simp at hj'
  intro o p hp he hf
  have hold : (s.jobs o).state = .error ∧ pcFin (s.jobs o).pc := by
    by_cases e : o = j
    · subst e; simp only [St.put, upd_same] at he hf; rw [e2] at hf
      rw [hkeep (Or.inr hf)] at he; exact ⟨he, hf⟩
    · simp only [St.put, Sched.upd, e, if_false] at he hf; exact ⟨he, hf⟩
  have hcase : curAt (s.jobs p.1) p.2 = .fail ∨ (p.1 = j ∧ p.2 = d) ∨ Cb.check p.1 p.2 ∈ s.ready := by
    rcases hP o p hp hold.1 hold.2 with h | h
    · exact Or.inl h
    · rcases List.mem_cons.mp h with h | h
      · injection h with h1 h2; exact Or.inr (Or.inl ⟨h1, h2⟩)
      · exact Or.inr (Or.inr h)
  rcases hcase with h | ⟨h1, h2⟩ | h
  · exact Or.inl ((FTr.updJob hstp p.1).fail _ h)
  · left
    have ho := hc.g.g0 o p hp
    rw [h1, h2] at ho
    show curAt (upd s.jobs j jb' p.1) p.2 = .fail
    rw [h1, h2, upd_same, a3, upd_same, hst0, ho]; exact status_of_error hold.1
  · exact Or.inr (List.mem_append_left _ h)

/-- an active record where only `pc` changes, the job being neither `done` nor `error`. -/
theorem Inv2.putPc {s : St} (h : Inv2 s) (x : Nat) (jb' : Job) (ths : List (TK × Nat)) (hact : act (s.jobs x))
    (hs : jb'.state = (s.jobs x).state) (hd : jb'.deps = (s.jobs x).deps)
    (hu : jb'.unsat = (s.jobs x).unsat) (hl : jb'.launches = (s.jobs x).launches)
    (hf : jb'.failedDep = (s.jobs x).failedDep) (hc : jb'.code = (s.jobs x).code)
    (hm : jb'.marker = (s.jobs x).marker) (hi : jb'.ident = (s.jobs x).ident)
    (h0 : jb'.pc ≠ .none) (h0' : jb'.pc ≠ .created) (h1 : jb'.pc = .lockEnter → (s.jobs x).state = .ready)
    (hne : (s.jobs x).state ≠ .error) (hnd : (s.jobs x).state ≠ .done)
    (k1 : inStart jb'.pc → inStart (s.jobs x).pc ∨ (s.jobs x).state = .ready)
    (k3 : jb'.pc = .lockExitRun ∨ jb'.pc = .codeWait → 0 < (s.jobs x).launches)
    (k5 : ¬ pcFinal jb'.pc)
    (hreg : Registered s.jobs s.jobDeps x) :
    Inv2 (s.put x jb' [] ths) ∧ FTr s.jobs (s.put x jb' [] ths).jobs := by
  have ho : orgAt jb' = orgAt (s.jobs x) := by funext i; simp only [orgAt, hd]
  have hcu : curAt jb' = curAt (s.jobs x) := by funext i; simp only [curAt, hd]
  have hst : FStep (s.jobs x) jb' :=
    ⟨fun e => absurd e hne, hi, hc, hm, by rw [hd], ho, fun i e => by rw [hcu]; exact e, fun _ => ⟨h0, h0'⟩⟩
  have hinv := (h.toInv.putPc x jb' ths hact hs hd hu hl h0 h1 (fun e => absurd e hnd)).1
  apply h.put x jb' [] ths hinv _ (fun _ => ⟨h0, h0'⟩) hst (hg1_same h.core.g x jb' hst hcu) (fun _ => hreg)
  · rw [hs]; constructor
    · rintro ⟨a, _⟩; exact absurd a hne
    · rintro ⟨a, _⟩; exact absurd a hne
  · rw [hs]; intro a; exact absurd a hne
  · intro j hj; simp at hj
  · show FLoc' _ _ _ _ _ _ _ _ _
    rw [hs, hd, hl, hf, hc, hm, ho, hcu]
    obtain ⟨f1, f2, f3, f4, f5, f6, f7, f9⟩ := h.core.g.floc x
    have hr := ready_okAt h.core.inv x
    constructor <;> grind

/-- `hgF` for `St.finish` (the state may be set to `X` at the same time, as in the `codeWait` segment). -/
theorem gF_finish {n jobs jd failed} (h : G n jobs jd failed) (x : Nat) (jb' : Job) (X : JS)
    (hs : jb'.state = X) (hi : jb'.ident = (jobs x).ident) (hp : jb'.pc = .doneHandler)
    (hfin : X = .done ∨ X = .error) (hold : (jobs x).state = .error → X = .error) :
    ∀ y, y ∈ (if X ≠ .done ∧ !failed.contains (jobs x).ident then failed ++ [(jobs x).ident] else failed) ↔
      ∃ j, (upd jobs x jb' j).ident = y ∧ (upd jobs x jb' j).state = .error ∧ pcFinal (upd jobs x jb' j).pc := by
  intro y
  constructor
  · intro hy
    have : y ∈ failed ∨ (y = (jobs x).ident ∧ X ≠ .done) := by
      split at hy
      · rename_i hc
        rcases List.mem_append.mp hy with hy | hy
        · exact Or.inl hy
        · simp at hy; exact Or.inr ⟨hy, hc.1⟩
      · exact Or.inl hy
    rcases this with hy | ⟨hy, hne⟩
    · obtain ⟨j, hj⟩ := (h.gF y).mp hy
      refine ⟨j, ?_⟩
      by_cases e : j = x
      · subst e; rw [upd_same, hs, hi, hp]; exact ⟨hj.1, hold hj.2.1, Or.inl rfl⟩
      · simp only [Sched.upd, e, if_false]; exact hj
    · refine ⟨x, ?_⟩
      rw [upd_same, hs, hi, hp]
      rcases hfin with e | e
      · exact absurd e hne
      · exact ⟨hy.symm, e, Or.inl rfl⟩
  · rintro ⟨j, hj⟩
    have hsub : ∀ z, z ∈ failed → z ∈ (if X ≠ .done ∧ !failed.contains (jobs x).ident then failed ++ [(jobs x).ident] else failed) := by
      intro z hz; split
      · exact List.mem_append_left _ hz
      · exact hz
    by_cases e : j = x
    · subst e; rw [upd_same, hs, hi] at hj
      obtain ⟨h1, h2, -⟩ := hj
      subst h1
      split
      · exact List.mem_append_right _ (by simp)
      · rename_i hc
        have : failed.contains (jobs j).ident = true := by
          have hne : X ≠ .done := by rw [h2]; simp
          simp only [hne, ne_eq, not_false_eq_true, true_and, Bool.not_eq_true', Bool.not_eq_false] at hc
          exact hc
        simpa using this
    · simp only [Sched.upd, e, if_false] at hj
      exact hsub y ((h.gF y).mpr ⟨j, hj⟩)

theorem Inv2.finish {s : St} (h : Inv2 s) (j : Nat) (hact : act (s.jobs j))
    (hfin : (s.jobs j).state = .done ∨ (s.jobs j).state = .error)
    (hreg : Registered s.jobs s.jobDeps j) :
    Inv2 (s.finish j) ∧ FTr s.jobs (s.finish j).jobs := by
  have hinv := (h.toInv.finish j hact).1
  obtain ⟨v1, v2, v3, v4⟩ := finish_view s j
  have v0 := finish_jobs s j
  have vf : (s.finish j).failed = (if (s.jobs j).state ≠ .done ∧ !s.failed.contains (s.jobs j).ident then s.failed ++ [(s.jobs j).ident] else s.failed) := by
    unfold St.finish; simp only; split <;> rfl
  have hst : FStep (s.jobs j) { (s.jobs j) with pc := .doneHandler } :=
    ⟨id, rfl, rfl, rfl, rfl, rfl, fun _ => id, fun _ => ⟨by simp, by simp⟩⟩
  refine ⟨⟨⟨hinv, ?_⟩, ?_, ?_⟩, by rw [v0]; exact FTr.updJob hst⟩
  rotate_right
  · rw [v0, v2]; exact (GW.updJob h.gw j _ hst.to0).addNoWake (by simp)
  · rw [v0, v1, v3, vf]
    apply h.core.g.updJob' j _ _ _ (fun _ => by simp [started]) hst (hg1_same h.core.g j _ hst rfl) (fun _ => hreg)
      (gF_finish h.core.g j _ _ rfl rfl rfl hfin id)
    show FLoc' (s.jobs j).state .doneHandler (s.jobs j).deps.length (orgAt (s.jobs j)) (curAt (s.jobs j))
      (s.jobs j).launches (s.jobs j).failedDep (s.jobs j).code (s.jobs j).marker
    obtain ⟨f1, f2, f3, f4, f5, f6, f7, f9⟩ := h.core.g.floc j
    clear hinv v0 v1 v2 v3 v4 vf hst
    constructor <;> grind [inStart, pcFinal]
  · rw [v0, v2, v3]
    exact (GP.updJob h.gp j _ hst.to0 (fun _ hf => by obtain ⟨r, hr⟩ := hf; simp at hr)).mono
      (fun _ hm => List.mem_append_left _ hm)

theorem fin_iff (s : JS) : s.finished = true ↔ s = .done ∨ s = .error := by
  cases s <;> simp [JS.finished]

theorem Inv2.loopHead {s : St} (h : Inv2 s) (j : Nat) (hact : act (s.jobs j))
    (hreg : Registered s.jobs s.jobDeps j) :
    Inv2 (s.loopHead j) ∧ FTr s.jobs (s.loopHead j).jobs := by
  unfold St.loopHead
  simp only
  split
  · rename_i hf
    exact h.finish j hact ((fin_iff _).mp hf) hreg
  · rename_i hf
    have hne : (s.jobs j).state ≠ .error := fun e => hf ((fin_iff _).mpr (Or.inr e))
    have hnd : (s.jobs j).state ≠ .done := fun e => hf ((fin_iff _).mpr (Or.inl e))
    split
    · split
      · rename_i hr
        exact h.putPc j _ _ hact rfl rfl rfl rfl rfl rfl rfl rfl (by simp) (by simp) (fun _ => hr) hne hnd
          (fun _ => Or.inr hr) (by simp) (by simp [pcFinal, pcFin]) hreg
      · exact h.putPc j _ _ hact rfl rfl rfl rfl rfl rfl rfl rfl (by simp) (by simp) (by simp) hne hnd
          (by simp [inStart]) (by simp) (by simp [pcFinal, pcFin]) hreg
    · exact h.putPc j _ _ hact rfl rfl rfl rfl rfl rfl rfl rfl (by simp) (by simp) (by simp) hne hnd
        (by simp [inStart]) (by simp) (by simp [pcFinal, pcFin]) hreg

theorem Inv2.releaseAll (j : Nat) : ∀ (ds : List Nat) (s : St), Inv2 s →
    Inv2 (s.releaseAll j ds) ∧ FTr s.jobs (s.releaseAll j ds).jobs := by
  intro ds
  induction ds with
  | nil => intro s h; exact h.putSame j _ _ rfl rfl rfl rfl rfl rfl rfl rfl rfl rfl
  | cons d ds ih =>
    intro s h
    simp only [St.releaseAll]
    split
    · exact ih s h
    · rename_i t c _
      have h1 : Inv2 { s with avail := upd s.avail t (s.avail t + c),
                              ready := s.ready ++ (s.tokDeps t).map (fun (p : Nat × Nat) => Cb.notifyCheck p.1 p.2) } := by
        refine ⟨⟨?_, h.core.g⟩, h.gp.mono (fun _ hm => List.mem_append_left _ hm),
          h.gw.addNoWake (by intro j hj; obtain ⟨p, _, hp⟩ := List.mem_map.mp hj; simp at hp)⟩
        apply Inv'.addReady h.core.inv
        intro cb hcb
        obtain ⟨p, hp, rfl⟩ := List.mem_map.mp hcb
        exact ⟨h.core.inv.tdeps t p hp, trivial⟩
      exact ih _ h1

theorem Inv2.acquireAll (j : Nat) : ∀ (k d : Nat) (s : St), Inv2 s →
    Inv2 (s.acquireAll j k d).1 ∧ FTr s.jobs (s.acquireAll j k d).1.jobs := by
  intro k
  induction k with
  | zero => intro d s h; exact ⟨h, FTr.refl _⟩
  | succ k ih =>
    intro d s h
    simp only [St.acquireAll]
    split
    · obtain ⟨h1, t1⟩ := h.putSame j { (s.jobs j) with held := (s.jobs j).held ++ [d] } [] rfl rfl rfl rfl rfl rfl rfl rfl rfl rfl
      obtain ⟨h2, t2⟩ := ih (d + 1) _ h1
      exact ⟨h2, t1.trans t2⟩
    · rename_i t c _
      split
      · exact ⟨h, FTr.refl _⟩
      · obtain ⟨h1, t1⟩ := Inv2.putSame (s := { s with avail := upd s.avail t (s.avail t - c) }) h j
          { (s.jobs j) with held := (s.jobs j).held ++ [d] } [] rfl rfl rfl rfl rfl rfl rfl rfl rfl rfl
        obtain ⟨h2, t2⟩ := ih (d + 1) _ h1
        exact ⟨h2, t1.trans t2⟩

theorem check_jobDeps (fl : Flags) (s : St) (j d : Nat) : (s.check fl j d).jobDeps = s.jobDeps := rfl

theorem G.addJobDep {n jobs jd failed} (h : G n jobs jd failed) (o : Nat) (p : Nat × Nat)
    (hp : orgAt (jobs p.1) p.2 = .job o) : G n jobs (upd jd o (jd o ++ [p])) failed := by
  refine ⟨h.floc, h.g1, ?_, ?_, h.gF, h.gN, h.gS, h.gSl⟩
  · intro o' q hq
    unfold Sched.upd at hq; split at hq
    · rename_i e; subst e
      rcases List.mem_append.mp hq with hq | hq
      · exact h.g0 _ q hq
      · simp at hq; subst hq; exact hp
    · exact h.g0 o' q hq
  · intro j hs i hi o' ho
    have := h.gR j hs i hi o' ho
    unfold Sched.upd; split
    · rename_i e; subst e; exact List.mem_append_left _ this
    · exact this

theorem Inv2.registerDeps (fl : Flags) (hfl : fl.readyGuarded = true) (j : Nat) :
    ∀ (k d : Nat) (s : St), Inv2 s → act (s.jobs j) → d + k = (s.jobs j).deps.length →
      (∀ i, i < d → ∀ o, orgAt (s.jobs j) i = .job o → (j, i) ∈ s.jobDeps o) →
      Inv2 (St.registerDeps fl s j k d) ∧ FTr s.jobs (St.registerDeps fl s j k d).jobs ∧
      Registered (St.registerDeps fl s j k d).jobs (St.registerDeps fl s j k d).jobDeps j := by
  intro k
  induction k with
  | zero =>
    intro d s h _ hlen hpart
    show Inv2 s ∧ FTr s.jobs s.jobs ∧ Registered s.jobs s.jobDeps j
    exact ⟨h, FTr.refl _, fun i hi o ho => hpart i (by omega) o ho⟩
  | succ k ih =>
    intro d s h hact hlen hpart
    have hd : d < (s.jobs j).deps.length := by omega
    simp only [St.registerDeps]
    have key : ∀ s1 : St, Core s1 → GP s1.jobs (.check j d :: s1.ready) s1.jobDeps → GW s1.jobs s1.ready → s1.jobs = s.jobs →
        (∀ i, i < d + 1 → ∀ o, orgAt (s.jobs j) i = .job o → (j, i) ∈ s1.jobDeps o) →
        Inv2 (St.registerDeps fl (s1.check fl j d) j k (d + 1)) ∧
        FTr s.jobs (St.registerDeps fl (s1.check fl j d) j k (d + 1)).jobs ∧
        Registered (St.registerDeps fl (s1.check fl j d) j k (d + 1)).jobs
          (St.registerDeps fl (s1.check fl j d) j k (d + 1)).jobDeps j := by
      intro s1 h1 hP hW hj hpart1
      have hact1 : act (s1.jobs j) := by rw [hj]; exact hact
      have hd1 : d < (s1.jobs j).deps.length := by rw [hj]; exact hd
      obtain ⟨h2, t2⟩ := Inv2.check fl hfl h1 j d hP hW hact1 hd1
      have hact2 : act ((s1.check fl j d).jobs j) := (((h1.toInv.check fl hfl j d hact1 hd1).2) j).act hact1
      have hlen2 : d + 1 + k = ((s1.check fl j d).jobs j).deps.length := by
        rw [(t2 j).len, hj]; omega
      obtain ⟨h3, t3, r3⟩ := ih (d + 1) _ h2 hact2 hlen2 (by
        intro i hi o ho
        rw [check_jobDeps]
        rw [(t2 j).org, hj] at ho
        exact hpart1 i hi o ho)
      refine ⟨h3, ?_, r3⟩
      rw [← hj]; exact t2.trans t3
    split
    · rename_i o ho
      have ho' : orgAt (s.jobs j) d = .job o := ho
      apply key { s with jobDeps := upd s.jobDeps o (s.jobDeps o ++ [(j, d)]) }
      · exact ⟨Inv'.addJobDep h.toInv _ (j, d) ⟨hact, hd⟩, h.core.g.addJobDep o (j, d) ho'⟩
      · intro o' q hq he hf
        simp only [Sched.upd] at hq; split at hq
        · rename_i e; subst e
          rcases List.mem_append.mp hq with hq | hq
          · exact (h.gp _ q hq he hf).imp id (List.mem_cons_of_mem _)
          · simp at hq; subst hq; exact Or.inr List.mem_cons_self
        · exact (h.gp o' q hq he hf).imp id (List.mem_cons_of_mem _)
      · exact h.gw
      · rfl
      · intro i hi o' ho''
        by_cases e : i = d
        · subst e; rw [ho'] at ho''; injection ho'' with ho''; subst ho''
          simp [Sched.upd]
        · have := hpart i (by omega) o' ho''
          simp only [Sched.upd]; split
          · rename_i e'; subst e'; exact List.mem_append_left _ this
          · exact this
    · rename_i t c ho
      have ho' : orgAt (s.jobs j) d = .tok t c := ho
      apply key { s with tokDeps := upd s.tokDeps t (s.tokDeps t ++ [(j, d)]) }
      · exact ⟨Inv'.addTokDep h.toInv _ (j, d) ⟨hact, hd⟩, h.core.g⟩
      · exact h.gp.mono (fun _ hm => List.mem_cons_of_mem _ hm)
      · exact h.gw
      · rfl
      · intro i hi o' ho''
        by_cases e : i = d
        · subst e; rw [ho'] at ho''; simp at ho''
        · exact hpart i (by omega) o' ho''

theorem orgAt_eventSet (jb : Job) : orgAt (eventSet jb).1 = orgAt jb := by
  funext i; simp only [orgAt, eventSet_deps]
theorem curAt_eventSet (jb : Job) : curAt (eventSet jb).1 = curAt jb := by
  funext i; simp only [curAt, eventSet_deps]

theorem FLoc.eventSet {jb : Job} (h : FLoc jb) : FLoc (eventSet jb).1 := by
  unfold FLoc
  simp only [eventSet_state, eventSet_pc, eventSet_deps, eventSet_launches, eventSet_failedDep, eventSet_code,
    eventSet_marker, orgAt_eventSet, curAt_eventSet]
  exact h

theorem FStep.eventSet (jb : Job) : FStep jb (eventSet jb).1 :=
  ⟨fun e => by simpa using e, by simp, by simp, by simp, by simp, orgAt_eventSet jb,
   fun i e => by rw [curAt_eventSet]; exact e, fun e => by simpa using e⟩

/-- no dependency of a record inside `aio_start` (or launched before) is recorded as `fail`. -/
theorem nofail_of_f1 {s : St} (h : Inv2 s) (j : Nat) (hp : inStart (s.jobs j).pc ∨ 0 < (s.jobs j).launches) :
    ∀ i, i < (s.jobs j).deps.length → curAt (s.jobs j) i ≠ .fail := by
  intro i hi hf
  obtain ⟨o, ho, -⟩ := h.core.g.g1 j i hi hf
  have := (h.core.g.floc j).f1 hp i hi o ho
  rw [this] at hf; simp at hf

theorem finish_failed (s : St) (j : Nat) : (s.finish j).failed =
    (if (s.jobs j).state ≠ .done ∧ !s.failed.contains (s.jobs j).ident then s.failed ++ [(s.jobs j).ident] else s.failed) := by
  unfold St.finish; simp only; split <;> rfl

theorem Inv2.resume (fl : Flags) (hfl : fl.readyGuarded = true) {s : St} (h : Inv2 s) (j : Nat) :
    Inv2 (s.resume fl j) ∧ FTr s.jobs (s.resume fl j).jobs := by
  have hI := (h.toInv.resume fl hfl j).1
  revert hI
  simp only [St.resume]
  split
  · -- lockEnter
    rename_i hpc
    obtain ⟨-, k1, b1⟩ := h.toInv.acquireAll j (s.jobs j).deps.length 0 s
    obtain ⟨h1, t1⟩ := h.acquireAll j (s.jobs j).deps.length 0 s
    rcases hacq : s.acquireAll j (s.jobs j).deps.length 0 with ⟨s1, r⟩
    rw [hacq] at h1 t1 k1 b1
    simp only at h1 t1 k1 b1 ⊢
    have hpc1 : (s1.jobs j).pc = .lockEnter := (k1 j).pc.trans hpc
    have hact : act (s.jobs j) := by
      intro e; have := ((h.toInv.loc j).unsched e).1; rw [hpc] at this; simp at this
    have hact1 : act (s1.jobs j) := (k1 j).act hact
    cases r with
    | some d =>
      simp only
      intro _
      -- `abortReleases`: the locks already taken are given back before the check (both flag values)
      have hrel : Inv2 (if fl.abortReleases = true then s1.releaseAll j (s1.jobs j).held else s1) ∧
          FTr s1.jobs (if fl.abortReleases = true then s1.releaseAll j (s1.jobs j).held else s1).jobs ∧
          JKTr s1.jobs (if fl.abortReleases = true then s1.releaseAll j (s1.jobs j).held else s1).jobs := by
        split
        · exact ⟨(h1.releaseAll j _ s1).1, (h1.releaseAll j _ s1).2, (h1.toInv.releaseAll j _ s1).2⟩
        · exact ⟨h1, FTr.refl _, JKTr.refl _⟩
      obtain ⟨h1', t1', k1'⟩ := hrel
      generalize (if fl.abortReleases = true then s1.releaseAll j (s1.jobs j).held else s1) = s1' at h1' t1' k1' ⊢
      have hpc1' : (s1'.jobs j).pc = .lockEnter := (k1' j).pc.trans hpc1
      have hact1' : act (s1'.jobs j) := (k1' j).act hact1
      have hd : d < (s1'.jobs j).deps.length := by
        have := b1 d rfl; rw [(t1' j).len, (t1 j).len]; omega
      obtain ⟨-, k2⟩ := h1'.toInv.check fl hfl j d hact1' hd
      obtain ⟨h2, t2⟩ := Inv2.check fl hfl h1'.toCore j d (h1'.gp.mono (fun _ hm => List.mem_cons_of_mem _ hm)) h1'.gw hact1' hd
      have hpc2 : ((s1'.check fl j d).jobs j).pc = .lockEnter := (k2 j).pc.trans hpc1'
      have hact2 : act ((s1'.check fl j d).jobs j) := (k2 j).act hact1'
      have hnd : ((s1'.check fl j d).jobs j).state ≠ .done := by
        intro e; have := ((h2.toInv.loc j).done_pc e).1; exact this hpc2
      have hne : ((s1'.check fl j d).jobs j).state ≠ .error := by
        intro e; exact (h2.core.g.floc j).f2 e (Or.inl hpc2)
      obtain ⟨h3, t3⟩ := h2.putPc j { ((s1'.check fl j d).jobs j) with pc := .lockExitAbort } [(.lockExit, j)] hact2
        rfl rfl rfl rfl rfl rfl rfl rfl (by simp) (by simp) (by simp) hne hnd
        (fun _ => Or.inl (Or.inl hpc2)) (by simp) (by simp [pcFinal, pcFin])
        (h2.core.g.gR j (by rw [hpc2]; simp [started]))
      exact ⟨h3, ((t1.trans t1').trans t2).trans t3⟩
    | none =>
      simp only
      intro hI
      have hnd : (s1.jobs j).state ≠ .done := by
        intro e; have := ((h1.toInv.loc j).done_pc e).1; exact this hpc1
      have hne : (s1.jobs j).state ≠ .error := by
        intro e; exact (h1.core.g.floc j).f2 e (Or.inl hpc1)
      have hst : FStep (s1.jobs j) { (s1.jobs j) with launches := (s1.jobs j).launches + 1, state := .running, pc := .lockExitRun } :=
        ⟨fun e => absurd e hne, rfl, rfl, rfl, rfl, rfl, fun _ => id, fun _ => by simp [started]⟩
      obtain ⟨h3, t3⟩ := h1.put j _ [] [(.lockExit, j)] hI (by
          show FLoc' .running .lockExitRun (s1.jobs j).deps.length (orgAt (s1.jobs j)) (curAt (s1.jobs j))
            ((s1.jobs j).launches + 1) (s1.jobs j).failedDep (s1.jobs j).code (s1.jobs j).marker
          obtain ⟨f1, f2, f3, f4, f5, f6, f7, f9⟩ := h1.core.g.floc j
          have hno := nofail_of_f1 h1 j (Or.inl (Or.inl hpc1))
          have hin : inStart (s1.jobs j).pc := Or.inl hpc1
          constructor <;> grind [pcFinal, pcFin])
        (fun _ => by simp [started]) hst (hg1_same h1.core.g j _ hst rfl)
        (fun _ => h1.core.g.gR j (by rw [hpc1]; simp [started]))
        (by simp [hne, pcFinal, pcFin, hpc1]) (by simp) (by simp)
      exact ⟨h3, t1.trans t3⟩
  · -- lockExitAbort
    rename_i hpc
    intro _
    have hact : act (s.jobs j) := by
      intro e; have := ((h.toInv.loc j).unsched e).1; rw [hpc] at this; simp at this
    obtain ⟨-, k1⟩ := h.toInv.releaseAll j (s.jobs j).held s
    obtain ⟨h1, t1⟩ := h.releaseAll j (s.jobs j).held s
    generalize s.releaseAll j (s.jobs j).held = s1 at h1 t1 k1 ⊢
    have hpc1 : (s1.jobs j).pc = .lockExitAbort := (k1 j).pc.trans hpc
    have hact1 : act (s1.jobs j) := (k1 j).act hact
    have hnd : (s1.jobs j).state ≠ .done := by
      intro e; have := ((h1.toInv.loc j).done_pc e).2.1; exact this hpc1
    have hne : (s1.jobs j).state ≠ .error := by
      intro e; exact (h1.core.g.floc j).f2 e (Or.inr (Or.inl hpc1))
    have key : ∀ (jb' : Job) (w : Bool), JLoc jb' → JKeep (s1.jobs j) jb' → jb'.deps = (s1.jobs j).deps →
        FLoc jb' → FStep (s1.jobs j) jb' → jb'.state ≠ .error →
        Inv2 ((s1.put j jb' (if w then [.wake j] else [])).loopHead j) ∧
        FTr s.jobs ((s1.put j jb' (if w then [.wake j] else [])).loopHead j).jobs := by
      intro jb' w hloc hk hdeps hfl' hst hne'
      have hI2 : Inv (s1.put j jb' (if w then [.wake j] else [])) := by
        apply h1.toInv.putAct j jb' _ _ hact1 hloc hk.step hdeps
        intro cb hcb
        split at hcb
        · simp at hcb; subst hcb
          refine ⟨?_, trivial⟩
          show act (upd s1.jobs j jb' j)
          rw [upd_same]; exact hk.act hact1
        · simp at hcb
      have hcu : curAt jb' = curAt (s1.jobs j) := by funext i; simp only [curAt, hdeps]
      obtain ⟨h2, t2⟩ := h1.put j jb' _ [] hI2 hfl' (fun _ => by rw [hk.pc, hpc1]; simp [started]) hst
        (hg1_same h1.core.g j jb' hst hcu)
        (fun _ => h1.core.g.gR j (by rw [hpc1]; simp [started]))
        (by simp [hne, hne']) (fun e => absurd e hne')
        (by
          intro j' hj'
          split at hj'
          · simp at hj'; subst hj'; rw [upd_same, hk.pc, hpc1]; simp [started]
          · simp at hj')
      have hpc2 : ((s1.put j jb' (if w then [.wake j] else [])).jobs j).pc = .lockExitAbort := by
        show (upd s1.jobs j jb' j).pc = _
        rw [upd_same, hk.pc]; exact hpc1
      obtain ⟨h3, t3⟩ := h2.loopHead j (by show act (upd s1.jobs j jb' j); rw [upd_same]; exact hk.act hact1)
        (h2.core.g.gR j (by rw [hpc2]; simp [started]))
      exact ⟨h3, (t1.trans t2).trans t3⟩
    have hflw : ∀ X : JS, X ≠ .error → X ≠ .done → FLoc { (s1.jobs j) with state := X } := by
      intro X hX hX'
      show FLoc' X (s1.jobs j).pc (s1.jobs j).deps.length (orgAt (s1.jobs j)) (curAt (s1.jobs j))
        (s1.jobs j).launches (s1.jobs j).failedDep (s1.jobs j).code (s1.jobs j).marker
      obtain ⟨f1, f2, f3, f4, f5, f6, f7, f9⟩ := h1.core.g.floc j
      have hno := nofail_of_f1 h1 j (Or.inl (Or.inr (Or.inl hpc1)))
      constructor <;> grind [pcFinal, pcFin]
    have hstw : ∀ X : JS, FStep (s1.jobs j) { (s1.jobs j) with state := X } := fun X =>
      ⟨fun e => absurd e hne, rfl, rfl, rfl, rfl, rfl, fun _ => id, id⟩
    split
    · rename_i hc
      have := key (eventSet { (s1.jobs j) with state := .ready }).1 (eventSet { (s1.jobs j) with state := .ready }).2
      apply this
      · apply JLoc.eventSet
        exact (h1.toInv.loc j).setState .ready hact1 (by simp) (fun _ => Or.inr hc.2) (by simp)
      · exact JKeep.trans (show JKeep (s1.jobs j) { (s1.jobs j) with state := .ready } from
          ⟨fun e => absurd e hnd, rfl, fun _ => by simp, rfl, rfl⟩) (JKeep.eventSet _)
      · simp
      · exact (hflw .ready (by simp) (by simp)).eventSet
      · exact (hstw .ready).trans (FStep.eventSet _)
      · simp
    · apply key { (s1.jobs j) with state := .waiting } false
      · exact (h1.toInv.loc j).setState .waiting hact1 (by simp) (by simp) (by simp)
      · exact ⟨fun e => absurd e hnd, rfl, fun _ => by simp, rfl, rfl⟩
      · rfl
      · exact hflw .waiting (by simp) (by simp)
      · exact hstw .waiting
      · simp
  · -- lockExitRun
    rename_i hpc
    intro _
    have hact : act (s.jobs j) := by
      intro e; have := ((h.toInv.loc j).unsched e).1; rw [hpc] at this; simp at this
    have hnd : (s.jobs j).state ≠ .done := by
      intro e; have := ((h.toInv.loc j).done_pc e).2.2.1; exact this hpc
    have hne : (s.jobs j).state ≠ .error := by
      intro e; exact (h.core.g.floc j).f2 e (Or.inr (Or.inr (Or.inl hpc)))
    exact h.putPc j _ _ hact rfl rfl rfl rfl rfl rfl rfl rfl (by simp) (by simp) (by simp) hne hnd
      (fun _ => Or.inl (Or.inr (Or.inr (Or.inl hpc)))) (fun _ => (h.core.g.floc j).f3 (Or.inl hpc))
      (by simp [pcFinal, pcFin]) (h.core.g.gR j (by rw [hpc]; simp [started]))
  · -- codeWait
    rename_i hpc
    have hact : act (s.jobs j) := by
      intro e; have := ((h.toInv.loc j).unsched e).1; rw [hpc] at this; simp at this
    obtain ⟨-, k1⟩ := h.toInv.releaseAll j (s.jobs j).held s
    obtain ⟨h1, t1⟩ := h.releaseAll j (s.jobs j).held s
    generalize s.releaseAll j (s.jobs j).held = s1 at h1 t1 k1 ⊢
    have hpc1 : (s1.jobs j).pc = .codeWait := (k1 j).pc.trans hpc
    have hact1 : act (s1.jobs j) := (k1 j).act hact
    have hne : (s1.jobs j).state ≠ .error := by
      intro e; exact (h1.core.g.floc j).f2 e (Or.inr (Or.inr (Or.inr hpc1)))
    generalize hX : (if (s1.jobs j).code = 0 then JS.done else JS.error) = X
    have hX' : (X = .done ∧ (s1.jobs j).code = 0) ∨ (X = .error ∧ (s1.jobs j).code ≠ 0) := by
      rw [← hX]; split <;> simp_all
    intro hI
    obtain ⟨v1, v2, v3, v4⟩ := finish_view (s1.put j { (s1.jobs j) with state := X }) j
    have v0 := finish_jobs (s1.put j { (s1.jobs j) with state := X }) j
    have e0 : (s1.put j { (s1.jobs j) with state := X }).jobs j = { (s1.jobs j) with state := X } := upd_same _ _ _
    have v0' : ((s1.put j { (s1.jobs j) with state := X }).finish j).jobs =
        upd s1.jobs j { (s1.jobs j) with state := X, pc := .doneHandler } := by
      rw [v0, e0]; exact upd_upd _ _ _ _
    have vf : ((s1.put j { (s1.jobs j) with state := X }).finish j).failed =
        (if X ≠ .done ∧ !s1.failed.contains (s1.jobs j).ident then s1.failed ++ [(s1.jobs j).ident] else s1.failed) := by
      have := finish_failed (s1.put j { (s1.jobs j) with state := X }) j
      rw [e0] at this; exact this
    have hst : FStep (s1.jobs j) { (s1.jobs j) with state := X, pc := .doneHandler } :=
      ⟨fun e => absurd e hne, rfl, rfl, rfl, rfl, rfl, fun _ => id, fun _ => by simp [started]⟩
    refine ⟨⟨⟨hI, ?_⟩, ?_, ?_⟩, by rw [v0']; exact t1.trans (FTr.updJob hst)⟩
    rotate_right
    · rw [v0', v2]; exact ((GW.updJob h1.gw j _ hst.to0).addNoWake (cbs := []) (by simp)).addNoWake (by simp)
    · rw [v0', v1, v3, vf]
      apply h1.core.g.updJob' j _ _ _ (fun _ => by simp [started]) hst (hg1_same h1.core.g j _ hst rfl)
        (fun _ => h1.core.g.gR j (by rw [hpc1]; simp [started]))
        (gF_finish h1.core.g j _ X rfl rfl rfl (hX'.imp (·.1) (·.1)) (fun e => absurd e hne))
      show FLoc' X .doneHandler (s1.jobs j).deps.length (orgAt (s1.jobs j)) (curAt (s1.jobs j))
        (s1.jobs j).launches (s1.jobs j).failedDep (s1.jobs j).code (s1.jobs j).marker
      obtain ⟨f1, f2, f3, f4, f5, f6, f7, f9⟩ := h1.core.g.floc j
      have hno := nofail_of_f1 h1 j (Or.inl (Or.inr (Or.inr (Or.inr hpc1))))
      have hl := f3 (Or.inr hpc1)
      clear hI v0 v0' v1 v2 v3 v4 vf hst e0
      constructor <;> grind [inStart, pcFinal, pcFin]
    · rw [v0', v2, v3]
      exact (GP.updJob h1.gp j _ hst.to0 (fun _ hf => by obtain ⟨r, hr⟩ := hf; simp at hr)).mono
        (fun _ hm => List.mem_append_left _ (List.mem_append_left _ hm))
  · -- doneHandler
    rename_i hpc
    have hact : act (s.jobs j) := by
      intro e; have := ((h.toInv.loc j).unsched e).1; rw [hpc] at this; simp at this
    have hst : FStep (s.jobs j) { (s.jobs j) with pc := .finished (s.jobs j).state } :=
      ⟨id, rfl, rfl, rfl, rfl, rfl, fun _ => id, fun _ => by simp [started]⟩
    have hG : G s.n (upd s.jobs j { (s.jobs j) with pc := .finished (s.jobs j).state }) s.jobDeps s.failed := by
      apply h.core.g.updJob j _ _ (fun _ => by simp [started]) hst (hg1_same h.core.g j _ hst rfl)
        (fun _ => h.core.g.gR j (by rw [hpc]; simp [started]))
      · simp [pcFinal, pcFin, hpc]
      · show FLoc' (s.jobs j).state (.finished (s.jobs j).state) (s.jobs j).deps.length (orgAt (s.jobs j)) (curAt (s.jobs j))
          (s.jobs j).launches (s.jobs j).failedDep (s.jobs j).code (s.jobs j).marker
        obtain ⟨f1, f2, f3, f4, f5, f6, f7, f9⟩ := h.core.g.floc j
        have h5 := f5 (Or.inl hpc)
        constructor <;> grind [inStart, pcFinal, pcFin]
    have hGP : ∀ ready', (∀ cb ∈ s.ready, cb ∈ ready') →
        (∀ p ∈ s.jobDeps j, Cb.check p.1 p.2 ∈ ready') →
        GP (upd s.jobs j { (s.jobs j) with pc := .finished (s.jobs j).state }) ready' s.jobDeps := by
      intro ready' hsub hchk o p hp he hf
      by_cases e : o = j
      · subst e; exact Or.inr (hchk p hp)
      · simp only [Sched.upd, e, if_false] at he hf
        rcases h.gp o p hp he hf with hc | hc
        · exact Or.inl ((FTr.updJob hst p.1).fail _ hc)
        · exact Or.inr (hsub _ hc)
    have hchk : ∀ (l : List Cb), ∀ p ∈ s.jobDeps j,
        Cb.check p.1 p.2 ∈ l ++ (s.jobDeps j).map (fun (p : Nat × Nat) => Cb.check p.1 p.2) :=
      fun l p hp => List.mem_append_right _ (List.mem_map.mpr ⟨p, hp, rfl⟩)
    have hGW : ∀ ready', (∀ j', Cb.wake j' ∈ ready' → Cb.wake j' ∈ s.ready) →
        GW (upd s.jobs j { (s.jobs j) with pc := .finished (s.jobs j).state }) ready' :=
      fun ready' hsub j' hj' => GW.updJob h.gw j _ hst.to0 j' (hsub j' hj')
    split
    · intro hI
      exact ⟨⟨⟨hI, hG⟩, hGP _ (fun _ hm => List.mem_append_left _ (List.mem_append_left _ (List.mem_append_left _ hm)))
        (fun p hp => List.mem_append_left _ (hchk _ p hp)), hGW _ (by intro j' hj'; simp [St.put] at hj'; exact hj')⟩, FTr.updJob hst⟩
    · intro hI
      exact ⟨⟨⟨hI, hG⟩, hGP _ (fun _ hm => List.mem_append_left _ (List.mem_append_left _ hm))
        (fun p hp => List.mem_append_left _ (hchk _ p hp)), hGW _ (by intro j' hj'; simp [St.put] at hj'; exact hj')⟩, FTr.updJob hst⟩
  · intro _; exact ⟨h, FTr.refl _⟩

theorem check_jobs (fl : Flags) (s : St) (j d : Nat) : (s.check fl j d).jobs =
    upd s.jobs j (depChanged fl (s.jobs j) d (s.status ((s.jobs j).deps.getD d default).origin)).1 := rfl

theorem registerDeps_jobs_ne (fl : Flags) (j : Nat) : ∀ (k d : Nat) (s : St) (i : Nat), i ≠ j →
    (St.registerDeps fl s j k d).jobs i = s.jobs i := by
  intro k
  induction k with
  | zero => intro d s i _; rfl
  | succ k ih =>
    intro d s i hi
    simp only [St.registerDeps]
    rw [ih _ _ i hi, check_jobs]
    simp only [Sched.upd, hi, if_false]
    split <;> rfl

theorem Inv2.startJob (fl : Flags) (hfl : fl.readyGuarded = true) {s : St} (h : Inv2 s) (j : Nat)
    (hcb : CbOK s.jobs (.start j)) (hns : Cb.start j ∉ s.ready) :
    Inv2 (s.startJob fl j) ∧ FTr s.jobs (s.startJob fl j).jobs := by
  obtain ⟨hst, hpc⟩ := hcb
  obtain ⟨-, hwait, hl0, hu0⟩ := (h.toInv.loc j).unsched hst
  have hwaitAt : ∀ i, i < (s.jobs j).deps.length → curAt (s.jobs j) i = .wait := by
    intro i hi; obtain ⟨d, hd, -, e2⟩ := mem_of_lt hi; rw [← e2]; exact hwait d hd
  have hfd : (s.jobs j).failedDep = false := by
    cases hf : (s.jobs j).failedDep
    · rfl
    · obtain ⟨i, hi, -, hc⟩ := (h.core.g.floc j).f7 hf
      rw [hwaitAt i hi] at hc; simp at hc
  have hnopoint : ∀ i k, k < (s.jobs i).deps.length → orgAt (s.jobs i) k = .job j → curAt (s.jobs i) k ≠ .fail := by
    intro i k hk ho hc
    obtain ⟨o, ho', he⟩ := h.core.g.g1 i k hk hc
    rw [ho] at ho'; injection ho' with ho'; subst ho'
    rw [hst] at he; simp at he
  -- the state after the initialisation (both branches), as one `put` over `s`
  have stage : ∀ (jbA : Job), jbA.pc = .created → jbA.deps = (s.jobs j).deps → jbA.launches = (s.jobs j).launches →
      jbA.failedDep = (s.jobs j).failedDep → jbA.code = (s.jobs j).code → jbA.marker = (s.jobs j).marker →
      jbA.ident = (s.jobs j).ident → jbA.sleeping = false →
      jbA.state ≠ .unscheduled → jbA.state ≠ .done → jbA.state ≠ .error → JLoc jbA →
      Inv2 ((s.put j { (s.jobs j) with state := .waiting, event := false, sleeping := false }).put j jbA) ∧
      FTr s.jobs ((s.put j { (s.jobs j) with state := .waiting, event := false, sleeping := false }).put j jbA).jobs := by
    intro jbA e1 e2 e3 e4 e5 e6 e7 e8 n1 n2 n3 hloc
    have hk : JKeep (s.jobs j) jbA :=
      ⟨fun e => by rw [hst] at e; simp at e, by rw [e2], fun _ => n1, e1.trans hpc.symm, e3⟩
    have hI : Inv (s.put j jbA) :=
      h.toInv.put j jbA [] [] hloc hk.step (fun hm => absurd hm hns) (hK_same h.toInv j jbA hk.step.base e2) (by simp)
    have ho : orgAt jbA = orgAt (s.jobs j) := by funext i; simp only [orgAt, e2]
    have hcu : curAt jbA = curAt (s.jobs j) := by funext i; simp only [curAt, e2]
    have hfs : FStep (s.jobs j) jbA :=
      ⟨fun e => by rw [hst] at e; simp at e, e7, e5, e6, by rw [e2], ho, fun i e => by rw [hcu]; exact e,
       fun e => by rw [hpc] at e; simp [started] at e⟩
    obtain ⟨hA, tA⟩ := h.put j jbA [] [] hI (by
        show FLoc' _ _ _ _ _ _ _ _ _
        rw [e1, e2, e3, e4, e5, e6, ho, hcu, hl0, hfd]
        constructor
        · simp [inStart]
        · simp [inStart]
        · simp
        · intro e; exact absurd e n3
        · simp [pcFinal, pcFin]
        · rintro ⟨i, hi, hc⟩; rw [hwaitAt i hi] at hc; simp at hc
        · simp
        · intro e; exact absurd e n2)
      (fun e => by rw [e8] at e; simp at e)
      hfs (hg1_same h.core.g j jbA hfs hcu) (fun e => by rw [e1] at e; simp [started] at e)
      (by simp [n3, hst]) (fun e => absurd e n3) (by simp)
    have hj : ((s.put j { (s.jobs j) with state := .waiting, event := false, sleeping := false }).put j jbA).jobs =
        upd s.jobs j jbA := upd_upd _ _ _ _
    refine ⟨?_, ?_⟩
    · unfold Inv2; rw [hj]
      simpa [Inv2, St.put] using hA
    · rw [hj]; exact FTr.updJob hfs
  -- marker and loop head
  have tail : ∀ s1 : St, Inv2 s1 → FTr s.jobs s1.jobs → act (s1.jobs j) → (s1.jobs j).pc = .created →
      Registered s1.jobs s1.jobDeps j → (∀ i, i ≠ j → s1.jobs i = s.jobs i) →
      Inv2 ((if (s1.jobs j).marker then s1.put j { (s1.jobs j) with state := .done } else s1).loopHead j) ∧
      FTr s.jobs ((if (s1.jobs j).marker then s1.put j { (s1.jobs j) with state := .done } else s1).loopHead j).jobs := by
    intro s1 h1 t1 hact1 hpc1 hreg1 hothers
    split
    · rename_i hm
      have hk : JKeep (s1.jobs j) { (s1.jobs j) with state := .done } :=
        ⟨fun _ => rfl, rfl, fun _ => by simp, rfl, rfl⟩
      have hI2 : Inv (s1.put j { (s1.jobs j) with state := .done }) := by
        apply h1.toInv.putAct j _ [] [] hact1 _ hk.step rfl (by simp)
        exact (h1.toInv.loc j).setState .done hact1 (by simp) (by simp) (fun _ => by rw [hpc1]; simp)
      have hf0 : FStep0 (s1.jobs j) { (s1.jobs j) with state := .done } :=
        ⟨rfl, rfl, rfl, rfl, rfl, fun _ => id, id⟩
      have hG : G s1.n (upd s1.jobs j { (s1.jobs j) with state := .done }) s1.jobDeps s1.failed := by
        apply h1.core.g.updJob0 j { (s1.jobs j) with state := .done } s1.failed _ (fun e => h1.core.g.gSl j e) hf0
        · intro _; right
          intro i k hi hk ho
          rw [hothers i hi] at hk ho ⊢
          exact hnopoint i k hk ho
        · intro i hi hc
          obtain ⟨o, ho, he⟩ := h1.core.g.g1 j i hi hc
          refine ⟨o, ho, ?_⟩
          have hne : o ≠ j := by intro e; subst e; exact h1.core.g.gS _ i hi ho
          simp only [Sched.upd, hne, if_false]; exact he
        · intro _; exact hreg1
        · exact gF_of_hF h1.core.g j { (s1.jobs j) with state := .done } rfl (by simp [pcFinal, pcFin, hpc1])
        · show FLoc' .done (s1.jobs j).pc (s1.jobs j).deps.length (orgAt (s1.jobs j)) (curAt (s1.jobs j))
            (s1.jobs j).launches (s1.jobs j).failedDep (s1.jobs j).code (s1.jobs j).marker
          obtain ⟨f1, f2, f3, f4, f5, f6, f7, f9⟩ := h1.core.g.floc j
          constructor <;> grind [inStart, pcFinal, pcFin]
      have h2 : Inv2 (s1.put j { (s1.jobs j) with state := .done }) :=
        ⟨⟨hI2, hG⟩, (GP.updJob h1.gp j _ hf0 (by simp)).mono (fun _ hm => List.mem_append_left _ hm),
          (GW.updJob h1.gw j _ hf0).addNoWake (by simp)⟩
      obtain ⟨h3, t3⟩ := h2.loopHead j (by show act (upd s1.jobs j _ j); rw [upd_same]; simp [act])
        (by
          intro i hi o ho
          have : (upd s1.jobs j { (s1.jobs j) with state := .done } j) = { (s1.jobs j) with state := .done } := upd_same _ _ _
          simp only [St.put, this] at hi ho ⊢
          exact hreg1 i hi o ho)
      refine ⟨h3, ?_⟩
      intro i
      by_cases e : i = j
      · subst e
        have c1 : FStep0 (s.jobs i) (s1.jobs i) := (t1 i).to0
        have c2 : FStep0 (s1.jobs i) ((s1.put i { (s1.jobs i) with state := .done }).jobs i) := by
          show FStep0 _ (upd s1.jobs i _ i); rw [upd_same]; exact hf0
        exact ((c1.trans c2).trans (t3 i).to0).toStep (fun e => by rw [hst] at e; simp at e)
      · have c2 : (s1.put j { (s1.jobs j) with state := .done }).jobs i = s1.jobs i := by
          show upd s1.jobs j _ i = _; simp [Sched.upd, e]
        have := t3 i; rw [c2] at this
        exact (t1 i).trans this
    · obtain ⟨h3, t3⟩ := h1.loopHead j hact1 hreg1
      exact ⟨h3, t1.trans t3⟩
  unfold St.startJob
  simp only
  split
  · rename_i hemp
    have hnil : (s.jobs j).deps = [] := by simpa using hemp
    obtain ⟨hA, tA⟩ := stage { (s.jobs j) with state := .ready, event := true, sleeping := false } hpc rfl rfl rfl rfl rfl rfl rfl
      (by simp) (by simp) (by simp) (by
        show JLoc' _ _ _ _ _
        constructor <;> simp [hpc, hnil, hu0, nok])
    apply tail _ hA tA (by simp [act, St.put, Sched.upd]) (by simp [St.put, Sched.upd, hpc])
    · intro i hi; simp [St.put, Sched.upd, hnil] at hi
    · intro i hi; simp [St.put, Sched.upd, hi]
  · obtain ⟨hA, tA⟩ := stage { (s.jobs j) with state := .waiting, event := false, sleeping := false, unsat := (s.jobs j).deps.length } hpc rfl rfl rfl rfl rfl rfl rfl
        (by simp) (by simp) (by simp) (by
        show JLoc' _ _ _ _ _
        constructor <;> simp [hpc, nok_all_wait hwait])
    have hactA : act (((s.put j { (s.jobs j) with state := .waiting, event := false, sleeping := false }).put j
        { (s.jobs j) with state := .waiting, event := false, sleeping := false, unsat := (s.jobs j).deps.length }).jobs j) := by
      simp [act, St.put, Sched.upd]
    obtain ⟨-, kB⟩ := Inv.registerDeps fl hfl j (s.jobs j).deps.length 0 _ hA.toInv hactA (by simp [St.put, Sched.upd])
    obtain ⟨hB, tB, rB⟩ := Inv2.registerDeps fl hfl j (s.jobs j).deps.length 0 _ hA hactA (by simp [St.put, Sched.upd])
      (fun i hi => absurd hi (Nat.not_lt_zero _))
    apply tail _ hB (tA.trans tB) ((kB j).act hactA) _ rB
    · intro i hi; rw [registerDeps_jobs_ne fl j _ _ _ i hi]; simp [St.put, Sched.upd, hi]
    · rw [(kB j).pc]; simp [St.put, Sched.upd, hpc]

theorem register_failed (fl : Flags) (s : St) (j : Nat) : (s.register fl j).failed = s.failed := by
  unfold St.register
  simp only
  split
  · split
    · split <;> rfl
    · rfl
  · rfl

theorem Inv2.of_view {s s' : St} (h : Inv2 s) (hn : s'.n = s.n) (hj : s'.jobs = s.jobs) (hr : s'.ready = s.ready)
    (hjd : s'.jobDeps = s.jobDeps) (htd : s'.tokDeps = s.tokDeps) (hf : s'.failed = s.failed) : Inv2 s' := by
  unfold Inv2; rw [hn, hj, hr, hjd, htd, hf]; exact h

/-- one callback; the `check`-queue hypothesis may count the callback being run. -/
theorem Inv2.runCb (fl : Flags) (hfl : fl.readyGuarded = true) {s : St} (hc : Core s) (hW : GW s.jobs s.ready)
    (cb : Cb) (hP : GP s.jobs (cb :: s.ready) s.jobDeps)
    (hcb : CbOK s.jobs cb) (hcw : ∀ j, cb = .wake j → started (s.jobs j).pc)
    (hns : ∀ j, cb = .start j → Cb.start j ∉ s.ready) :
    Inv2 (s.runCb fl cb) ∧ FTr s.jobs (s.runCb fl cb).jobs := by
  have hP' : ∀ (hne : ∀ j d, cb ≠ .check j d), GP s.jobs s.ready s.jobDeps := by
    intro hne o p hp he hf
    rcases hP o p hp he hf with h | h
    · exact Or.inl h
    · rcases List.mem_cons.mp h with h | h
      · exact absurd h.symm (hne _ _)
      · exact Or.inr h
  cases cb with
  | register j =>
    have h : Inv2 s := ⟨hc, hP' (by simp), hW⟩
    obtain ⟨v1, v2, v3, v4, v5⟩ := register_view fl s j
    simp only [St.runCb]
    exact ⟨h.of_view v1 v2 v3 v4 v5 (register_failed fl s j), by rw [v2]; exact FTr.refl _⟩
  | start j =>
    have h : Inv2 s := ⟨hc, hP' (by simp), hW⟩
    exact h.startJob fl hfl j hcb (hns j rfl)
  | wake j =>
    have h : Inv2 s := ⟨hc, hP' (by simp), hW⟩
    have hact : act (s.jobs j) := hcb
    have hstd := hcw j rfl
    simp only [St.runCb]
    split
    · rename_i hr
      exact h.putPc j _ _ hact rfl rfl rfl rfl rfl rfl rfl rfl (by simp) (by simp) (fun _ => hr)
        (by rw [hr]; simp) (by rw [hr]; simp) (fun _ => Or.inr hr) (by simp) (by simp [pcFinal, pcFin])
        (h.core.g.gR j hstd)
    · obtain ⟨-, k1⟩ := h.toInv.putSame j { (s.jobs j) with event := false } [] rfl rfl rfl rfl rfl
      obtain ⟨h1, t1⟩ := h.putSame j { (s.jobs j) with event := false } [] rfl rfl rfl rfl rfl rfl rfl rfl rfl rfl
      obtain ⟨h2, t2⟩ := h1.loopHead j ((k1 j).act hact)
        (h1.core.g.gR j (by show started (upd s.jobs j _ j).pc; rw [upd_same]; exact hstd))
      exact ⟨h2, t1.trans t2⟩
  | resume j =>
    have h : Inv2 s := ⟨hc, hP' (by simp), hW⟩
    exact h.resume fl hfl j
  | check j d => exact Inv2.check fl hfl hc j d hP hW hcb.1 hcb.2
  | notifyCheck j d =>
    have h : Inv2 s := ⟨hc, hP' (by simp), hW⟩
    have hck := Inv2.check fl hfl hc j d (h.gp.mono (fun _ hm => List.mem_cons_of_mem _ hm)) hW hcb.1 hcb.2
    simp only [St.runCb]
    split
    · split
      · exact hck
      · exact ⟨h, FTr.refl _⟩
    · exact hck
  | waiterRun =>
    have h : Inv2 s := ⟨hc, hP' (by simp), hW⟩
    simp only [St.runCb, St.waiterRun]
    split <;> exact ⟨h, FTr.refl _⟩

theorem Inv2.step (fl : Flags) (hfl : fl.readyGuarded = true) {s : St} (h : Inv2 s) :
    Inv2 (s.step fl) ∧ FTr s.jobs (s.step fl).jobs := by
  unfold St.step
  split
  · exact ⟨h, FTr.refl _⟩
  · rename_i cb rest hr
    have h' : Inv' s.n s.jobs (cb :: rest) s.jobDeps s.tokDeps := by rw [← hr]; exact h.toInv
    obtain ⟨h1, hcb, hns⟩ := h'.tail
    have hgw : GW s.jobs (cb :: rest) := by rw [← hr]; exact h.gw
    have hgp : GP s.jobs (cb :: rest) s.jobDeps := by rw [← hr]; exact h.gp
    exact Inv2.runCb fl hfl (s := { s with ready := rest }) ⟨h1, h.core.g⟩
      (fun j hj => hgw j (List.mem_cons_of_mem _ hj)) cb hgp hcb
      (fun j e => hgw j (by rw [e]; exact List.mem_cons_self)) hns

theorem Inv2.steps (fl : Flags) (hfl : fl.readyGuarded = true) : ∀ (k : Nat) {s : St}, Inv2 s →
    Inv2 (St.steps fl s k) ∧ FTr s.jobs (St.steps fl s k).jobs := by
  intro k
  induction k with
  | zero => intro s h; exact ⟨h, FTr.refl _⟩
  | succ k ih =>
    intro s h
    obtain ⟨h1, t1⟩ := h.step fl hfl
    obtain ⟨h2, t2⟩ := ih h1
    exact ⟨h2, t1.trans t2⟩

/-! ### events -/

theorem G.submitFresh {n jobs ready jd td failed} (hi : Inv' n jobs ready jd td) (h : G n jobs jd failed) (fresh : Job)
    (hpc : fresh.pc = .none) (hst : fresh.state = .unscheduled) (hw : ∀ i, i < fresh.deps.length → curAt fresh i = .wait)
    (hl : fresh.launches = 0) (hfd : fresh.failedDep = false) (hsl : fresh.sleeping = false)
    (hself : ∀ i, i < fresh.deps.length → orgAt fresh i ≠ .job n) :
    G (n + 1) (upd jobs n fresh) jd failed := by
  have hpn : (jobs n).pc = .none := hi.fresh n (Nat.le_refl _)
  have hsn : (jobs n).state = .unscheduled := (hi.loc n).none_unsched hpn
  have hpair : ∀ o, ∀ p ∈ jd o, p.1 ≠ n := by
    intro o p hp e; exact (hi.jdeps o p hp).1 (e ▸ hsn)
  have hother : ∀ o, (upd jobs n fresh o).state = .error → (jobs o).state = .error ∧ o ≠ n := by
    intro o he
    by_cases e : o = n
    · subst e; rw [upd_same, hst] at he; simp at he
    · simp only [Sched.upd, e, if_false] at he; exact ⟨he, e⟩
  refine ⟨?_, ?_, ?_, ?_, ?_, ?_, ?_, ?_⟩
  · intro j; unfold Sched.upd; split
    · show FLoc' _ _ _ _ _ _ _ _ _
      rw [hpc, hst, hl, hfd]
      constructor
      · simp [inStart]
      · simp
      · simp
      · simp
      · simp [pcFinal, pcFin]
      · rintro ⟨i, hi', hc⟩; rw [hw i hi'] at hc; simp at hc
      · simp
      · simp
    · exact h.floc j
  · intro j i hi' hc
    by_cases e : j = n
    · subst e; rw [upd_same] at hi' hc; rw [hw i hi'] at hc; simp at hc
    · simp only [Sched.upd, e, if_false] at hi' hc
      obtain ⟨o, ho, he⟩ := h.g1 j i hi' hc
      have hne : o ≠ n := by intro e'; subst e'; rw [hsn] at he; simp at he
      exact ⟨o, by simp only [Sched.upd, e, if_false]; exact ho, by simp only [Sched.upd, hne, if_false]; exact he⟩
  · intro o p hp
    have := hpair o p hp
    simp only [Sched.upd, this, if_false]; exact h.g0 o p hp
  · intro j hs
    by_cases e : j = n
    · subst e; rw [upd_same, hpc] at hs; simp [started] at hs
    · simp only [Sched.upd, e, if_false] at hs
      intro i hi' o ho
      simp only [Sched.upd, e, if_false] at hi' ho
      exact h.gR j hs i hi' o ho
  · intro y
    rw [h.gF y]
    constructor
    · rintro ⟨j, hj⟩
      have hne : j ≠ n := by intro e; subst e; rw [hsn] at hj; simp at hj
      exact ⟨j, by simp only [Sched.upd, hne, if_false]; exact hj⟩
    · rintro ⟨j, hj⟩
      have := hother j hj.2.1
      simp only [Sched.upd, this.2, if_false] at hj
      exact ⟨j, hj⟩
  · intro j hj
    have : j ≠ n := by omega
    simp only [Sched.upd, this, if_false]; exact h.gN j (by omega)
  · intro j i hi'
    by_cases e : j = n
    · subst e; rw [upd_same] at hi' ⊢; exact hself i hi'
    · simp only [Sched.upd, e, if_false] at hi' ⊢; exact h.gS j i hi'
  · intro j hs
    by_cases e : j = n
    · subst e; rw [upd_same, hsl] at hs; simp at hs
    · simp only [Sched.upd, e, if_false] at hs ⊢; exact h.gSl j hs

/-- relation between the states before and after one event. -/
structure ETr (s s' : St) : Prop where
  step : ∀ j, j < s.n → FStep (s.jobs j) (s'.jobs j)
  n : s.n ≤ s'.n

theorem ETr.of_FTr {s s' : St} (h : FTr s.jobs s'.jobs) (hn : s'.n = s.n) : ETr s s' :=
  ⟨fun j _ => h j, by omega⟩

theorem ETr.trans {a b c : St} (h1 : ETr a b) (h2 : ETr b c) : ETr a c :=
  ⟨fun j hj => (h1.step j hj).trans (h2.step j (by have := h1.n; omega)), by have := h1.n; have := h2.n; omega⟩

theorem Inv2.addReady {s : St} (h : Inv2 s) (cbs : List Cb)
    (hcbs : ∀ cb ∈ cbs, CbOK s.jobs cb ∧ notStart cb) (hw : ∀ j, Cb.wake j ∉ cbs) :
    Inv2' s.n s.jobs (s.ready ++ cbs) s.jobDeps s.tokDeps s.failed :=
  ⟨⟨Inv'.addReady h.toInv cbs hcbs, h.core.g⟩, h.gp.mono (fun _ hm => List.mem_append_left _ hm), h.gw.addNoWake hw⟩

/-- a submission names, after resolution of duplicates (`eff`), earlier jobs only. -/
def EffOK (s : St) : Ev → Prop
  | .submit _ deps _ _ => ∀ d, Origin.job d ∈ deps → s.eff d < s.n
  | _ => True

theorem Inv2.submitPre {s : St} (h : Inv2 s) (ident : Nat) (deps : List Origin) (code : Nat) (marker : Bool)
    (hev : ∀ d, Origin.job d ∈ deps → s.eff d < s.n) :
    Inv2 (SchedDeps.submitPre s ident deps code marker) ∧ ∀ j, j ≠ s.n → (SchedDeps.submitPre s ident deps code marker).jobs j = s.jobs j := by
  have hI := h.toInv.submitPre ident deps code marker
  have hpn : (s.jobs s.n).pc = .none := h.toInv.fresh s.n (Nat.le_refl _)
  have hsn : (s.jobs s.n).state = .unscheduled := (h.toInv.loc s.n).none_unsched hpn
  generalize hfr : ({ ident := ident, deps := deps.map (fun o => match o with
      | .job d => { origin := .job (s.eff d) : Dep }
      | o => { origin := o }), code := code, marker := marker } : Job) = fresh
  have hmem : ∀ x ∈ fresh.deps, x.cur = .wait ∧ x.origin ≠ .job s.n := by
    subst hfr; intro x hx
    obtain ⟨o, ho, rfl⟩ := List.mem_map.mp hx
    cases o with
    | job d => exact ⟨rfl, by have := hev d ho; simp; omega⟩
    | tok t c => exact ⟨rfl, by simp⟩
  have hjobs : (SchedDeps.submitPre s ident deps code marker).jobs = upd s.jobs s.n fresh := by subst hfr; rfl
  have hG : G (s.n + 1) (upd s.jobs s.n fresh) s.jobDeps s.failed := by
    apply G.submitFresh h.toInv h.core.g fresh (by subst hfr; rfl) (by subst hfr; rfl) _ (by subst hfr; rfl)
      (by subst hfr; rfl) (by subst hfr; rfl)
    · intro i hi; obtain ⟨x, hx, e1, -⟩ := mem_of_lt hi; rw [← e1]; exact (hmem x hx).2
    · intro i hi; obtain ⟨x, hx, -, e2⟩ := mem_of_lt hi; rw [← e2]; exact (hmem x hx).1
  have hne : ∀ j, j ≠ s.n → upd s.jobs s.n fresh j = s.jobs j := by intro j hj; simp [Sched.upd, hj]
  refine ⟨⟨⟨hI, ?_⟩, ?_, ?_⟩, by rw [hjobs]; exact hne⟩
  · show G (s.n + 1) (SchedDeps.submitPre s ident deps code marker).jobs s.jobDeps s.failed
    rw [hjobs]; exact hG
  · show GP (SchedDeps.submitPre s ident deps code marker).jobs (s.ready ++ [.register s.n]) s.jobDeps
    rw [hjobs]
    intro o p hp he hf
    have hp1 : p.1 ≠ s.n := by intro e; exact (h.toInv.jdeps o p hp).1 (e ▸ hsn)
    have ho : o ≠ s.n := by
      intro e; subst e; rw [upd_same] at he
      have : fresh.state = .unscheduled := by subst hfr; rfl
      rw [this] at he; simp at he
    rw [hne o ho] at he hf; rw [hne p.1 hp1]
    exact (h.gp o p hp he hf).imp id (List.mem_append_left _)
  · show GW (SchedDeps.submitPre s ident deps code marker).jobs (s.ready ++ [.register s.n])
    rw [hjobs]
    intro j hj
    have hj' : Cb.wake j ∈ s.ready := by simpa using hj
    have := h.gw j hj'
    have hjn : j ≠ s.n := by intro e; subst e; rw [hpn] at this; simp [started] at this
    rw [hne j hjn]; exact this

theorem Inv2.apply (fl : Flags) (hfl : fl.readyGuarded = true) {s : St} (h : Inv2 s) (ev : Ev) (hev : EffOK s ev) :
    Inv2 (s.apply fl ev) ∧ ETr s (s.apply fl ev) := by
  cases ev with
  | step =>
    obtain ⟨h1, t1⟩ := h.step fl hfl
    exact ⟨h1, ETr.of_FTr t1 (step_n fl s)⟩
  | wait =>
    refine ⟨?_, ETr.of_FTr (FTr.refl _) rfl⟩
    apply h.addReady
    · intro cb hcb; simp at hcb; subst hcb; exact ⟨trivial, trivial⟩
    · simp
  | deliver k =>
    simp only [St.apply]
    split
    · refine ⟨?_, ETr.of_FTr (FTr.refl _) rfl⟩
      apply h.addReady
      · intro cb hcb; simp at hcb; subst hcb; exact ⟨trivial, trivial⟩
      · simp
    · exact ⟨h, ETr.of_FTr (FTr.refl _) rfl⟩
  | submit ident deps code marker =>
    have hI := (h.toInv.apply fl hfl (.submit ident deps code marker)).1
    rw [apply_submit_eq] at hI ⊢
    obtain ⟨h1, hne⟩ := h.submitPre ident deps code marker hev
    obtain ⟨h2, t2⟩ := Inv2.steps fl hfl (s.ready.length + 1) h1
    have hn2 := steps_n fl (s.ready.length + 1) (SchedDeps.submitPre s ident deps code marker)
    have hpre : ((SchedDeps.submitPre s ident deps code marker).jobs s.n).pc = .none := by
      simp [SchedDeps.submitPre, Sched.upd]
    obtain ⟨-, k2⟩ := Inv.steps fl hfl (s.ready.length + 1) (h.toInv.submitPre ident deps code marker)
    generalize St.steps fl (SchedDeps.submitPre s ident deps code marker) (s.ready.length + 1) = s2 at hI h2 t2 hn2 k2 ⊢
    have hn2' : s2.n = s.n + 1 := hn2
    have hp2 : (s2.jobs s.n).pc = .none := k2.pcnone s.n hpre
    have hs2 : (s2.jobs s.n).state = .unscheduled := (h2.toInv.loc s.n).none_unsched hp2
    have hetr : ∀ s' : St, FTr s2.jobs s'.jobs → s'.n = s2.n → ETr s s' := by
      intro s' t3 hn3
      refine ⟨fun j hj => ?_, by omega⟩
      have := (t2 j).trans (t3 j)
      rw [hne j (by omega)] at this; exact this
    simp only at hI ⊢
    revert hI
    split
    · intro _; exact ⟨h2, hetr _ (FTr.refl _) rfl⟩
    · intro hI
      have hst : FStep (s2.jobs s.n) { (s2.jobs s.n) with pc := .created } :=
        ⟨id, rfl, rfl, rfl, rfl, rfl, fun _ => id, fun e => by rw [hp2] at e; simp [started] at e⟩
      refine ⟨⟨⟨hI, ?_⟩, ?_, ?_⟩, hetr _ (FTr.updJob hst) rfl⟩
      · apply h2.core.g.updJob s.n _ _ _ hst (hg1_same h2.core.g s.n _ hst rfl)
        · intro e; simp [started] at e
        · simp [hs2]
        · show FLoc' (s2.jobs s.n).state .created (s2.jobs s.n).deps.length (orgAt (s2.jobs s.n)) (curAt (s2.jobs s.n))
            (s2.jobs s.n).launches (s2.jobs s.n).failedDep (s2.jobs s.n).code (s2.jobs s.n).marker
          obtain ⟨f1, f2, f3, f4, f5, f6, f7, f9⟩ := h2.core.g.floc s.n
          have hl0 := ((h2.toInv.loc s.n).unsched hs2).2.2.1
          rw [hp2] at f1 f2 f3 f5
          constructor <;> grind [inStart, pcFinal, pcFin]
        · intro e
          have := h2.core.g.gSl s.n e
          rw [hp2] at this; simp [started] at this
      · exact (GP.updJob h2.gp s.n _ hst.to0 (by simp [hs2])).mono (fun _ hm => List.mem_append_left _ hm)
      · exact (GW.updJob h2.gw s.n _ hst.to0).addNoWake (by simp)

/-! ### duplicate resolution: `eff` maps earlier submissions to earlier jobs -/

/-- nothing about `eff`, the registry and the queued registrations changes. -/
structure QFrame (s s' : St) : Prop where
  eff : s'.eff = s.eff
  registry : s'.registry = s.registry
  regResult : s'.regResult = s.regResult
  n : s'.n = s.n
  ready : ∀ j, Cb.register j ∈ s'.ready → Cb.register j ∈ s.ready
  failed : ∀ x ∈ s.failed, x ∈ s'.failed
  waiter : s'.waiter = s.waiter ∨ (s.waiter = .sleeping ∧ s'.waiter = .notified)

theorem QFrame.refl (s : St) : QFrame s s := ⟨rfl, rfl, rfl, rfl, fun _ h => h, fun _ h => h, Or.inl rfl⟩
theorem QFrame.trans {a b c : St} (h1 : QFrame a b) (h2 : QFrame b c) : QFrame a c :=
  ⟨h2.eff.trans h1.eff, h2.registry.trans h1.registry, h2.regResult.trans h1.regResult, h2.n.trans h1.n,
   fun j h => h1.ready j (h2.ready j h), fun x h => h2.failed x (h1.failed x h), by
     rcases h1.waiter with e1 | ⟨e1, e1'⟩ <;> rcases h2.waiter with e2 | ⟨e2, e2'⟩
     · exact Or.inl (e2.trans e1)
     · exact Or.inr ⟨by rw [← e1]; exact e2, e2'⟩
     · exact Or.inr ⟨e1, e2.trans e1'⟩
     · rw [e1'] at e2; simp at e2⟩

theorem QFrame.put (s : St) (j : Nat) (jb : Job) (cbs : List Cb) (ths : List (TK × Nat))
    (hcbs : ∀ j', Cb.register j' ∉ cbs) : QFrame s (s.put j jb cbs ths) :=
  ⟨rfl, rfl, rfl, rfl, fun j' h => by
    rcases List.mem_append.mp h with h | h
    · exact h
    · exact absurd h (hcbs j'), fun _ h => h, Or.inl rfl⟩

theorem QFrame.check (fl : Flags) (s : St) (j d : Nat) : QFrame s (s.check fl j d) := by
  simp only [St.check]
  apply QFrame.put
  intro j' h; split at h <;> simp at h

theorem QFrame.finish (s : St) (j : Nat) : QFrame s (s.finish j) := by
  unfold St.finish; simp only
  split
  · refine QFrame.trans ?_ (QFrame.put { s with failed := s.failed ++ [(s.jobs j).ident] } j _ [] _ (by simp))
    exact ⟨rfl, rfl, rfl, rfl, fun _ h => h, fun _ h => List.mem_append_left _ h, Or.inl rfl⟩
  · exact QFrame.put s j _ [] _ (by simp)

theorem QFrame.loopHead (s : St) (j : Nat) : QFrame s (s.loopHead j) := by
  unfold St.loopHead; simp only
  split
  · exact QFrame.finish s j
  · split
    · split <;> exact QFrame.put s j _ [] _ (by simp)
    · exact QFrame.put s j _ [] _ (by simp)

theorem QFrame.registerDeps (fl : Flags) (j : Nat) : ∀ (k d : Nat) (s : St), QFrame s (St.registerDeps fl s j k d) := by
  intro k
  induction k with
  | zero => intro d s; exact QFrame.refl s
  | succ k ih =>
    intro d s
    simp only [St.registerDeps]
    split
    · refine QFrame.trans ?_ ((QFrame.check fl _ j d).trans (ih _ _))
      exact ⟨rfl, rfl, rfl, rfl, fun _ h => h, fun _ h => h, Or.inl rfl⟩
    · refine QFrame.trans ?_ ((QFrame.check fl _ j d).trans (ih _ _))
      exact ⟨rfl, rfl, rfl, rfl, fun _ h => h, fun _ h => h, Or.inl rfl⟩

theorem QFrame.startJob (fl : Flags) (s : St) (j : Nat) : QFrame s (s.startJob fl j) := by
  unfold St.startJob; simp only
  have h0 := QFrame.put s j { (s.jobs j) with state := .waiting, event := false, sleeping := false } [] [] (by simp)
  have tail : ∀ s1, QFrame s s1 →
      QFrame s ((if (s1.jobs j).marker then s1.put j { (s1.jobs j) with state := .done } else s1).loopHead j) := by
    intro s1 h1
    split
    · exact (h1.trans (QFrame.put s1 j _ [] [] (by simp))).trans (QFrame.loopHead _ j)
    · exact h1.trans (QFrame.loopHead _ j)
  split
  · exact tail _ (h0.trans (QFrame.put _ j _ [] [] (by simp)))
  · exact tail _ ((h0.trans (QFrame.put _ j _ [] [] (by simp))).trans (QFrame.registerDeps fl j _ _ _))

theorem QFrame.releaseAll (j : Nat) : ∀ (ds : List Nat) (s : St), QFrame s (s.releaseAll j ds) := by
  intro ds
  induction ds with
  | nil => intro s; exact QFrame.put s j _ [] [] (by simp)
  | cons d ds ih =>
    intro s
    simp only [St.releaseAll]
    split
    · exact ih s
    · rename_i t c _
      refine QFrame.trans ?_ (ih _)
      refine ⟨rfl, rfl, rfl, rfl, ?_, fun _ h => h, Or.inl rfl⟩
      intro j' h
      rcases List.mem_append.mp h with h | h
      · exact h
      · obtain ⟨p, _, hp⟩ := List.mem_map.mp h; simp at hp

theorem QFrame.acquireAll (j : Nat) : ∀ (k d : Nat) (s : St), QFrame s (s.acquireAll j k d).1 := by
  intro k
  induction k with
  | zero => intro d s; exact QFrame.refl s
  | succ k ih =>
    intro d s
    simp only [St.acquireAll]
    split
    · exact (QFrame.put s j _ [] [] (by simp)).trans (ih _ _)
    · split
      · exact QFrame.refl s
      · rename_i t c _ _
        refine QFrame.trans ?_ ((QFrame.put { s with avail := upd s.avail t (s.avail t - c) } j _ [] [] (by simp)).trans (ih _ _))
        exact ⟨rfl, rfl, rfl, rfl, fun _ h => h, fun _ h => h, Or.inl rfl⟩

theorem QFrame.resume (fl : Flags) (s : St) (j : Nat) : QFrame s (s.resume fl j) := by
  simp only [St.resume]
  split
  · have h1 := QFrame.acquireAll j (s.jobs j).deps.length 0 s
    rcases hacq : s.acquireAll j (s.jobs j).deps.length 0 with ⟨s1, r⟩
    rw [hacq] at h1
    cases r with
    | some d =>
      simp only
      have hrel : QFrame s1 (if fl.abortReleases = true then s1.releaseAll j (s1.jobs j).held else s1) := by
        split
        · exact QFrame.releaseAll j _ s1
        · exact QFrame.refl s1
      exact ((h1.trans hrel).trans (QFrame.check fl _ j d)).trans (QFrame.put _ j _ [] _ (by simp))
    | none => exact h1.trans (QFrame.put _ j _ [] _ (by simp))
  · refine ((QFrame.releaseAll j _ s).trans (QFrame.put _ j _ _ [] ?_)).trans (QFrame.loopHead _ j)
    intro j' h; split at h <;> simp at h
  · exact QFrame.put s j _ [] _ (by simp)
  · exact ((QFrame.releaseAll j _ s).trans (QFrame.put _ j _ [] [] (by simp))).trans (QFrame.finish _ j)
  · split
    · rename_i hw
      refine QFrame.trans ?_ (QFrame.put _ j _ [] [] (by simp))
      refine ⟨rfl, rfl, rfl, rfl, ?_, fun _ h => h, Or.inr ⟨hw, rfl⟩⟩
      intro j' h; simp at h; exact h
    · refine QFrame.trans ?_ (QFrame.put _ j _ [] [] (by simp))
      refine ⟨rfl, rfl, rfl, rfl, ?_, fun _ h => h, Or.inl rfl⟩
      intro j' h; simp at h; exact h
  · exact QFrame.refl s

structure Q (s : St) : Prop where
  q1 : ∀ d, d < s.n → s.eff d < s.n
  q1b : ∀ d, s.n ≤ d → s.eff d = d
  q2 : ∀ p ∈ s.registry, p.2 < s.n
  q3 : ∀ o, s.regResult = some (some o) → o < s.n
  q4 : ∀ j, Cb.register j ∈ s.ready → j < s.n

theorem Q.frame {s s' : St} (h : Q s) (f : QFrame s s') : Q s' :=
  ⟨by rw [f.eff, f.n]; exact h.q1, by rw [f.eff, f.n]; exact h.q1b, by rw [f.registry, f.n]; exact h.q2,
   by rw [f.regResult, f.n]; exact h.q3, by rw [f.n]; exact fun j hj => h.q4 j (f.ready j hj)⟩

theorem lookup_mem {k b : Nat} : ∀ {l : List (Nat × Nat)}, lookup k l = some b → (k, b) ∈ l := by
  intro l
  induction l with
  | nil => intro h; simp [lookup] at h
  | cons p l ih =>
    intro h
    obtain ⟨a, c⟩ := p
    simp only [lookup] at h
    split at h
    · rename_i e; subst e; injection h with h; subst h; exact List.mem_cons_self
    · exact List.mem_cons_of_mem _ (ih h)

theorem Q.register (fl : Flags) {s : St} (h : Q s) (j : Nat) (hj : j < s.n) : Q (s.register fl j) := by
  unfold St.register
  simp only
  split
  · rename_i o ho
    have hon : o < s.n := h.q2 _ (lookup_mem ho)
    split
    · split
      · exact ⟨h.q1, h.q1b, fun p hp => by
          rcases List.mem_cons.mp hp with hp | hp
          · subst hp; exact hj
          · exact h.q2 p hp, by simp, h.q4⟩
      · exact ⟨h.q1, h.q1b, h.q2, by simp, h.q4⟩
    · exact ⟨h.q1, h.q1b, h.q2, fun o' e => by simp at e; subst e; exact hon, h.q4⟩
  · exact ⟨h.q1, h.q1b, fun p hp => by
      rcases List.mem_cons.mp hp with hp | hp
      · subst hp; exact hj
      · exact h.q2 p hp, by simp, h.q4⟩

theorem Q.step (fl : Flags) {s : St} (h : Q s) : Q (s.step fl) := by
  unfold St.step
  split
  · exact h
  · rename_i cb rest hr
    have h0 : Q { s with ready := rest } :=
      ⟨h.q1, h.q1b, h.q2, h.q3, fun j hj => h.q4 j (by rw [hr]; exact List.mem_cons_of_mem _ hj)⟩
    cases cb with
    | register j => exact h0.register fl j (h.q4 j (by rw [hr]; exact List.mem_cons_self))
    | start j => exact h0.frame (QFrame.startJob fl _ j)
    | wake j =>
      simp only [St.runCb]
      split
      · exact h0.frame (QFrame.put _ j _ [] _ (by simp))
      · exact h0.frame ((QFrame.put _ j _ [] [] (by simp)).trans (QFrame.loopHead _ j))
    | resume j => exact h0.frame (QFrame.resume fl _ j)
    | check j d => exact h0.frame (QFrame.check fl _ j d)
    | notifyCheck j d =>
      simp only [St.runCb]
      split
      · split
        · exact h0.frame (QFrame.check fl _ j d)
        · exact h0
      · exact h0.frame (QFrame.check fl _ j d)
    | waiterRun =>
      simp only [St.runCb, St.waiterRun]
      split <;> exact ⟨h0.q1, h0.q1b, h0.q2, h0.q3, h0.q4⟩

theorem Q.steps (fl : Flags) : ∀ (k : Nat) {s : St}, Q s → Q (St.steps fl s k) := by
  intro k
  induction k with
  | zero => intro s h; exact h
  | succ k ih => intro s h; exact ih (h.step fl)

theorem Q.apply (fl : Flags) {s : St} (h : Q s) (ev : Ev) : Q (s.apply fl ev) := by
  cases ev with
  | step => exact h.step fl
  | wait => exact ⟨h.q1, h.q1b, h.q2, h.q3, fun j hj => h.q4 j (by simpa [St.apply] using hj)⟩
  | deliver k =>
    simp only [St.apply]
    split
    · exact ⟨h.q1, h.q1b, h.q2, h.q3, fun j hj => h.q4 j (by simpa using hj)⟩
    · exact h
  | submit ident deps code marker =>
    rw [apply_submit_eq]
    have h1 : Q (SchedDeps.submitPre s ident deps code marker) := by
      refine ⟨?_, ?_, ?_, ?_, ?_⟩
      · intro d hd
        show s.eff d < s.n + 1
        by_cases e : d < s.n
        · have := h.q1 d e; omega
        · have hd' : d < s.n + 1 := hd
          have := h.q1b d (by omega); omega
      · intro d hd; exact h.q1b d (by have : s.n + 1 ≤ d := hd; omega)
      · intro p hp; have := h.q2 p hp; show p.2 < s.n + 1; omega
      · intro o e; simp [SchedDeps.submitPre] at e
      · intro j hj
        show j < s.n + 1
        have : Cb.register j ∈ s.ready ++ [.register s.n] := hj
        rcases List.mem_append.mp this with hj | hj
        · have := h.q4 j hj; omega
        · simp at hj; omega
    have h2 := h1.steps fl (s.ready.length + 1)
    have hn2 := steps_n fl (s.ready.length + 1) (SchedDeps.submitPre s ident deps code marker)
    generalize St.steps fl (SchedDeps.submitPre s ident deps code marker) (s.ready.length + 1) = s2 at h2 hn2 ⊢
    have hn2' : s2.n = s.n + 1 := hn2
    have hq : ∀ o, o < s2.n → Q { s2 with eff := upd s2.eff s.n o } := by
      intro o ho
      refine ⟨?_, ?_, h2.q2, h2.q3, h2.q4⟩
      · intro d hd
        show upd s2.eff s.n o d < s2.n
        unfold Sched.upd; split
        · exact ho
        · exact h2.q1 d hd
      · intro d hd
        show upd s2.eff s.n o d = d
        have hd' : s2.n ≤ d := hd
        have : d ≠ s.n := by omega
        simp only [Sched.upd, this, if_false]; exact h2.q1b d hd
    simp only
    split
    · rename_i o ho
      exact hq o (h2.q3 o ho)
    · exact (hq s.n (by omega)).frame (QFrame.put _ s.n _ _ [] (by simp))

/-! ### the waiter of `experiment.wait()` -/

theorem register_waiter (fl : Flags) (s : St) (j : Nat) : (s.register fl j).waiter = s.waiter := by
  unfold St.register
  simp only
  split
  · split
    · split <;> rfl
    · rfl
  · rfl

/-- what one callback does to the waiter and to `failed`: either it is not `waiterRun` (the waiter is
    unchanged or goes from `sleeping` to `notified`, `failed` grows), or it is `waiterRun`. -/
theorem step_waiter (fl : Flags) (s : St) :
    ((∀ x ∈ s.failed, x ∈ (s.step fl).failed) ∧
      ((s.step fl).waiter = s.waiter ∨ (s.waiter = .sleeping ∧ (s.step fl).waiter = .notified))) ∨
    ((s.step fl).failed = s.failed ∧
      (s.step fl).waiter = (if s.unfinished = 0 then (if s.failed.isEmpty then .returned else .raised) else .sleeping)) := by
  unfold St.step
  split
  · exact Or.inl ⟨fun _ h => h, Or.inl rfl⟩
  · rename_i cb rest hr
    have fr : ∀ s', QFrame { s with ready := rest } s' →
        (∀ x ∈ s.failed, x ∈ s'.failed) ∧ (s'.waiter = s.waiter ∨ (s.waiter = .sleeping ∧ s'.waiter = .notified)) :=
      fun s' f => ⟨f.failed, f.waiter⟩
    cases cb with
    | register j => exact Or.inl ⟨by simp only [St.runCb, register_failed]; exact fun _ h => h,
        Or.inl (by simp only [St.runCb, register_waiter])⟩
    | start j => exact Or.inl (fr _ (QFrame.startJob fl _ j))
    | wake j =>
      simp only [St.runCb]
      split
      · exact Or.inl (fr _ (QFrame.put _ j _ [] _ (by simp)))
      · exact Or.inl (fr _ ((QFrame.put _ j _ [] [] (by simp)).trans (QFrame.loopHead _ j)))
    | resume j => exact Or.inl (fr _ (QFrame.resume fl _ j))
    | check j d => exact Or.inl (fr _ (QFrame.check fl _ j d))
    | notifyCheck j d =>
      simp only [St.runCb]
      split
      · split
        · exact Or.inl (fr _ (QFrame.check fl _ j d))
        · exact Or.inl ⟨fun _ h => h, Or.inl rfl⟩
      · exact Or.inl (fr _ (QFrame.check fl _ j d))
    | waiterRun =>
      right
      simp only [St.runCb, St.waiterRun]
      split <;> simp_all

/-- a raised waiter has a reason. -/
def WInv (s : St) : Prop := s.waiter = .raised → s.failed ≠ []

theorem WInv.step (fl : Flags) {s : St} (h : WInv s) : WInv (s.step fl) := by
  intro hr
  rcases step_waiter fl s with ⟨hf, hw⟩ | ⟨hf, hw⟩
  · rcases hw with hw | ⟨_, hw⟩
    · rw [hw] at hr
      have := h hr
      obtain ⟨x, hx⟩ := List.exists_mem_of_ne_nil _ this
      exact List.ne_nil_of_mem (hf x hx)
    · rw [hw] at hr; simp at hr
  · rw [hf]; rw [hw] at hr
    split at hr
    · split at hr
      · simp at hr
      · rename_i he; intro e; rw [e] at he; simp at he
    · simp at hr

theorem WInv.steps (fl : Flags) : ∀ (k : Nat) {s : St}, WInv s → WInv (St.steps fl s k) := by
  intro k
  induction k with
  | zero => intro s h; exact h
  | succ k ih => intro s h; exact ih (h.step fl)

theorem WInv.apply (fl : Flags) {s : St} (h : WInv s) (ev : Ev) : WInv (s.apply fl ev) := by
  cases ev with
  | step => exact h.step fl
  | wait => intro hr; simp [St.apply] at hr
  | deliver k =>
    simp only [St.apply]
    split
    · exact h
    · exact h
  | submit ident deps code marker =>
    rw [apply_submit_eq]
    have h1 : WInv (SchedDeps.submitPre s ident deps code marker) := h
    have h2 := h1.steps fl (s.ready.length + 1)
    generalize St.steps fl (SchedDeps.submitPre s ident deps code marker) (s.ready.length + 1) = s2 at h2 ⊢
    simp only
    split
    · exact h2
    · exact h2

/-! ### reachable states -/

/-- `s'` is reached from `s` by well-formed events (`SchedDeps.EvOK`). -/
inductive ReachesOK (fl : Flags) : St → St → Prop
  | refl (s : St) : ReachesOK fl s s
  | step {s s' : St} (ev : Ev) : ReachesOK fl s s' → EvOK s' ev → ReachesOK fl s (s'.apply fl ev)

theorem reaches_of_reachableOK {fl : Flags} {totals : List Nat} {s : St} (h : ReachableOK fl totals s) :
    ReachesOK fl (St.init totals) s := by
  induction h with
  | init => exact .refl _
  | step ev _ hev ih => exact .step ev ih hev

theorem ReachesOK.reachable {fl : Flags} {totals : List Nat} {s s' : St} (h : ReachableOK fl totals s)
    (r : ReachesOK fl s s') : ReachableOK fl totals s' := by
  induction r with
  | refl => exact h
  | step ev _ hev ih => exact .step ev ih hev

/-- everything proved about a reachable state. -/
structure All (s : St) : Prop where
  inv2 : Inv2 s
  q : Q s
  w : WInv s

theorem EffOK_of_EvOK {s : St} (hq : Q s) {ev : Ev} (h : EvOK s ev) : EffOK s ev := by
  cases ev with
  | submit ident deps code marker =>
    intro d hd
    have := h (.job d) hd
    exact hq.q1 d this
  | _ => trivial

theorem All.init (totals : List Nat) : All (St.init totals) := by
  refine ⟨⟨⟨Inv.init totals, ?_⟩, ?_, ?_⟩, ?_, ?_⟩
  · refine ⟨fun j => ?_, ?_, ?_, ?_, ?_, fun _ _ => rfl, ?_, ?_⟩
    · show FLoc' _ _ _ _ _ _ _ _ _
      constructor <;> simp [St.init, inStart, pcFinal, pcFin]
    · intro j i hi; simp [St.init] at hi
    · intro o p hp; simp [St.init] at hp
    · intro j hs; simp [St.init, started] at hs
    · intro x; simp [St.init]
    · intro j i hi; simp [St.init] at hi
    · intro j hs; simp [St.init] at hs
  · intro o p hp; simp [St.init] at hp
  · intro j hj; simp [St.init] at hj
  · exact ⟨fun d hd => by simp [St.init] at hd, fun d _ => rfl, by simp [St.init], by simp [St.init], by simp [St.init]⟩
  · intro h; simp [St.init] at h

theorem All.apply (fl : Flags) (hfl : fl.readyGuarded = true) {s : St} (h : All s) (ev : Ev) (hev : EvOK s ev) :
    All (s.apply fl ev) ∧ ETr s (s.apply fl ev) := by
  obtain ⟨h1, t1⟩ := h.inv2.apply fl hfl ev (EffOK_of_EvOK h.q hev)
  exact ⟨⟨h1, h.q.apply fl ev, h.w.apply fl ev⟩, t1⟩

theorem All.reaches (fl : Flags) (hfl : fl.readyGuarded = true) {s s' : St} (h : All s) (r : ReachesOK fl s s') :
    All s' ∧ ETr s s' := by
  induction r with
  | refl => exact ⟨h, ⟨fun _ _ => FStep.refl _, Nat.le_refl _⟩⟩
  | step ev _ hev ih =>
    obtain ⟨h1, t1⟩ := ih
    obtain ⟨h2, t2⟩ := h1.apply fl hfl ev hev
    exact ⟨h2, t1.trans t2⟩

theorem all_of_reachableOK {fl : Flags} (hfl : fl.readyGuarded = true) {totals : List Nat} {s : St}
    (h : ReachableOK fl totals s) : All s :=
  ((All.init totals).reaches fl hfl (reaches_of_reachableOK h)).1

/-! ### consequences -/

theorem All.error_stable {fl : Flags} (hfl : fl.readyGuarded = true) {s s' : St} (h : All s) (r : ReachesOK fl s s')
    (o : Nat) (he : (s.jobs o).state = .error) : (s'.jobs o).state = .error := by
  obtain ⟨_, t⟩ := h.reaches fl hfl r
  have ho : o < s.n := by
    apply Nat.lt_of_not_le; intro hle
    have := (h.inv2.toInv.loc o).none_unsched (h.inv2.toInv.fresh o hle)
    rw [this] at he; simp at he
  exact (t.step o ho).err he

/-- a job with a failed job dependency has never been launched. -/
theorem All.failed_dep_not_launched {s : St} (h : All s) (j : Nat) (d : Dep) (hd : d ∈ (s.jobs j).deps) (o : Nat)
    (ho : d.origin = .job o) (he : (s.jobs o).state = .error) : (s.jobs j).launches = 0 := by
  obtain ⟨i, hi, e1, -⟩ := orgAt_mem hd
  apply Nat.eq_zero_of_not_pos; intro hl
  have hok := (h.inv2.core.g.floc j).f1 (Or.inr hl) i hi o (e1.trans ho)
  have := okdoneAt h.inv2.toInv j i o hi (e1.trans ho) hok
  rw [this] at he; simp at he

/-- a dependency edge persists. -/
theorem ETr.dep {s s' : St} (h : All s) (t : ETr s s') (j : Nat) (d : Dep) (hd : d ∈ (s.jobs j).deps) :
    j < s.n ∧ ∃ d' ∈ (s'.jobs j).deps, d'.origin = d.origin := by
  have hj : j < s.n := by
    apply Nat.lt_of_not_le; intro hle
    rw [h.inv2.core.g.gN j hle] at hd; simp at hd
  refine ⟨hj, ?_⟩
  obtain ⟨i, hi, e1, -⟩ := orgAt_mem hd
  have hs := t.step j hj
  obtain ⟨d', hd', e1', -⟩ := mem_of_lt (jb := s'.jobs j) (i := i) (by rw [hs.len]; exact hi)
  exact ⟨d', hd', by rw [e1', hs.org, e1]⟩

/-- `j` depends, through a chain of job dependencies none of whose intermediate jobs has a done marker,
    on a job that is in state `error`. -/
inductive Blocked (s : St) : Nat → Prop
  | direct {j : Nat} (d : Dep) (o : Nat) : d ∈ (s.jobs j).deps → d.origin = .job o → (s.jobs o).state = .error → Blocked s j
  | via {j : Nat} (d : Dep) (o : Nat) : d ∈ (s.jobs j).deps → d.origin = .job o → Blocked s o →
      (s.jobs o).marker = false → Blocked s j

theorem All.blocked_not_launched {s : St} (h : All s) {j : Nat} (b : Blocked s j) : (s.jobs j).launches = 0 := by
  induction b with
  | direct d o hd ho he => exact h.failed_dep_not_launched _ d hd o ho he
  | @via j d o hd ho _ hm ih =>
    obtain ⟨i, hi, e1, -⟩ := orgAt_mem hd
    apply Nat.eq_zero_of_not_pos; intro hl
    have hok := (h.inv2.core.g.floc j).f1 (Or.inr hl) i hi o (e1.trans ho)
    have hdone := okdoneAt h.inv2.toInv j i o hi (e1.trans ho) hok
    rcases (h.inv2.core.g.floc o).f9 hdone with hm' | ⟨hl', -⟩
    · rw [hm] at hm'; simp at hm'
    · omega

theorem Blocked.persist {fl : Flags} (hfl : fl.readyGuarded = true) {s s' : St} (h : All s) (r : ReachesOK fl s s')
    {j : Nat} (b : Blocked s j) : Blocked s' j := by
  obtain ⟨_, t⟩ := h.reaches fl hfl r
  induction b with
  | direct d o hd ho he =>
    obtain ⟨_, d', hd', e'⟩ := t.dep h _ d hd
    exact .direct d' o hd' (e'.trans ho) (h.error_stable hfl r o he)
  | via d o hd ho b' hm ih =>
    obtain ⟨_, d', hd', e'⟩ := t.dep h _ d hd
    have hon : o < s.n := by
      cases b' with
      | direct d2 _ hd2 _ _ => exact (t.dep h o d2 hd2).1
      | via d2 _ hd2 _ _ _ => exact (t.dep h o d2 hd2).1
    exact .via d' o hd' (e'.trans ho) ih (by rw [(t.step o hon).marker]; exact hm)

/-! ### concrete runs (for the `example`s of `Properties/C07.lean`) -/

/-- executable form of `EvOK`. -/
def evOKb (s : St) : Ev → Bool
  | .submit _ deps _ _ => deps.all (fun o => match o with
      | .job d => decide (d < s.n)
      | .tok t c => decide (t < s.ntok) && decide (0 < c))
  | _ => true

theorem evOK_of_b {s : St} {ev : Ev} (h : evOKb s ev = true) : EvOK s ev := by
  cases ev with
  | submit ident deps code marker =>
    intro o ho
    have := List.all_eq_true.mp h o ho
    cases o <;> simpa using this
  | _ => trivial

def allOKb (fl : Flags) : St → List Ev → Bool
  | _, [] => true
  | s, ev :: evs => evOKb s ev && allOKb fl (s.apply fl ev) evs

theorem reaches_of_allOKb (fl : Flags) : ∀ (evs : List Ev) (s0 s : St), ReachesOK fl s0 s → allOKb fl s evs = true →
    ReachesOK fl s0 (run fl s evs) := by
  intro evs
  induction evs with
  | nil => intro s0 s r _; exact r
  | cons ev evs ih =>
    intro s0 s r h
    simp only [allOKb, Bool.and_eq_true] at h
    exact ih s0 _ (.step ev r (evOK_of_b h.1)) h.2

theorem reachableOK_of_allOKb (fl : Flags) (totals : List Nat) (evs : List Ev)
    (h : allOKb fl (St.init totals) evs = true) : ReachableOK fl totals (run fl (St.init totals) evs) :=
  (reaches_of_allOKb fl evs _ _ (.refl _) h).reachable .init

/-- job 0 fails (exit code 1), job 1 depends on job 0, job 2 is independent; `wait` is called. -/
def failEvs : List Ev := [.submit 0 [] 1 false, .submit 1 [.job 0] 0 false, .submit 2 [] 0 false, .wait,
  .step, .step, .deliver 0, .step, .deliver 0, .step, .deliver 0, .step, .deliver 0, .step,
  .deliver 0, .step, .deliver 0, .step, .deliver 0, .step, .step, .step, .step, .deliver 0, .step,
  .step, .deliver 0, .step]
/-- the state before the last callback (`waiterRun`). -/
def failS : St := run flOK (St.init []) failEvs

end XpmVerif.SchedFail
