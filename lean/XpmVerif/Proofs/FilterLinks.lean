import XpmVerif.Model.CleanLinks
import XpmVerif.Proofs.FilterClean
/-! Helper lemmas for C19, symbolic links in the job store (`Model/CleanLinks.lean`): resolution stays inside the
    store, `process(clean=True)` on a store with links is the link-free command on the resolved view, membership
    in the reference set of `orphans`. -/
namespace XpmVerif.Filter

theorem findJob_mem {jobs : List Job} {k : Key} {j : Job} (h : findJob jobs k = some j) : j ∈ jobs ∧ j.key = k := by
  unfold findJob at h
  exact ⟨List.mem_of_find?_eq_some h, by simpa using List.find?_some h⟩

theorem findJob_of_mem {jobs : List Job} {j : Job} (h : j ∈ jobs) : ∃ j', findJob jobs j.key = some j' ∧ j'.key = j.key := by
  unfold findJob
  cases hf : jobs.find? (fun x => x.key == j.key) with
  | none => simp [List.find?_eq_none] at hf; exact absurd rfl (hf j h)
  | some j' => exact ⟨j', rfl, by simpa using List.find?_some hf⟩

theorem resolve_mem (LL : LLayout) (n : Nat) (k : Key) (j : Job) (h : resolve LL n k = some j) : j ∈ LL.jobs := by
  induction n generalizing k with
  | zero => exact (findJob_mem h).1
  | succ n ih =>
    unfold resolve at h
    cases hf : findJob LL.jobs k with
    | some j' => simp [hf] at h; subst h; exact (findJob_mem hf).1
    | none =>
      simp only [hf] at h
      cases hl : findLink LL.links k with
      | none => simp [hl] at h
      | some l => simp only [hl] at h; exact ih _ h

/-- a real directory resolves to (a directory with) its own name. -/
theorem resolve_job (LL : LLayout) (n : Nat) (j : Job) (h : j ∈ LL.jobs) :
    ∃ j', resolve LL n j.key = some j' ∧ j'.key = j.key := by
  obtain ⟨j', hf, hk⟩ := findJob_of_mem h
  cases n with
  | zero => exact ⟨j', hf, hk⟩
  | succ n => exact ⟨j', by simp [resolve, hf], hk⟩

theorem reached_any (LL : LLayout) (p : Job → Bool) (j : Job) (h : j ∈ LL.jobs) :
    LL.reached.any (fun j' => j' == j && p j') = p j := by
  rw [Bool.eq_iff_iff]
  simp only [List.any_eq_true, Bool.and_eq_true, beq_iff_eq]
  constructor
  · rintro ⟨j', _, rfl, hp⟩; exact hp
  · intro hp; exact ⟨j, by simp [LLayout.reached, h], rfl, hp⟩

theorem filter_congr_mem {α} (l : List α) (p q : α → Bool) (h : ∀ a ∈ l, p a = q a) : l.filter p = l.filter q :=
  List.filter_congr h

/-- `process(clean=True)` on a store with links = the link-free command on the resolved view. -/
theorem cleanImplL_view (q : Quirks) (rx : Rx) (sc : String → String) (LL : LLayout) (o : CleanOpts) :
    cleanImplL q rx sc LL o = (cleanImpl q rx sc LL.view o).map (fun L' => { LL with jobs := L'.jobs }) := by
  have key : ∀ flt, LL.jobs.filter (fun j => !(LL.reached.any (fun j' => j' == j && removesImpl q rx sc LL.view o flt j')))
      = LL.jobs.filter (fun j => !removesImpl q rx sc LL.view o flt j) := by
    intro flt
    apply List.filter_congr
    intro j hj
    rw [reached_any LL _ j hj]
  unfold cleanImplL cleanImpl
  cases o.filter with
  | none => simp only [key, Option.map_some]; rfl
  | some e =>
    simp only []
    cases compile q e with
    | none => rfl
    | some f => simp only [key, Option.map_some]; rfl


/-- `--experiment X` on a store with links: some link of the index of `X` resolves to the job's directory. -/
def inScopeL (LL : LLayout) (o : CleanOpts) (j : Job) : Prop :=
  match o.experiment with
  | none => True
  | some X => ∃ x ∈ LL.xps, x.name = X ∧ ∃ k ∈ x.index, ∃ j', LL.res k = some j' ∧ j'.key = j.key

theorem inScope_view (LL : LLayout) (o : CleanOpts) (j : Job) : inScope LL.view o j = true ↔ inScopeL LL o j := by
  unfold inScope inScopeL
  cases o.experiment with
  | none => simp
  | some X =>
    simp only [inXp, LLayout.view, List.any_map, List.any_eq_true, Function.comp, Bool.and_eq_true, beq_iff_eq,
      List.contains_iff_mem, List.mem_filterMap, Option.map_eq_some_iff]

theorem mem_cleanImplL (rx : Rx) (sc : String → String) (LL : LLayout) (o : CleanOpts) :
    ∃ LL', cleanImplL Quirks.none rx sc LL o = some LL' ∧ LL'.xps = LL.xps ∧ LL'.links = LL.links ∧
      ∀ j, j ∈ LL'.jobs ↔ j ∈ LL.jobs ∧ toRemove rx LL.view o j = false := by
  refine ⟨{ LL with jobs := (clean rx LL.view o).jobs }, ?_, rfl, rfl, fun j => ?_⟩
  · rw [cleanImplL_view, cleanImpl_none]; rfl
  · exact mem_clean rx LL.view o j

theorem mem_liveRefs (LL : LLayout) (ks : List Key) (key : Key) :
    key ∈ liveRefs LL ks ↔ ∃ k ∈ ks, ∃ j', LL.res k = some j' ∧ (k = key ∨ j'.key = key) := by
  unfold liveRefs
  simp only [List.mem_flatMap]
  constructor
  · rintro ⟨k, hk, hm⟩
    cases hr : LL.res k with
    | none => simp [hr] at hm
    | some j' =>
      simp only [hr, List.mem_cons, List.not_mem_nil, or_false] at hm
      exact ⟨k, hk, j', hr, by rcases hm with h | h <;> simp [h]⟩
  · rintro ⟨k, hk, j', hr, h⟩
    refine ⟨k, hk, ?_⟩
    simp only [hr, List.mem_cons, List.not_mem_nil, or_false]
    rcases h with h | h <;> simp [h]

/-- the reference set of `orphans` on a store with links. -/
def refL (LL : LLayout) (o : OrphOpts) (key : Key) : Prop :=
  ∃ x ∈ LL.xps, ∃ k, (k ∈ x.index ∨ (o.ignoreOld = false ∧ ∃ b, x.backup = some b ∧ k ∈ b)) ∧
    ∃ j', LL.res k = some j' ∧ (k = key ∨ j'.key = key)

theorem mem_xpjobsL (LL : LLayout) (o : OrphOpts) (key : Key) : key ∈ xpjobsL LL o ↔ refL LL o key := by
  unfold xpjobsL refL
  simp only [List.mem_append, List.mem_flatMap, mem_liveRefs]
  constructor
  · rintro (⟨x, hx, k, hk, h⟩ | h)
    · exact ⟨x, hx, k, Or.inl hk, h⟩
    · cases hi : o.ignoreOld with
      | true => simp [hi] at h
      | false =>
        simp only [hi, Bool.false_eq_true, if_false, List.mem_flatMap, mem_liveRefs] at h
        obtain ⟨x, hx, k, hk, h⟩ := h
        cases hb : x.backup with
        | none => simp [hb] at hk
        | some b => exact ⟨x, hx, k, Or.inr ⟨rfl, b, hb, by simpa [hb] using hk⟩, h⟩
  · rintro ⟨x, hx, k, hk | ⟨hi, b, hb, hk⟩, h⟩
    · exact Or.inl ⟨x, hx, k, hk, h⟩
    · refine Or.inr ?_
      simp only [hi, Bool.false_eq_true, if_false, List.mem_flatMap, mem_liveRefs]
      exact ⟨x, hx, k, by simpa [hb] using hk, h⟩

theorem mem_orphansImplL_jobs (LL : LLayout) (o : OrphOpts) (j : Job) :
    j ∈ (orphansImplL LL o).jobs ↔ j ∈ LL.jobs ∧ ¬ (o.clean = true ∧ ¬ refL LL o j.key) := by
  simp only [orphansImplL, List.mem_filter, ← mem_xpjobsL]
  by_cases h : j.key ∈ xpjobsL LL o <;> cases o.clean <;> simp [h]

theorem mem_orphansImplL_links (LL : LLayout) (o : OrphOpts) (l : Link) :
    l ∈ (orphansImplL LL o).links ↔
      l ∈ LL.links ∧ ¬ (o.clean = true ∧ (LL.res l.key).isSome = true ∧ ¬ refL LL o l.key) := by
  simp only [orphansImplL, List.mem_filter, ← mem_xpjobsL]
  by_cases h : l.key ∈ xpjobsL LL o <;> cases o.clean <;> cases (LL.res l.key).isSome <;> simp [h]

/-- a directory named by an index link is in the reference set. -/
theorem refL_of_indexed (LL : LLayout) (o : OrphOpts) (j : Job) (hj : j ∈ LL.jobs)
    (hi : ∃ x ∈ LL.xps, j.key ∈ x.index) : refL LL o j.key := by
  obtain ⟨x, hx, hk⟩ := hi
  obtain ⟨j', hr, _⟩ := resolve_job LL LL.links.length j hj
  exact ⟨x, hx, j.key, Or.inl hk, j', hr, Or.inl rfl⟩

theorem runCmdL_xps (rx : Rx) (sc : String → String) (LL : LLayout) (c : Cmd) :
    (runCmdL Quirks.none rx sc LL c).xps = LL.xps := by
  cases c with
  | clean o =>
    obtain ⟨LL', h, hx, _, _⟩ := mem_cleanImplL rx sc LL o
    simp [runCmdL, h, hx]
  | orphans o => rfl

theorem runCmdL_jobs (rx : Rx) (sc : String → String) (LL : LLayout) (c : Cmd) (j : Job)
    (h : j ∈ (runCmdL Quirks.none rx sc LL c).jobs) : j ∈ LL.jobs := by
  cases c with
  | clean o =>
    obtain ⟨LL', h', _, _, hm⟩ := mem_cleanImplL rx sc LL o
    simp only [runCmdL, h', Option.getD_some] at h
    exact ((hm j).1 h).1
  | orphans o => exact ((mem_orphansImplL_jobs LL o j).1 h).1

theorem runCmdL_links (rx : Rx) (sc : String → String) (LL : LLayout) (c : Cmd) (l : Link)
    (h : l ∈ (runCmdL Quirks.none rx sc LL c).links) : l ∈ LL.links := by
  cases c with
  | clean o =>
    obtain ⟨LL', h', _, hl, _⟩ := mem_cleanImplL rx sc LL o
    simp only [runCmdL, h', Option.getD_some] at h
    rw [hl] at h; exact h
  | orphans o => exact ((mem_orphansImplL_links LL o l).1 h).1

theorem runCmdL_keeps (rx : Rx) (sc : String → String) (LL : LLayout) (c : Cmd) (j : Job)
    (hj : j ∈ LL.jobs) (hf : isFinished (stateSpec j) = false) (hi : ∃ x ∈ LL.xps, j.key ∈ x.index) :
    j ∈ (runCmdL Quirks.none rx sc LL c).jobs := by
  cases c with
  | clean o =>
    obtain ⟨LL', h', _, _, hm⟩ := mem_cleanImplL rx sc LL o
    simp only [runCmdL, h', Option.getD_some]
    exact (hm j).2 ⟨hj, by simp [toRemove, hf]⟩
  | orphans o =>
    exact (mem_orphansImplL_jobs LL o j).2 ⟨hj, fun ⟨_, hn⟩ => hn (refL_of_indexed LL o j hj hi)⟩

end XpmVerif.Filter
