import XpmVerif.Properties.C18
/-! C18 — what a conjunction / a multiple *requests*: `_add` and `__mul__` keep the GPU requests as the
    stable sort (by memory) of the concatenation.  For every pair of requests, of any size: nothing is
    dropped, nothing invented (permutation), the list stays ascending (the invariant `match` relies on when
    it zips host GPUs with requested GPUs position by position), and sorting an ascending list changes nothing. -/
namespace XpmVerif.C18Sort
open XpmVerif.Specs

/-- ascending by memory. -/
def Asc (l : List Cuda) : Prop := l.Pairwise (fun x y => x.memory ≤ y.memory)

theorem insertGpu_perm (g : Cuda) (l : List Cuda) : (insertGpu g l).Perm (g :: l) := by
  induction l with
  | nil => simp [insertGpu]
  | cons x xs ih =>
    simp only [insertGpu]; split
    · exact List.Perm.refl _
    · exact (List.Perm.cons x ih).trans (List.Perm.swap g x xs)

theorem insertGpu_asc (g : Cuda) (l : List Cuda) (h : Asc l) : Asc (insertGpu g l) := by
  induction l with
  | nil => simp [insertGpu, Asc]
  | cons x xs ih =>
    simp only [insertGpu]; split
    · rename_i hlt
      simp only [Asc, List.pairwise_cons] at h ⊢
      refine ⟨?_, h⟩
      intro y hy
      rcases List.mem_cons.1 hy with rfl | hy
      · omega
      · have := h.1 y hy; omega
    · rename_i hge
      simp only [Asc, List.pairwise_cons] at h ⊢
      refine ⟨?_, ih h.2⟩
      intro y hy
      have hy' := (insertGpu_perm g xs).mem_iff.1 hy
      rcases List.mem_cons.1 hy' with rfl | hy'
      · omega
      · exact h.1 y hy'

theorem foldl_insert_perm (l acc : List Cuda) :
    (l.foldl (fun acc g => insertGpu g acc) acc).Perm (acc ++ l) := by
  induction l generalizing acc with
  | nil => simp
  | cons x xs ih =>
    simp only [List.foldl_cons]
    refine (ih _).trans ?_
    refine ((insertGpu_perm x acc).append_right xs).trans ?_
    simpa using (List.perm_middle (l₁ := acc) (l₂ := xs) (a := x)).symm

theorem foldl_insert_asc (l acc : List Cuda) (h : Asc acc) :
    Asc (l.foldl (fun acc g => insertGpu g acc) acc) := by
  induction l generalizing acc with
  | nil => simpa
  | cons x xs ih => simp only [List.foldl_cons]; exact ih _ (insertGpu_asc x acc h)

/-- the sort neither drops nor invents a request. -/
theorem sortGpus_perm (l : List Cuda) : (sortGpus l).Perm l := by
  simpa [sortGpus] using foldl_insert_perm l []

/-- the result is ascending by memory. -/
theorem sortGpus_asc (l : List Cuda) : Asc (sortGpus l) :=
  foldl_insert_asc l [] (by simp [Asc])

/-- inserting after an ascending prefix whose elements are all ≤ g appends. -/
theorem insertGpu_append (g : Cuda) (l : List Cuda) (h : ∀ x ∈ l, x.memory ≤ g.memory) :
    insertGpu g l = l ++ [g] := by
  induction l with
  | nil => simp [insertGpu]
  | cons x xs ih =>
    have hx := h x (by simp)
    simp only [insertGpu]
    rw [if_neg (by omega), ih (fun y hy => h y (by simp [hy]))]; simp

theorem foldl_insert_id (l acc : List Cuda) (h : Asc (acc ++ l)) :
    l.foldl (fun acc g => insertGpu g acc) acc = acc ++ l := by
  induction l generalizing acc with
  | nil => simp
  | cons x xs ih =>
    simp only [List.foldl_cons]
    have hx : ∀ y ∈ acc, y.memory ≤ x.memory := by
      intro y hy
      have := List.pairwise_append.1 h
      exact this.2.2 y hy x (by simp)
    rw [insertGpu_append x acc hx, ih _ (by simpa using h)]; simp

/-- **stability / idempotence**: an ascending list (with its ties in the order given) is left as it is. -/
theorem sortGpus_of_asc (l : List Cuda) (h : Asc l) : sortGpus l = l := by
  simpa [sortGpus] using foldl_insert_id l [] (by simpa using h)

theorem sortGpus_idem (l : List Cuda) : sortGpus (sortGpus l) = sortGpus l :=
  sortGpus_of_asc _ (sortGpus_asc l)

/-- **a conjunction requests exactly the GPUs of both terms** (as a multiset), for requests of any size. -/
theorem conjunction_gpus_exact (a b : Req) : (a.add b).gpus.Perm (a.gpus ++ b.gpus) := by
  simpa [Req.add] using sortGpus_perm (a.gpus ++ b.gpus)

/-- … and keeps them ascending, which is what the positional zip of `match` needs (`match_sound`). -/
theorem conjunction_gpus_asc (a b : Req) : Asc (a.add b).gpus := by
  simpa [Req.add] using sortGpus_asc (a.gpus ++ b.gpus)

/-- every GPU requested by either term is requested by the conjunction: none can be satisfied "for free". -/
theorem conjunction_keeps_each (a b : Req) (g : Cuda) (hg : g ∈ a.gpus ∨ g ∈ b.gpus) : g ∈ (a.add b).gpus := by
  rw [(conjunction_gpus_exact a b).mem_iff]; simpa using hg

/-- **`r * n` requests n copies of every GPU of `r`** (n ≥ 1), ascending. -/
theorem mul_gpus_exact (r : Req) (n : Nat) (hn : 1 ≤ n) (hr : Asc r.gpus) :
    (r.mul n).gpus.Perm (List.replicate n r.gpus).flatten ∧ Asc (r.mul n).gpus := by
  unfold Req.mul
  split
  · rename_i h1; subst h1; simpa using hr
  · refine ⟨?_, sortGpus_asc _⟩
    refine (sortGpus_perm _).trans ?_
    obtain ⟨k, rfl⟩ : ∃ k, n = k + 1 := ⟨n - 1, by omega⟩
    simp [List.replicate_succ]

/-- if a conjunction matches, the host's GPU at every position covers the request at that position of the
    merged ascending list — so the k largest requests of both terms together are covered by k distinct host GPUs. -/
theorem conjunction_match_positions (a b : Req) (h : Host) (s : Int) (hm : reqMatch (a.add b) h = some s) :
    ∃ l : List Cuda, l.Perm (a.gpus ++ b.gpus) ∧ Asc l ∧ l.length ≤ h.cuda.length ∧
      ∀ i (hi : i < l.length) (hj : i < h.cuda.length), (l[i]).memory ≤ (h.cuda[i]).memory := by
  obtain ⟨h1, h2, _⟩ := XpmVerif.C18.match_sound (a.add b) h s hm
  exact ⟨(a.add b).gpus, conjunction_gpus_exact a b, conjunction_gpus_asc a b, h1, h2⟩

/-- non-vacuity and a concrete tie: equal memories keep the order given (stable). -/
example : sortGpus [{ memory := 8, minMemory := 1 }, { memory := 4 }, { memory := 8, minMemory := 2 }]
    = [{ memory := 4 }, { memory := 8, minMemory := 1 }, { memory := 8, minMemory := 2 }] := by decide
example : Asc [({ memory := 4 } : Cuda), { memory := 8 }] := by simp [Asc]

end XpmVerif.C18Sort
