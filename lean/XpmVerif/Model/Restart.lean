import XpmVerif.Model.Sched
/-! M4 — restart: the scheduler model M2 (`Model/Sched.lean`) extended with
    * the adoption path of `aio_submit` (`scheduler/base.py` l.594-620, `commandline.py` l.241-260):
      the first segment reads the success marker and the pid file; a live process found through the pid
      file is waited for (`state := RUNNING`, `await process.aio_code()`), nothing is launched;
    * a persistent part `D` (the job directories and the job processes) reached only through four hooks
      (`look`, `onAdopt`, `onLaunch`, `gate`), so that the same dispatch serves the plain scheduler
      (`plain`: M2 itself, see `Proofs/Restart.lean` `applyA_plain`) and the restart world (`world`);
    * the restart world: per identifier a job directory (`done`, `pid`, the run lock) and any number of job
      processes in a coarse version of M3 (wait for the lock / body / exiting / gone), the scheduler-side
      lock protocol of `aio_start` (job lock taken before and released after the launch), and the events
      `crash` (the scheduler process dies at any step: all volatile state is dropped, its locks are
      released, files and processes survive; a fresh scheduler starts), `crashAfterSpawn` (it dies
      inside `aio_run` between `Popen` and the write of the pid file) and `crashInPrepare` (it dies inside
      `CommandLineJob.prepare`, leaving the job script absent, broken or ready).

    Import-free apart from M2, executable (driver `Drive/C11.lean`). -/
namespace XpmVerif.Restart
open XpmVerif.Sched

/-- what the first segment of `aio_submit` finds in the job directory -/
structure Look where
  marker : Bool      -- `<job>.done` exists
  adopt : Bool       -- `<job>.pid` names a process that is running
  deriving Repr, DecidableEq

/-- the interface between the scheduler and the persistent world `D` -/
structure Hooks (D : Type) where
  look : D → Nat → Job → Look
  onAdopt : D → Nat → Job → D
  onLaunch : D → Nat → Job → D
  /-- completion of a helper thread `(kind, j)`: `none` = cannot complete now (lock busy, process still
      running); `some (c, d')` = completes, optionally reporting the exit code `c`, new world `d'`.
      The last argument tells whether job `j` took the adoption path. -/
  gate : D → TK → Nat → Job → Bool → Option (Option Nat × D)

structure StA (D : Type) where
  s : St
  adopted : Nat → Bool := fun _ => false      -- jobs whose `aio_submit` found a live process
  d : D

/-- first segment of `aio_submit` up to and including the first marker test (the body of `St.startJob`
    without its last line, see `startJob_eq`) -/
def startPrefix (fl : Flags) (s : St) (j : Nat) : St :=
  let jb := s.jobs j
  let jb := { jb with state := .waiting, event := false, sleeping := false }
  let s := s.put j jb
  let s :=
    if jb.deps.isEmpty then s.put j { jb with event := true, state := .ready }
    else St.registerDeps fl (s.put j { jb with unsat := jb.deps.length }) j jb.deps.length 0
  if (s.jobs j).marker then s.put j { (s.jobs j) with state := .done } else s

theorem startJob_eq (fl : Flags) (s : St) (j : Nat) : s.startJob fl j = (startPrefix fl s j).loopHead j := rfl

/-- first segment of `aio_submit` with the directory contents `lk` -/
def startJobA (fl : Flags) (s : St) (j : Nat) (lk : Look) : St :=
  let s := s.put j { (s.jobs j) with marker := lk.marker }
  if lk.adopt then
    -- `process = await job.aio_process()` is not None: RUNNING, then `await process.aio_code()`
    let s := startPrefix fl s j
    s.put j { (s.jobs j) with state := .running, pc := .codeWait } [] [(.code, j)]
  else s.startJob fl j

def runCbA {D : Type} (fl : Flags) (h : Hooks D) (a : StA D) : Cb → StA D
  | .start j =>
    let lk := h.look a.d j (a.s.jobs j)
    if lk.adopt then
      { a with s := startJobA fl a.s j lk, adopted := upd a.adopted j true, d := h.onAdopt a.d j (a.s.jobs j) }
    else { a with s := startJobA fl a.s j lk }
  | .resume j =>
    let s' := a.s.resume fl j
    if (a.s.jobs j).launches < (s'.jobs j).launches then
      { a with s := s', d := h.onLaunch a.d j (s'.jobs j) }   -- `aio_run`: spawn, write the pid file
    else { a with s := s' }
  | cb => { a with s := a.s.runCb fl cb }

def stepA {D : Type} (fl : Flags) (h : Hooks D) (a : StA D) : StA D :=
  match a.s.ready with
  | [] => a
  | cb :: rest => runCbA fl h { a with s := { a.s with ready := rest } } cb

def stepsA {D : Type} (fl : Flags) (h : Hooks D) (a : StA D) : Nat → StA D
  | 0 => a
  | k + 1 => stepsA fl h (stepA fl h a) k

/-- the record of a new submission (job dependencies point to the jobs that stand for their targets) -/
def newJob (s : St) (ident : Nat) (deps : List Origin) (code : Nat) (marker : Bool) : Job :=
  { ident := ident,
    deps := deps.map (fun o => match o with
      | .job d => { origin := .job (s.eff d) : Dep }
      | o => { origin := o }),
    code := code, marker := marker }

/-- `task.submit()`, part 1: the record exists, the registration coroutine is queued -/
def submitPre {D : Type} (a : StA D) (rec : Job) : StA D :=
  { a with s := { a.s with n := a.s.n + 1, jobs := upd a.s.jobs a.s.n rec, regResult := none,
                           ready := a.s.ready ++ [.register a.s.n] } }

/-- `task.submit()`, part 2 (the registration has run): either another job stands for this submission, or
    `aio_submit` is scheduled -/
def submitPost {D : Type} (a : StA D) (j : Nat) : StA D :=
  match a.s.regResult with
  | some (some o) => { a with s := { a.s with eff := upd a.s.eff j o } }
  | _ => { a with s := ({ a.s with eff := upd a.s.eff j j }).put j { (a.s.jobs j) with pc := .created } [.start j] }

def setCode (s : St) (j : Nat) : Option Nat → St
  | some c => s.put j { (s.jobs j) with code := c }
  | none => s

/-- a helper thread `(kind, j)` (the `k`-th pending one) has completed -/
def deliverA {D : Type} (a : StA D) (k j : Nat) (c : Option Nat) (d' : D) : StA D :=
  let s := setCode a.s j c
  { a with d := d', s := { s with threads := s.threads.eraseIdx k, ready := s.ready ++ [.resume j] } }

def applyA {D : Type} (fl : Flags) (h : Hooks D) (a : StA D) : Ev → StA D
  | .submit ident deps code marker =>
    submitPost (stepsA fl h (submitPre a (newJob a.s ident deps code marker)) (a.s.ready.length + 1)) a.s.n
  | .step => stepA fl h a
  | .deliver k =>
    (match a.s.threads[k]? with
     | some (kind, j) =>
       (match h.gate a.d kind j (a.s.jobs j) (a.adopted j) with
        | none => a
        | some (c, d') => deliverA a k j c d')
     | none => a)
  | .wait => { a with s := { a.s with ready := a.s.ready ++ [.waiterRun], waiter := .starting } }

/-- M2 itself: the marker is the one given with the submission, nothing is ever adopted, every helper
    thread can complete at any time -/
def plain : Hooks Unit :=
  { look := fun _ _ jb => { marker := jb.marker, adopt := false },
    onAdopt := fun d _ _ => d,
    onLaunch := fun d _ _ => d,
    gate := fun d _ _ _ _ => some (none, d) }

/-! ### the restart world -/

inductive Ph where
  | waitLock | body | exiting | gone
  deriving DecidableEq, Repr, Inhabited

/-- a job process (coarse M3: `run.py` l.121-160) -/
structure Proc where
  ident : Nat := 0
  ph : Ph := .gone
  code : Nat := 0        -- how the body ends if it is run
  ok : Bool := false     -- exit status 0 (body succeeded, or skipped because the marker existed)
  ran : Bool := false    -- ghost: this process executed the body
  deriving Repr, Inhabited

inductive LockH where
  | free | sched | proc (p : Nat)
  deriving DecidableEq, Repr, Inhabited

/-- the job script `<name>.py` (with `params.json` and its mode bits) as `CommandLineJob.prepare` leaves it -/
inductive Script where
  | absent | broken | ready
  deriving DecidableEq, Repr, Inhabited

/-- the directory of one job identifier -/
structure Dir where
  done : Bool := false
  pid : Option Nat := none
  lock : LockH := .free
  script : Script := .absent
  -- ghost counters
  bodies : Nat := 0      -- body starts
  succ : Nat := 0        -- bodies that ended with the success marker
  fails : Nat := 0       -- bodies that ended in failure
  spawns : Nat := 0
  deriving Repr, Inhabited

structure Disk where
  dir : Nat → Dir := fun _ => {}
  procs : Nat → Proc := fun _ => {}
  np : Nat := 0
  procOf : Nat → Nat := fun _ => 0     -- volatile: job index ↦ its process (`job._process`)

def Disk.alive (d : Disk) (p : Nat) : Bool := decide (p < d.np) && decide ((d.procs p).ph ≠ .gone)

def Disk.setDir (d : Disk) (i : Nat) (x : Dir) : Disk := { d with dir := upd d.dir i x }
def Disk.setProc (d : Disk) (p : Nat) (x : Proc) : Disk := { d with procs := upd d.procs p x }

/-- a new process for identifier `i` -/
def Disk.spawn (d : Disk) (i : Nat) (code : Nat) : Disk :=
  { d with procs := upd d.procs d.np { ident := i, ph := .waitLock, code := code },
           np := d.np + 1,
           dir := upd d.dir i { (d.dir i) with spawns := (d.dir i).spawns + 1 } }

/-- next move of job process `p`; `rmPid`: its clean-up removes the pid file when it exits (it does on the
    failure and the "already completed" paths, and on the success path once F7 is repaired) -/
def Disk.procStep (d : Disk) (p : Nat) (rmPid : Bool) : Disk :=
  if p < d.np then
    let pr := d.procs p
    let i := pr.ident
    let dr := d.dir i
    match pr.ph with
    | .waitLock =>
      if dr.lock = .free then
        if dr.done then
          (d.setDir i { dr with lock := .proc p }).setProc p { pr with ph := .exiting, ok := true }
        else
          (d.setDir i { dr with lock := .proc p, bodies := dr.bodies + 1 }).setProc p { pr with ph := .body, ran := true }
      else d
    | .body =>
      if pr.code = 0 then
        (d.setDir i { dr with done := true, succ := dr.succ + 1 }).setProc p { pr with ph := .exiting, ok := true }
      else
        (d.setDir i { dr with fails := dr.fails + 1 }).setProc p { pr with ph := .exiting, ok := false }
    | .exiting =>
      (d.setDir i { dr with lock := if dr.lock = .proc p then .free else dr.lock,
                            pid := if rmPid then none else dr.pid }).setProc p { pr with ph := .gone }
    | .gone => d
  else d

/-- the scheduler process dies: its job locks are released, `job._process` is forgotten -/
def Disk.crash (d : Disk) : Disk :=
  { d with dir := fun i => { (d.dir i) with lock := if (d.dir i).lock = .sched then .free else (d.dir i).lock },
           procOf := fun _ => 0 }

def world : Hooks Disk :=
  { look := fun d _ jb =>
      { marker := (d.dir jb.ident).done,
        adopt := match (d.dir jb.ident).pid with
          | some p => d.alive p
          | none => false },
    onAdopt := fun d j jb => { d with procOf := upd d.procOf j ((d.dir jb.ident).pid.getD 0) },
    onLaunch := fun d j jb =>
      let p := d.np
      let d := d.spawn jb.ident jb.code
      -- `aio_run`: `prepare` writes params.json, the script and its mode bits from scratch, whatever a dead scheduler
      -- left there; then spawn and pid file
      { (d.setDir jb.ident { (d.dir jb.ident) with pid := some p, script := .ready }) with procOf := upd d.procOf j p },
    gate := fun d kind j jb adopted =>
      let dr := d.dir jb.ident
      match kind with
      | .lockEnter => if dr.lock = .free then some (none, d.setDir jb.ident { dr with lock := .sched }) else none
      | .lockExit => some (none, d.setDir jb.ident { dr with lock := if dr.lock = .sched then .free else dr.lock })
      | .code =>
        let p := d.procOf j
        if d.alive p then none
        else if adopted then some (some (if dr.done then 0 else 1), d)   -- psutil gives no code: the markers decide
        else some (some (if (d.procs p).ok then 0 else 1), d)
      | .doneH => some (none, d) }

inductive WEv where
  | sched (e : Ev)
  | proc (p : Nat) (rmPid : Bool)
  | crash
  | crashAfterSpawn (j : Nat)
  | crashInPrepare (j : Nat) (st : Script)
  deriving Repr

structure W where
  totals : List Nat
  a : StA Disk

def W.init (totals : List Nat) (done : Nat → Bool) : W :=
  { totals := totals, a := { s := St.init totals, d := { dir := fun i => { done := done i } } } }

def W.restart (w : W) : W :=
  { w with a := { s := St.init w.totals, adopted := fun _ => false, d := w.a.d.crash } }

def W.apply (fl : Flags) (w : W) : WEv → W
  | .sched e => { w with a := applyA fl world w.a e }
  | .proc p rm => { w with a := { w.a with d := w.a.d.procStep p rm } }
  | .crash => w.restart
  | .crashAfterSpawn j =>
    -- inside `aio_run` of job `j` (the scheduler holds the job lock): the process exists, the pid file does not
    let jb := w.a.s.jobs j
    if jb.pc = .lockEnter ∧ (w.a.d.dir jb.ident).lock = .sched then
      W.restart { w with a := { w.a with d := w.a.d.spawn jb.ident jb.code } }
    else w
  | .crashInPrepare j st =>
    -- inside `CommandLineJob.prepare` of job `j` (job lock held, nothing spawned): the script is left absent
    -- (params.json only), broken (created, not complete or not executable) or ready
    let jb := w.a.s.jobs j
    if jb.pc = .lockEnter ∧ (w.a.d.dir jb.ident).lock = .sched then
      W.restart { w with a := { w.a with d := w.a.d.setDir jb.ident { (w.a.d.dir jb.ident) with script := st } } }
    else w

def W.run (fl : Flags) (w : W) : List WEv → W
  | [] => w
  | e :: es => W.run fl (w.apply fl e) es

end XpmVerif.Restart
