import XpmVerif.Properties.C05
import XpmVerif.Proofs.RunnerWait
/-! C05 — a success marker that appears *while a job waits* in a scheduler.

    `C05.done_marker_never_launched` is about a marker present when the job is submitted: the scheduler model reads it
    where `aio_submit` does, and such a job is never launched.  A job that is WAITING (token, dependency, job lock) when
    another scheduler completes the same configuration is different: neither `Scheduler.aio_start` nor
    `CommandLineJob.aio_run` look at the marker again, so the waiting scheduler **does launch** the job once it is
    ready (second sentence read literally — "never launched again" — is *not* what the code guarantees here).  What the
    code guarantees is the third sentence, "not run again after it succeeded", and it is the *job process* that
    guarantees it: `TaskRunner.run` takes the run lock, finds the marker and leaves without entering the body.  In the
    process model M3 (`Model/Runner.lean`) the waiting scheduler is a launcher that is still `idle` while the processes
    started by others run; everything it does later is part of the arbitrary continuation `as` below.

    Assumption made explicit by the model and checked on the real code by part (d) of `harness/xv/props/c05.py`
    (a job waiting in one experiment process while another completes it): the launch path of the scheduler (lock, spawn,
    pid file, release) does not remove the success marker — `Runner.act_done_stable`. -/
namespace XpmVerif.C05
open XpmVerif.Runner

/-- **"… and is not run again after it succeeded", for a marker that appears at any time** (in particular while the
    job waits in a scheduler that submitted it before): from any reachable state in which the success marker exists,
    whatever happens next — any number of launches by any schedulers (the one that was waiting included), any
    interleaving of runner processes, signals, deaths of schedulers — no task body is started (`starts` is the
    number of body starts so far), the marker stays, and no process is inside the body. -/
theorem done_while_waiting_no_body {cfg : Cfg} {done : Bool} {failed : Option Nat} {s : St}
    (h : Reach cfg done failed s) (hd : s.sh.done = true) (as : List Act) :
    (run cfg s as).sh.starts = s.sh.starts ∧ (run cfg s as).sh.done = true ∧
      ∀ i, running (run cfg s as) i = false := by
  induction as generalizing s with
  | nil => exact ⟨rfl, hd, (C10.no_body_after_done h).2 hd⟩
  | cons a as ih =>
    have hs : (act cfg s a).sh.starts = s.sh.starts := by
      by_cases hne : (act cfg s a).sh.starts = s.sh.starts
      · exact hne
      · have := ((C10.no_body_after_done h).1 a hne).1
        simp [hd] at this
    obtain ⟨i1, i2, i3⟩ := ih (reach_act h a) (act_done_stable cfg s a hd)
    exact ⟨by simp only [run]; rw [i1, hs], by simpa only [run] using i2, by simpa only [run] using i3⟩

/-- the scenario of the seeded change C05e: launcher 1 (scheduler B) is idle — its job waits — while launcher 0
    (scheduler A) launches the job, whose process runs the body once and writes the marker. -/
def completedByOther : List Act :=
  [.lLock 0, .lSpawn 0 .ok 1, .lWrite 0, .lRelease 0] ++ List.replicate 25 (.step 0)

/-- … then B's job becomes ready: B launches it (the launch *does* happen: a second process exists), the process runs
    to its end. -/
def thenWaiterLaunches : List Act :=
  [.lLock 1, .lSpawn 1 .ok 1, .lWrite 1, .lRelease 1] ++ List.replicate 14 (.step 1)

/-- non-vacuity: the hypotheses hold after `completedByOther` (marker written, one body start, launcher 1 idle), and
    the continuation really launches a second process, which ends on its own without a second body start. -/
example : Reach repaired false none (run repaired (St.init false none) completedByOther) := ⟨completedByOther, rfl⟩
example : let s := run repaired (St.init false none) completedByOther
    s.sh.done = true ∧ s.sh.starts = 1 ∧ s.ls 1 = .idle ∧ s.n = 1 := by decide
example : let s := run repaired (run repaired (St.init false none) completedByOther) thenWaiterLaunches
    s.n = 2 ∧ s.sh.starts = 1 ∧ s.sh.done = true ∧ endedOnOwn (s.procs 1) = true ∧ (s.procs 1).touched = false := by decide +kernel

end XpmVerif.C05
