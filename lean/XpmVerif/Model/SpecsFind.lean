import XpmVerif.Model.SpecsLex
/-! M8 (`LauncherRegistry.find`, `launcherfinder/registry.py`): the arguments are flattened in the order given — a text
    contributes the alternatives `parse(text)` returns, in the order written, any other argument (a requirement, also a
    `RequirementUnion` built with `|`) is one entry —, then the user's `find_launcher` function is asked entry by entry and the
    first launcher it returns is the answer.  No priority is consulted by `find` itself (priorities only order the
    alternatives *inside* one `RequirementUnion.match`, `unionMatch`). -/
namespace XpmVerif.Specs

/-- an argument of `find(*input_specs)`. -/
inductive FindArg (ρ : Type) where
  | text (s : String)
  | req (r : ρ)

/-- `specs.extend(parse(spec))` for a `str`, `specs.append(spec)` otherwise; `none` = `parse` raised. -/
def flattenSpecs {ρ : Type} (parse : String → Option (List ρ)) : List (FindArg ρ) → Option (List ρ)
  | [] => some []
  | .text s :: rest =>
    (match parse s, flattenSpecs parse rest with
     | some l, some r => some (l ++ r)
     | _, _ => none)
  | .req r :: rest =>
    (match flattenSpecs parse rest with
     | some l => some (r :: l)
     | none => none)

/-- `for spec in specs: if launcher := fn(spec, tags): return launcher` … `return None`. -/
def findLoop {ρ L : Type} (fn : ρ → Option L) : List ρ → Option L
  | [] => none
  | s :: rest =>
    match fn s with
    | some l => some l
    | none => findLoop fn rest

/-- `LauncherRegistry.find`: without a `find_launcher` function the direct launcher; outer `none` = an exception of `parse`. -/
def registryFind {ρ L : Type} (hasFn : Bool) (direct : L) (parse : String → Option (List ρ)) (fn : ρ → Option L)
    (args : List (FindArg ρ)) : Option (Option L) :=
  if hasFn then
    (match flattenSpecs parse args with
     | some specs => some (findLoop fn specs)
     | none => none)
  else some (some direct)

end XpmVerif.Specs
