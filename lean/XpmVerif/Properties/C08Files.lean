import XpmVerif.Proofs.FileTokens
/-! C08, file-based part (model M2', `Model/FileTokens.lean`): jobs running under a token shared by
    several scheduler processes never hold more than its total, however stale the in-memory counters
    of the processes are and however their acquisitions, releases, file-system events, watcher
    reclaims, deaths and restarts interleave.  `Reachable cfg s` = any finite sequence of enabled
    steps from the empty directory, for any number of processes (`Proc = Nat`, all initialised). -/
namespace XpmVerif.C08Files
open XpmVerif.FileTokens

/-- C08 "at no instant do the jobs … hold more than the token's total … whatever the number of
    schedulers or processes sharing the token directory": the amounts recorded by the token files
    (a file that is created but not yet written counts for the amount being taken) never exceed the
    total. -/
theorem disk_capacity (cfg : Cfg) (s : St) (r : Reachable cfg s) : diskSum cfg s ≤ cfg.total :=
  (reachable_inv cfg s r).cap

/-- C08 stated on the jobs: the jobs whose job lock is held or whose process is alive (`active`, from
    the moment the token is taken until the job is gone) all have their token file, are pairwise
    distinct, and together ask at most the total. -/
theorem running_capacity (cfg : Cfg) (s : St) (r : Reachable cfg s) :
    (∀ f ∈ s.active, f ∈ names s.disk) ∧ s.active.Nodup ∧ sumReq cfg.req s.active ≤ cfg.total := by
  have h := reachable_inv cfg s r
  exact ⟨h.activeDisk, h.nodupActive,
    Nat.le_trans (sumReq_le_of_subset cfg.req _ _ h.nodupActive h.activeDisk) h.cap⟩

/-- "however their acquisitions race": whatever the in-memory counter of `p` says before, `acquire`
    succeeds exactly when the amount still fits next to what the directory records (the recount). -/
theorem acquire_iff_room (cfg : Cfg) (s : St) (p : Proc) (f : Name) :
    (apply cfg s (.acquireBegin p f)).2.ok = true ↔ diskSum cfg s + cfg.req f ≤ cfg.total := by
  simp only [apply, recount_avail, diskSum]
  by_cases hc : (cfg.total : Int) - (sumReq cfg.req (names s.disk) : Nat) < (cfg.req f : Nat)
  · simp only [hc, ↓reduceIte, Bool.false_eq_true, false_iff]; omega
  · simp only [hc, ↓reduceIte, true_iff]; omega

/-- `mem_overapprox`: the in-memory counter of a process never under-estimates what is free with
    respect to the files it knows: `available + Σ cache (+ the amount it is just taking) ≥ total`.
    It may over-estimate, even beyond `total` (observation F23: `on_created` caches a foreign file
    without subtracting, `on_deleted` adds) — harmless because `acquire` recounts. -/
theorem mem_overapprox (cfg : Cfg) (s : St) (r : Reachable cfg s) (p : Proc) :
    (s.procs p).avail + (sumReq cfg.req (s.procs p).cache : Nat) + (inflight cfg s p : Nat) ≥ (cfg.total : Int) :=
  (reachable_inv cfg s r).over p

/-- consequence for wake-ups: a process whose observer runs, that is not in the middle of an
    `acquire` and has no deletion left to dispatch, shows at least what is really free. -/
theorem mem_overapprox_settled (cfg : Cfg) (s : St) (r : Reachable cfg s) (p : Proc)
    (ha : (s.procs p).alive = true) (hd : (s.procs p).dropped = false)
    (hn : ∀ f, FsEv.deleted f ∉ (s.procs p).pending) (hi : ∀ f, s.ipc ≠ some (p, f)) :
    (s.procs p).avail ≥ (cfg.total : Int) - (diskSum cfg s : Nat) := by
  have h := reachable_inv cfg s r
  have h1 := h.over p
  have h2 : sumReq cfg.req (s.procs p).cache ≤ diskSum cfg s :=
    sumReq_le_of_subset cfg.req _ _ (h.nodupCache p) (by
      intro f hf
      rcases h.cacheSound p ha hd f hf with h3 | h3
      · exact h3
      · exact absurd h3 (hn f))
  have h3 : inflight cfg s p = 0 := by
    simp only [inflight]
    split
    · rename_i q f e; by_cases hq : q = p
      · subst hq; exact absurd e (hi f)
      · simp [hq]
    · rfl
  omega

/-- after the recount of an `acquire` (successful or not) the counter is exact again. -/
theorem acquire_recount_exact (cfg : Cfg) (s : St) (p : Proc) (f : Name)
    (en : enabled s (.acquireBegin p f) = true) :
    let s' := (apply cfg s (.acquireBegin p f)).1
    (s'.procs p).avail = (cfg.total : Int) - (diskSum cfg s' : Nat) := by
  simp only [enabled, Bool.and_eq_true, Option.isNone_iff_eq_none, Bool.not_eq_true', List.contains_eq_mem,
    decide_eq_false_iff_not] at en
  obtain ⟨⟨⟨_, _⟩, hfd⟩, _⟩ := en
  simp only [apply, recount_avail]
  by_cases hc : (cfg.total : Int) - (sumReq cfg.req (names s.disk) : Nat) < (cfg.req f : Nat)
  · simp [hc, diskSum, recount_avail]
  · have hnames : names (s.disk ++ [(f, false)]) = names s.disk ++ [f] := by simp [names]
    simp only [hc, hfd, ↓reduceIte, diskSum, bc_avail, upd_same, hnames, sumReq_append, sumReq]
    omega

/-- one token object per (process, directory): asking again for the same named token, with the same or
    another total (`CounterToken.create`, `connector.createtoken`, `xp.token`), changes nothing — no new
    object, the total of the directory stays — so it is enabled for every live process, keeps the state
    reachable and keeps both capacity statements.  (The check compares this with the real `create`: the
    returned object must be the registered one, with its total, and the process must still have exactly
    one token object on the directory.) -/
theorem recreate_preserves_capacity (cfg : Cfg) (s : St) (r : Reachable cfg s) (p : Proc)
    (hd : (s.procs p).dropped = false) :
    let s' := (apply cfg s (.recreate p)).1
    s' = s ∧ Reachable cfg s' ∧ diskSum cfg s' ≤ cfg.total ∧ sumReq cfg.req s'.active ≤ cfg.total := by
  have en : enabled s (.recreate p) = true := by simp [enabled, hd]
  have r' : Reachable cfg (apply cfg s (.recreate p)).1 := Reachable.step _ r en
  exact ⟨rfl, r', disk_capacity cfg _ r', (running_capacity cfg _ r').2.2⟩

/-! ### the hypotheses are satisfiable, the bound is reached, stale counters occur
    (`cfg2`, `evs2` are defined in `Proofs/FileTokens.lean`: total 2, two processes take one unit each,
    a third request does not fit) -/

example : allEnabled cfg2 (init cfg2) evs2 = true := by decide +kernel
example : Reachable cfg2 (run cfg2 (init cfg2) evs2) := reachable_run cfg2 evs2 _ .init (by decide +kernel)
example : diskSum cfg2 (run cfg2 (init cfg2) evs2) = 2 := by decide +kernel
example : (run cfg2 (init cfg2) evs2).active = [11, 10] := by decide +kernel
example : (apply cfg2 (run cfg2 (init cfg2) (evs2.take 4)) (.acquireBegin 0 12)).2.ok = false := by decide +kernel
/-- stale counter: after process 0 took its unit, process 1 still shows 2 of 2. -/
example : ((run cfg2 (init cfg2) (evs2.take 2)).procs 1).avail = 2 := by decide +kernel
/-- asking again in the middle of the run is allowed and changes nothing. -/
example : enabled (run cfg2 (init cfg2) (evs2.take 2)) (.recreate 0) = true ∧
    diskSum cfg2 (apply cfg2 (run cfg2 (init cfg2) (evs2.take 2)) (.recreate 0)).1 = 1 := by decide +kernel

end XpmVerif.C08Files
