import XpmVerif.Proofs.SpecsLex
/-! C18 — "A textual specification means the same as the equivalent programmatic one … any whitespace", down to
    characters.  `parseText = parse ∘ lex` on `String`s; the literals and the three regular expressions the lexer
    follows are re-read from `launcherfinder/parser.py` on every run (`Generated/SpecsLex.lean`) and the `*_from_source`
    theorems below are re-checked against them.  The quantity literals (`humanfriendly`) are modelled for integer
    forms; what `G`, `GB`, `GiB` mean is stated by `size_*`. -/
namespace XpmVerif.C18Lex
open XpmVerif.Specs

/-- **parse ∘ render = id on strings, for every request and every whitespace padding**: `ws i` is the padding put
    before the `i`-th token (`ws n` after the last one), any strings over arpeggio's whitespace characters
    `'\t' '\n' '\r' ' '`, empty ones included; the request is well-formed as in `C18Parse.parse_render`. -/
theorem parse_render_text (a : List (List Specs.Term)) (hne : a ≠ [])
    (hok : ∀ c ∈ a, c ≠ [] ∧ c.all termOK = true)
    (ws : Nat → List Char) (hws : ∀ i, ∀ c ∈ ws i, isWs c = true) :
    parseText (renderText a ws) = some a := by
  unfold parseText
  rw [lexText_renderText a ws hws]
  simp only [Option.bind_some, parseToks]
  exact parseAlts_render a _ hne hok (by have := renderAlts_length' a (fun c hc => (hok c hc).1); omega)

/-- **a textual specification means the same as the equivalent programmatic one**: the requests `parse(text)`
    returns for the text of `a` (any padding) are the requests the programmatic construction of `a` gives
    (`evalAlt`: `&` folds, `*`, last `mem=`/`cores=` wins, `parse_size`/`parse_timespan` of the literals). -/
theorem text_means_programmatic_text (a : List (List Specs.Term)) (hne : a ≠ [])
    (hok : ∀ c ∈ a, c ≠ [] ∧ c.all termOK = true)
    (ws : Nat → List Char) (hws : ∀ i, ∀ c ∈ ws i, isWs c = true) :
    evalText (renderText a ws) = evalAlt a := by
  unfold evalText
  rw [parse_render_text a hne hok ws hws]; rfl

/-- non-vacuity on concrete strings (padding: a tab before even tokens, nothing before odd ones), and rejections. -/
example : renderToks (fun i => if i % 2 = 0 then ['\t'] else []) 0 (renderAlts [[.cuda [.mem 4 .G] (some 2)], [.duration 2 .days]])
    = ['\t', 'c', 'u', 'd', 'a', '(', '\t', 'm', 'e', 'm', '=', '\t', '4', 'G', ')', '\t', '*', '2', '\t', '|',
       'd', 'u', 'r', 'a', 't', 'i', 'o', 'n', '\t', '=', '2', '\t', 'd', 'a', 'y', 's'] := by
  simp [renderToks, renderAlts, renderConj, renderTerm, renderItems, renderItem, tokText, natDigits, digitChar]
example : parseText " cuda( mem=4G )*2 & cpu(mem=2,cores=3)\n| duration = 2days " =
    some [[.cuda [.mem 4 .G] (some 2), .cpu [.mem 2 .none, .cores 3]], [.duration 2 .days]] := by decide
example : parseText "cpu(memory=4G)" = none := by decide        -- `mem` is matched as a prefix, `ory` is no token
example : parseText "cpu(mem=4GiB)" = none := by decide          -- the grammar only has `G` and `M`
example : parseText "cpu(mem=4 G)" = none := by decide           -- no whitespace inside a regular-expression match
example : parseText "cpu(mem=4G" = none := by decide             -- missing parenthesis
example : parseText "cpu(mem=4G) x" = none := by decide          -- trailing garbage
example : parseText "CPU(mem=4G)" = none := by decide            -- case matters
example : parseText "duration=2hour" = none := by decide         -- `h` then `our`
example : parseText "duration=2duration=3h" = none := by decide

/-! ### source obligations (about `Generated/SpecsLex.lean`) -/

/-- the literals of the grammar rules of `parser.py`, by role, are the lexer's table. -/
theorem lits_from_source : genLits = refLits := by decide

/-- `RegExMatch` of `mem_spec` matches what the lexer cuts for a memory literal: `\d+` then at most one of `G`, `M`. -/
theorem regex_mem_from_source (cs : List Char) : genReMem.run cs = spanMem cs := reMem_ok cs

/-- every `RegExMatch` of `cores_spec`, `multiplier` and `duration` (number) matches a maximal digit run. -/
theorem regex_num_from_source : ∀ re ∈ genReNum, ∀ cs, re.run cs = spanNum cs := by
  intro re hre cs
  simp only [genReNum, List.mem_cons, List.not_mem_nil, or_false] at hre
  subst hre
  exact reNum_ok cs

/-- the unit `RegExMatch` of `duration` matches the first of `hours`, `h`, `days`, `d` that is a prefix. -/
theorem regex_unit_from_source (cs : List Char) : genReUnit.run cs = spanUnit cs := reUnit_ok cs

/-- `ParserPython(...)` is called with arpeggio's default tokenisation (whitespace `'\t\n\r '`, skipping on, case-sensitive,
    no keyword boundaries). -/
theorem parser_options_from_source : genParserOpts = [] := by decide

/-- the lexer cuts a number exactly where `\d+(G|M)?` stops. -/
theorem lexer_follows_regex_mem (c : Char) (r : List Char) (h : c.isDigit = true) :
    spanMem (c :: r) = some (lexNumber (c :: r)).2 := by
  simp only [spanMem, spanNum, h, if_true, lexNumber, dropDigits, Option.map_some]
  rcases dropDigits r with _ | ⟨x, xs⟩ <;> simp <;> repeat' split <;> simp_all

/-- at a non-digit the lexer takes the first literal of the grammar that is a prefix, else what the unit expression matches. -/
theorem lexer_follows_literals (c : Char) (r : List Char) (h : c.isDigit = false) :
    lexOne (c :: r) = (match lexLit refLits (c :: r) with | some x => some x | none => lexLit unitLits (c :: r)) ∧
    (lexLit unitLits (c :: r)).map (·.2) = spanUnit (c :: r) := by
  refine ⟨?_, rfl⟩
  simp only [lexOne, h]
  exact lexLit_append refLits unitLits (c :: r)

/-! ### quantity literals -/

/-- **the grammar's memory literals are decimal**: the text the visitor hands to `parse_size` (`node.value` of
    `\d+(G|M)?`) denotes `n`, `n·10⁶` (`M`) or `n·10⁹` (`G`) bytes — `memBytes`, which `Term.eval` uses. -/
theorem mem_literal_decimal (n : Nat) (s : MemSuffix) : parseSize (tokText (.memlit n s)) = some (memBytes n s) := by
  cases s with
  | none =>
    have := parseSize_lit n [] (by intro c hc; simp at hc) (by decide) (by decide)
    simpa [tokText, sizeFactor, memBytes] using this
  | G =>
    rw [tokText, parseSize_lit n _ (by intro c hc; simp at hc; subst hc; decide) (by decide) (by decide)]
    have : sizeFactor ['G'] = some 1000000000 := by decide
    simp [this, memBytes]
  | M =>
    rw [tokText, parseSize_lit n _ (by intro c hc; simp at hc; subst hc; decide) (by decide) (by decide)]
    have : sizeFactor ['M'] = some 1000000 := by decide
    simp [this, memBytes]

/-- the text the visitor hands to `parse_timespan` (`" ".join(children)`: number, blank, unit). -/
theorem duration_literal (n : Nat) (u : DurUnit) :
    parseTimespan (natDigits n ++ ' ' :: tokText (.unit u)) = some (durSeconds n u) := by
  rw [parseTimespan_lit n _ (by intro c hc; simp at hc; subst hc; decide) (by cases u <;> decide)]
  cases u with
  | h => have : timeFactor (trim (' ' :: tokText (.unit .h))) = some 3600 := by decide
         simp [this, durSeconds]
  | hours => have : timeFactor (trim (' ' :: tokText (.unit .hours))) = some 3600 := by decide
             simp [this, durSeconds]
  | d => have : timeFactor (trim (' ' :: tokText (.unit .d))) = some 86400 := by decide
         simp [this, durSeconds]
  | days => have : timeFactor (trim (' ' :: tokText (.unit .days))) = some 86400 := by decide
            simp [this, durSeconds]

/-- `GiB` is binary (2³⁰), `GB` and `G` are decimal (10⁹) — and so is `Gi` (only the exact spellings `Xib`/`Xibibyte(s)`
    are binary in `humanfriendly.parse_size`). -/
theorem size_GiB_binary (n : Nat) : parseSize (natDigits n ++ ['G', 'i', 'B']) = some (n * 1073741824) := by
  rw [parseSize_lit n _ (by intro c hc; simp at hc; subst hc; decide) (by decide) (by decide)]
  have : sizeFactor ['G', 'i', 'B'] = some 1073741824 := by decide
  simp [this]
theorem size_GB_decimal (n : Nat) : parseSize (natDigits n ++ ['G', 'B']) = some (n * 1000000000) := by
  rw [parseSize_lit n _ (by intro c hc; simp at hc; subst hc; decide) (by decide) (by decide)]
  have : sizeFactor ['G', 'B'] = some 1000000000 := by decide
  simp [this]
theorem size_Gi_decimal (n : Nat) : parseSize (natDigits n ++ ['G', 'i']) = some (n * 1000000000) := by
  rw [parseSize_lit n _ (by intro c hc; simp at hc; subst hc; decide) (by decide) (by decide)]
  have : sizeFactor ['G', 'i'] = some 1000000000 := by decide
  simp [this]

example : parseSize " 4 GiB ".toList = some 4294967296 := by decide
example : parseSize "16 gibibytes".toList = some 17179869184 := by decide
example : parseSize "4 X".toList = none := by decide
example : parseTimespan "2 days".toList = some 172800 := by decide
example : parseTimespan "3 mi".toList = none := by decide

end XpmVerif.C18Lex
