import XpmVerif.Proofs.FileTokWatch
import XpmVerif.Properties.C09Files
/-! C09, file-based part, watchers (model M2', `Model/FileTokens.lean`): "whatever way a job ends — … death of its
    scheduler followed by the job's own end — the amount it held returns to the token".  When the scheduler that took a
    file token is gone, the amount returns through the `TokenFile.watch` thread of *another* process; these theorems show
    that such a thread exists (or is about to be started by a queued file-system event) in every live process, for every
    written token file that the process did not create itself — including a file re-created under the name of an older one
    whose cache entry is still there.  `ReachableO cfg s own` = `Reachable cfg s` with the history-determined ghost
    `own f` = the process that created the current file `f` (`none` once that process has been replaced by a new one). -/
namespace XpmVerif.C09Watch
open XpmVerif.FileTokens

/-- every reachable state has its owner map (the ghost adds no constraint). -/
theorem reachable_iff_owner (cfg : Cfg) (s : St) : Reachable cfg s ↔ ∃ own, ReachableO cfg s own :=
  ⟨reachable_has_owner cfg s, fun ⟨own, r⟩ => reachableO_reachable cfg s own r⟩

/-- invariant: in every reachable state, every process whose observer runs has, for every written token file it did not
    create itself, a watcher thread — or its event queue, dispatched in order, reaches a `modified f` event at a moment
    when `f` is not in its cache (`ww`), which starts one (`on_modified`).  Holds for any number of processes, any
    interleaving, with or without the tolerant callbacks (a dead observer is excluded by `ha`). -/
theorem every_foreign_holding_is_watched_or_pending (cfg : Cfg) (s : St) (own : Name → Option Proc) (r : ReachableO cfg s own)
    (q : Proc) (f : Name) (ha : (s.procs q).alive = true) (hd : (s.procs q).dropped = false)
    (ho : own f ≠ some q) (hf : lookupW f s.disk = some true) :
    f ∈ (s.procs q).watch ∨ ww f (decide (f ∈ (s.procs q).cache)) (s.procs q).pending = true :=
  (reachableO_winv cfg s own r).watched q f ha hd ho hf

/-- a process that has no `modified f` event left to dispatch watches `f`. -/
theorem watched_when_dispatched (cfg : Cfg) (s : St) (own : Name → Option Proc) (r : ReachableO cfg s own)
    (q : Proc) (f : Name) (ha : (s.procs q).alive = true) (hd : (s.procs q).dropped = false)
    (ho : own f ≠ some q) (hf : lookupW f s.disk = some true) (hn : FsEv.modified f ∉ (s.procs q).pending) :
    f ∈ (s.procs q).watch := by
  rcases every_foreign_holding_is_watched_or_pending cfg s own r q f ha hd ho hf with h | h
  · exact h
  · exact absurd (ww_has_modified f _ _ h) hn

/-- `reclaim_complete`: the job that holds the written token file `f` is gone (its process ended, whatever happened to its
    scheduler).  Then every live process `q` other than the creator of the file, once it has dispatched the events it has
    queued now (fairness: the observer of a live process dispatches its queue — `n` dispatch steps, all enabled, for a queue
    of length `n`; tolerant callbacks, i.e. the source after the repair of F6), is entitled to remove the file (`reclaim`
    is enabled: its watcher thread exists and the job is gone), and doing so returns the amount and tells every live observer. -/
theorem reclaim_complete (cfg : Cfg) (ht : cfg.tolerant = true) (s : St) (own : Name → Option Proc) (r : ReachableO cfg s own)
    (q : Proc) (f : Name) (ha : (s.procs q).alive = true) (hd : (s.procs q).dropped = false) (hi : ipcProc s ≠ some q)
    (ho : own f ≠ some q) (hf : lookupW f s.disk = some true) (hgone : f ∉ s.active) :
    let s₁ := drain cfg q (s.procs q).pending.length s
    ReachableO cfg s₁ own ∧ enabled s₁ (.reclaim q f) = true ∧
    (let s₂ := (apply cfg s₁ (.reclaim q f)).1
     f ∉ names s₂.disk ∧ diskSum cfg s₂ + cfg.req f = diskSum cfg s ∧
     ∀ q', (s₁.procs q').alive = true → (s₁.procs q').dropped = false → FsEv.deleted f ∈ (s₂.procs q').pending) := by
  obtain ⟨r1, hdisk, hact, _, hpend, ha1, hd1⟩ := drain_spec cfg q ht _ s own r ha hd hi rfl
  have hw : f ∈ ((drain cfg q (s.procs q).pending.length s).procs q).watch :=
    watched_when_dispatched cfg _ own r1 q f ha1 hd1 ho (by rw [hdisk]; exact hf) (by rw [hpend]; simp)
  have hfd : f ∈ names (drain cfg q (s.procs q).pending.length s).disk := by rw [hdisk]; exact lookupW_some_mem _ _ _ hf
  refine ⟨r1, ?_, ?_⟩
  · simp [enabled, hd1, hw, hact, hgone]
  · have := C09Files.reclaim_restores cfg _ (reachableO_reachable cfg _ _ r1) q f hfd
    refine ⟨this.1, ?_, this.2.2⟩
    have e := this.2.1
    simp only [diskSum, hdisk] at e ⊢
    exact e

/-- the creator of the file gives it back itself as long as it lives (`release` is enabled for every live process when
    the IPC lock is free: `C09Files.leftover_file_removable`); when it has been replaced by a new process it is no longer
    the owner and `reclaim_complete` applies to it: so as long as one scheduler process lives, some live process removes
    the file of a dead job. -/
theorem some_live_process_removes (cfg : Cfg) (s : St) (own : Name → Option Proc) (_r : ReachableO cfg s own)
    (q : Proc) (f : Name) (hd : (s.procs q).dropped = false) (hi : s.ipc = none) :
    own f = some q → enabled s (.release q f) = true := by
  intro _; simp [enabled, hi, hd]

/-! ### non-vacuity: the re-created file with a stale cache entry (`evsStale`, `Proofs/FileTokWatch.lean`) -/

example : allEnabled cfgFixed (init cfgFixed) evsStale = true := by decide +kernel
example : ReachableO cfgFixed (run cfgFixed (init cfgFixed) evsStale) (ownRun (fun _ => none) evsStale) :=
  reachableO_run cfgFixed evsStale _ _ .init (by decide +kernel)
/-- the state the informal argument worried about: file 7 is written, owned by process 0, process 1 has it in its cache
    from the first time, has *no* watcher for it (the thread of the first time has ended) and has just recounted … -/
example : let s := run cfgFixed (init cfgFixed) evsStale
    lookupW 7 s.disk = some true ∧ ownRun (fun _ => none) evsStale 7 = some 0 ∧ 7 ∈ (s.procs 1).cache ∧
    (s.procs 1).watch = [] ∧ (s.procs 1).pending = [.deleted 7, .created 7, .modified 7] := by decide +kernel
/-- … and yet the queue will start the watcher (`ww`), and after its three dispatches process 1 watches the file; when the
    job then ends and its scheduler is gone, process 1 removes the file. -/
example : let s := run cfgFixed (init cfgFixed) evsStale
    ww 7 (decide (7 ∈ (s.procs 1).cache)) (s.procs 1).pending = true ∧
    ((drain cfgFixed 1 3 s).procs 1).watch = [7] := by decide +kernel
example : let s := run cfgFixed (init cfgFixed) (evsStale ++ [.fsEvent 1, .fsEvent 1, .fsEvent 1, .drop 0, .jobGone 7])
    enabled s (.reclaim 1 7) = true ∧ (apply cfgFixed s (.reclaim 1 7)).1.disk = [] := by decide +kernel

end XpmVerif.C09Watch
