import XpmVerif.Proofs.FileTokWatch
import XpmVerif.Properties.C09Files
/-! C11, file-token part (model M2', `Model/FileTokens.lean`): a scheduler process dies (`drop`: its in-memory token state,
    its event queue and its watcher threads are lost; its token files stay; its job processes live on) and a new process
    is started on the same directory (`restart`: `CounterToken.__init__` = scan of the directory, a watcher thread for
    every token file found, observer started, second scan — F26: the second scan is what makes the two one step). -/
namespace XpmVerif.C11Files
open XpmVerif.FileTokens

/-- `restart_token_files_consistent`: after the restarted process's scan and watch start, the state is again a reachable
    state satisfying the whole invariant (so `disk_capacity` and `mem_overapprox` hold: nothing the dead process had taken
    is forgotten, nothing is counted twice), the new process knows exactly the files of the directory, its counter is exact,
    its observer runs with an empty queue, and *every* token file found — in particular every orphan file, taken by the dead
    process for a job that still runs — has a watcher thread in the new process. -/
theorem restart_token_files_consistent (cfg : Cfg) (s : St) (r : Reachable cfg s) (p : Proc)
    (en : enabled s (.restart p) = true) :
    let s' := (apply cfg s (.restart p)).1
    Reachable cfg s' ∧ Inv cfg s' ∧ diskSum cfg s' ≤ cfg.total ∧ s'.disk = s.disk ∧ s'.active = s.active ∧
    (s'.procs p).cache = names s'.disk ∧ (s'.procs p).avail = (cfg.total : Int) - (diskSum cfg s' : Nat) ∧
    (s'.procs p).alive = true ∧ (s'.procs p).dropped = false ∧ (s'.procs p).pending = [] ∧
    ∀ f ∈ names s'.disk, f ∈ (s'.procs p).watch := by
  have r' : Reachable cfg (apply cfg s (.restart p)).1 := .step _ r en
  have hI := reachable_inv cfg _ r'
  refine ⟨r', hI, hI.cap, rfl, rfl, ?_, ?_, ?_, ?_, ?_, ?_⟩
  · simp [apply, recount_cache]
  · simp [apply, recount_avail, diskSum]
  · simp [apply, fresh]
  · simp [apply, fresh]
  · simp [apply, fresh]
  · intro f hf
    simp only [apply, upd_same]
    exact watchedP_recount_new cfg s.disk fresh f hf (by simp [fresh])

/-- the orphan is then removed as soon as its job ends, by the new process (or any other live one). -/
theorem orphan_reclaimed_after_restart (cfg : Cfg) (s : St) (r : Reachable cfg s) (p : Proc) (f : Name)
    (en : enabled s (.restart p) = true) (hf : f ∈ names s.disk) (hgone : f ∉ s.active) :
    let s' := (apply cfg s (.restart p)).1
    enabled s' (.reclaim p f) = true ∧ f ∉ names (apply cfg s' (.reclaim p f)).1.disk := by
  obtain ⟨r', _, _, hd, ha, _, _, _, hdr, _, hw⟩ := restart_token_files_consistent cfg s r p en
  have hfd : f ∈ names (apply cfg s (.restart p)).1.disk := by rw [hd]; exact hf
  refine ⟨?_, ?_⟩
  · simp [enabled, hdr, hw f hfd, ha, hgone]
  · exact (C09Files.reclaim_restores cfg _ r' p f hfd).1

/-! ### non-vacuity: process 0 takes the token for job 7 and dies; the job runs on; process 0 is restarted -/
def evsCrash : List Ev := [.acquireBegin 0 7, .acquireEnd 0, .drop 0]

example : Reachable cfgFixed (run cfgFixed (init cfgFixed) evsCrash) := reachable_run cfgFixed evsCrash _ .init (by decide +kernel)
example : let s := run cfgFixed (init cfgFixed) evsCrash
    enabled s (.restart 0) = true ∧ 7 ∈ s.active ∧ ((apply cfgFixed s (.restart 0)).1.procs 0).watch = [7] ∧
    ((apply cfgFixed s (.restart 0)).1.procs 0).avail = 0 := by decide +kernel
example : let s := run cfgFixed (init cfgFixed) (evsCrash ++ [.restart 0, .jobGone 7])
    enabled s (.reclaim 0 7) = true ∧ (apply cfgFixed s (.reclaim 0 7)).1.disk = [] := by decide +kernel

end XpmVerif.C11Files
