import XpmVerif.Proofs.SchedFinal
/-! Continuation of `Proofs/SchedFinal.lean` (C06): the waiter of `experiment.wait()` (invariants `InvW`,
    `quiescent_waiter`), the livelock of aborted starts without the `abortReleases` repair (`livelock_cycle_snap`),
    the same schedule with the repair (`livelock_fixed_facts`), the two key lemmas towards termination
    (`abort_changes_nothing`, `abort_records_wait`) and the spinning job with a doubled token (`self_spin_snap`). -/
set_option linter.unusedSimpArgs false
set_option linter.unusedVariables false
namespace XpmVerif.SchedFinal
open XpmVerif.Sched


/-! ## the waiter of `experiment.wait()` -/

/-- `s'` has the same waiter status as `s`. -/
def FrameW (s s' : St) : Prop := s'.waiter = s.waiter

theorem FrameW.trans {a b c : St} (h1 : FrameW a b) (h2 : FrameW b c) : FrameW a c := Eq.trans h2 h1

theorem check_frameW (fl : Flags) (s : St) (j d : Nat) : FrameW s (s.check fl j d) := by
  unfold St.check; rfl

theorem regOne_frameW (s : St) (j d : Nat) : FrameW s (regOne s j d) := (regOne_frame s j d).2.2.2.2.2.2.1
theorem relOne_frameW (s : St) (j d : Nat) : FrameW s (relOne s j d) := (relOne_frame s j d).2.2.2.2.2.1
theorem acqOne_frameW (s : St) (x d : Nat) : FrameW s (acqOne s x d) := by
  unfold acqOne; split <;> rfl

theorem registerDeps_frameW (fl : Flags) (s : St) (x k d : Nat) : FrameW s (St.registerDeps fl s x k d) :=
  registerDeps_ind (fun s' => FrameW s s') fl x (d + k)
    (fun s' d _ h => h.trans (regOne_frameW s' x d)) (fun s' d _ h => h.trans (check_frameW fl s' x d)) k d s rfl rfl

theorem releaseAll_frameW (s : St) (x : Nat) (ds : List Nat) : FrameW s (St.releaseAll s x ds) :=
  releaseAll_ind (fun s' => FrameW s s') x (fun _ => True)
    (fun s' d _ h => h.trans (relOne_frameW s' x d)) (fun s' h => h) ds s (fun _ _ => trivial) rfl

theorem acquireAll_frameW (s : St) (x k d : Nat) : FrameW s (St.acquireAll s x k d).1 :=
  (acquireAll_ind (fun s' => FrameW s s') x (d + k) (fun s' d _ _ h => h.trans (acqOne_frameW s' x d)) k d s rfl rfl).1

theorem finish_frameW (s : St) (x : Nat) : FrameW s (s.finish x) := by
  unfold St.finish; simp only; split <;> rfl

theorem loopHead_frameW (s : St) (x : Nat) : FrameW s (s.loopHead x) := by
  unfold St.loopHead; simp only
  split
  · exact finish_frameW s x
  · split
    · split <;> rfl
    · rfl

theorem startJob_frameW (fl : Flags) (s : St) (x : Nat) : FrameW s (s.startJob fl x) := by
  rw [startJob_eq]
  have h2 : FrameW s (regPhase fl s x) := by
    unfold regPhase
    split
    · rfl
    · exact FrameW.trans (b := (s.put x (startRec (s.jobs x))).put x (startRecDeps (s.jobs x))) rfl
        (registerDeps_frameW fl _ x _ _)
  refine FrameW.trans ?_ (loopHead_frameW _ x)
  split
  · exact h2
  · exact h2

theorem wake_frameW (fl : Flags) (s : St) (j : Nat) : FrameW s (s.runCb fl (.wake j)) := by
  simp only [St.runCb]
  split
  · rfl
  · exact FrameW.trans (b := s.put j { (s.jobs j) with event := false }) rfl (loopHead_frameW _ j)

theorem abortTail_frameW (fl : Flags) (s : St) (x : Nat) : FrameW s (abortTail fl s x) := by
  unfold abortTail
  simp only
  exact loopHead_frameW _ x

theorem codeTail_frameW (s : St) (x : Nat) : FrameW s (codeTail s x) := by
  unfold codeTail
  exact finish_frameW _ x

theorem abortRelease_frameW (fl : Flags) (s : St) (x : Nat) : FrameW s (abortRelease fl s x) := by
  unfold abortRelease; split
  · exact releaseAll_frameW s x _
  · rfl

theorem resume_frameW (fl : Flags) (s : St) (x : Nat) (hnd : (s.jobs x).pc ≠ .doneHandler) :
    FrameW s (s.resume fl x) := by
  cases hp : (s.jobs x).pc with
  | lockEnter =>
    rw [resume_lockEnter fl s x hp]
    have hA := acquireAll_frameW s x (s.jobs x).deps.length 0
    generalize St.acquireAll s x (s.jobs x).deps.length 0 = r at hA
    obtain ⟨s1, fa⟩ := r
    unfold enterTail
    cases fa with
    | some d => exact hA.trans (FrameW.trans (abortRelease_frameW fl s1 x) (FrameW.trans (check_frameW fl _ x d) rfl))
    | none => exact hA
  | lockExitAbort =>
    rw [resume_lockExitAbort fl s x hp]
    exact FrameW.trans (releaseAll_frameW s x (s.jobs x).held) (abortTail_frameW fl _ x)
  | lockExitRun => rw [resume_lockExitRun fl s x hp]; rfl
  | codeWait =>
    rw [resume_codeWait fl s x hp]
    exact FrameW.trans (releaseAll_frameW s x (s.jobs x).held) (codeTail_frameW _ x)
  | doneHandler => exact absurd hp hnd
  | _ => rw [resume_other fl s x (by simp [hp, pcKind])]; rfl

/-- the two waiter invariants. -/
structure InvW (s : St) : Prop where
  sleepingBusy : s.waiter = .sleeping → s.unfinished ≠ 0
  pendingRun : s.waiter = .starting ∨ s.waiter = .notified → Cb.waiterRun ∈ s.ready

theorem runCb_invW (fl : Flags) (hf : fl.resubmitRegisters = true) (s : St) (cb : Cb) (rest : List Cb)
    (hr : s.ready = cb :: rest) (hnn : 0 ≤ s.unfinished) (h : InvW s) :
    InvW (({ s with ready := rest } : St).runCb fl cb) := by
  -- the generic case: waiter and counter unchanged, the queue grows
  have generic : cb ≠ .waiterRun →
      (({ s with ready := rest } : St).runCb fl cb).waiter = s.waiter →
      (({ s with ready := rest } : St).runCb fl cb).unfinished = s.unfinished →
      (∀ c, c ∈ rest → c ∈ (({ s with ready := rest } : St).runCb fl cb).ready) →
      InvW (({ s with ready := rest } : St).runCb fl cb) := by
    intro hne hw hu hq
    refine ⟨by rw [hw, hu]; exact h.sleepingBusy, ?_⟩
    rw [hw]
    intro hp
    have := h.pendingRun hp
    rw [hr] at this
    simp only [List.mem_cons] at this
    rcases this with e | e
    · exact absurd e.symm hne
    · exact hq _ e
  have viaQ : ∀ (hreg : isReg cb = false) (hd : ∀ x, cb = .resume x → (s.jobs x).pc ≠ .doneHandler),
      cb ≠ .waiterRun → (({ s with ready := rest } : St).runCb fl cb).waiter = s.waiter →
      InvW (({ s with ready := rest } : St).runCb fl cb) := by
    intro hreg hd hne hw
    obtain ⟨q1, _, _, new, q4, _⟩ := runCb_frameQ fl ({ s with ready := rest } : St) cb hreg hd
    exact generic hne hw q1 (fun c hc => by rw [q4]; exact List.mem_append_left _ hc)
  cases cb with
  | register j =>
    have f := register_jobs fl ({ s with ready := rest } : St) j
    have e := register_effect fl hf ({ s with ready := rest } : St) j
    refine ⟨?_, ?_⟩
    · intro hw
      have hw' : s.waiter = .sleeping := by rw [← f.2.2.2.2.2]; exact hw
      have := h.sleepingBusy hw'
      rcases e with ⟨_, e2⟩ | ⟨_, _, e2⟩
      · simp only [St.runCb]; rw [e2]
        have hnn' : 0 ≤ ({ s with ready := rest } : St).unfinished := hnn
        omega
      · simp only [St.runCb]; rw [e2]; exact this
    · intro hp
      have hp' : s.waiter = .starting ∨ s.waiter = .notified := by
        rcases hp with hp | hp
        · exact Or.inl (by rw [← f.2.2.2.2.2]; exact hp)
        · exact Or.inr (by rw [← f.2.2.2.2.2]; exact hp)
      have := h.pendingRun hp'
      rw [hr] at this
      simp only [List.mem_cons] at this
      rcases this with e' | e'
      · cases e'
      · simp only [St.runCb]; rw [f.2.1]; exact e'
  | start j => exact viaQ rfl (fun x e => by cases e) (fun e => by cases e) (startJob_frameW fl _ j)
  | wake j => exact viaQ rfl (fun x e => by cases e) (fun e => by cases e) (wake_frameW fl _ j)
  | resume j =>
    by_cases hd : (s.jobs j).pc = .doneHandler
    · simp only [St.runCb]
      rw [resume_doneHandler fl ({ s with ready := rest } : St) j hd]
      refine ⟨?_, ?_⟩
      · intro hw
        simp only [doneStep, put_waiter] at hw
        split at hw
        · cases hw
        · rename_i hns; exact absurd hw hns
      · intro hp
        simp only [doneStep, put_waiter, put_ready, List.mem_append] at hp ⊢
        by_cases hs : s.waiter = .sleeping
        · simp only [hs, if_true]
          exact Or.inl (Or.inr (Or.inl (List.mem_singleton.2 rfl)))
        · simp only [hs, if_false] at hp
          have := h.pendingRun hp
          rw [hr] at this
          simp only [List.mem_cons] at this
          rcases this with e' | e'
          · cases e'
          · exact Or.inl (Or.inl e')
    · exact viaQ rfl (fun x e => by cases e; exact hd) (fun e => by cases e) (resume_frameW fl _ j hd)
  | check j d => exact viaQ rfl (fun x e => by cases e) (fun e => by cases e) (check_frameW fl _ j d)
  | notifyCheck j d =>
    refine viaQ rfl (fun x e => by cases e) (fun e => by cases e) ?_
    rcases notifyCheck_cases fl ({ s with ready := rest } : St) j d with e | e <;> rw [e]
    · exact check_frameW fl _ j d
  | waiterRun =>
    have f := waiterRun_jobs ({ s with ready := rest } : St)
    rcases waiterRun_cases ({ s with ready := rest } : St) with ⟨hu, hw⟩ | ⟨hu, hw⟩
    · refine ⟨?_, ?_⟩
      · intro hs; simp only [St.runCb] at hs; rw [hw] at hs; split at hs <;> cases hs
      · intro hs; simp only [St.runCb] at hs; rw [hw] at hs
        rcases hs with hs | hs <;> split at hs <;> cases hs
    · refine ⟨?_, ?_⟩
      · intro _; simp only [St.runCb]; rw [f.2.2.2.2.2.1]; exact hu
      · intro hs; simp only [St.runCb] at hs; rw [hw] at hs
        rcases hs with hs | hs <;> cases hs



theorem step_invW (fl : Flags) (hf : fl.resubmitRegisters = true) (s : St) (hnn : 0 ≤ s.unfinished) (h : InvW s) :
    InvW (s.step fl) := by
  unfold St.step
  split
  · exact h
  · rename_i cb rest hr; exact runCb_invW fl hf s cb rest hr hnn h

theorem phaseA_nonneg {s : St} {j k : Nat} (h : PhA s j k) : 0 ≤ s.unfinished := by
  obtain ⟨_, _, _, _, _, _, _, hc⟩ := h
  unfold CountC at hc; omega

theorem steps_invW_A (fl : Flags) (hg : fl.readyGuarded = true) (hf : fl.resubmitRegisters = true) (j : Nat) :
    ∀ m k s, InvA s → PhA s j k → InvW s → m ≤ k → InvW (St.steps fl s m) := by
  intro m
  induction m with
  | zero => intro k s _ _ hW _; exact hW
  | succ m ih =>
    intro k s hA hP hW hm
    obtain ⟨k', rfl⟩ : ∃ k', k = k' + 1 := ⟨k - 1, by omega⟩
    exact ih k' (s.step fl) (step_invA fl hg s hA) (stepA_succ fl s j k' hA.ctl hP)
      (step_invW fl hf s (phaseA_nonneg hP) hW) (by omega)

theorem apply_invW (fl : Flags) (hg : fl.readyGuarded = true) (hf : fl.resubmitRegisters = true) (s : St) (ev : Ev)
    (hA : InvA s) (hB : InvB s) (h : InvW s) : InvW (s.apply fl ev) := by
  have hnn : 0 ≤ s.unfinished := by have := hB.count; unfold CountC at this; omega
  cases ev with
  | step => exact step_invW fl hf s hnn h
  | wait =>
    refine ⟨fun hw => (by cases hw), fun _ => ?_⟩
    simp only [St.apply, List.mem_append, List.mem_singleton]; exact Or.inr trivial
  | deliver k =>
    simp only [St.apply]; split
    · exact ⟨h.sleepingBusy, fun hp => List.mem_append_left _ (h.pendingRun hp)⟩
    · exact h
  | submit ident deps code marker =>
    rw [apply_submit]
    have hW1 : InvW (submitPre s ident deps code marker) :=
      ⟨h.sleepingBusy, fun hp => List.mem_append_left _ (h.pendingRun hp)⟩
    have hA1 := submitPre_invA s ident deps code marker hA
    have hP1 := submitPre_phaseA s ident deps code marker hB
    have hWk := steps_invW_A fl hg hf s.n s.ready.length s.ready.length _ hA1 hP1 hW1 (Nat.le_refl _)
    have hPk := (steps_phaseA fl hg s.n s.ready.length s.ready.length _ hA1 hP1 (Nat.le_refl _)).2
    rw [Nat.sub_self] at hPk
    have hW2 := step_invW fl hf _ (phaseA_nonneg hPk) hWk
    rw [← steps_succ_eq] at hW2
    generalize St.steps fl (submitPre s ident deps code marker) (s.ready.length + 1) = s2 at hW2
    unfold submitPost
    split
    · exact ⟨hW2.sleepingBusy, hW2.pendingRun⟩
    · exact ⟨hW2.sleepingBusy, fun hp => List.mem_append_left _ (hW2.pendingRun hp)⟩

theorem init_invW (totals : List Nat) : InvW (St.init totals) :=
  ⟨fun hw => (by cases hw), fun hp => (by rcases hp with hp | hp <;> cases hp)⟩

theorem reachable_invW {fl : Flags} (hg : fl.readyGuarded = true) (hf : fl.resubmitRegisters = true)
    {totals : List Nat} {s : St} (h : Reachable fl totals s) : InvW s := by
  induction h with
  | init => exact init_invW totals
  | next hr _ ih => exact apply_invW fl hg hf _ _ (reachable_invA hg hr) (reachable_invB hg hf hr) ih

/-- at quiescence `experiment.wait()` is not hanging: nobody waits, or the waiter has completed. -/
theorem quiescent_waiter {fl : Flags} (hg : fl.readyGuarded = true) (hf : fl.resubmitRegisters = true)
    (ha : fl.abortRechecks = true) {totals : List Nat} {s : St} (h : Reachable fl totals s)
    (hr : s.ready = []) (ht : s.threads = []) (hfit : TokFit s) :
    s.waiter = .none ∨ s.waiter = .returned ∨ s.waiter = .raised := by
  have hW := reachable_invW hg hf h
  have hall := quiescent_final hg hf ha h hr ht hfit
  have hc := (reachable_invB hg hf h).count
  unfold CountC at hc
  rw [(actN_zero_iff s).2 hall] at hc
  have hu : s.unfinished = 0 := by simpa using hc
  cases hw : s.waiter with
  | none => exact Or.inl rfl
  | returned => exact Or.inr (Or.inl rfl)
  | raised => exact Or.inr (Or.inr rfl)
  | sleeping => exact absurd hu (hW.sleepingBusy hw)
  | starting => have := hW.pendingRun (Or.inl hw); rw [hr] at this; cases this
  | notified => have := hW.pendingRun (Or.inr hw); rw [hr] at this; cases this



/-! ## a livelock of aborted starts (finite, decidable snapshot of a state) -/

/-- all fields of a job record, as a comparable value. -/
structure JobSnap where
  ident : Nat
  deps : List Dep
  code : Nat
  marker : Bool
  state : JS
  unsat : Int
  event : Bool
  sleeping : Bool
  pc : PC
  held : List Nat
  launches : Nat
  failedDep : Bool
  dependents : List (Nat × Nat)
  deriving DecidableEq

/-- everything the scheduler will ever look at when no further job is submitted: the records of the submitted jobs
    with their dependents, the tokens with their dependents, both queues, the counters and the waiter. -/
structure Snap where
  jobs : List JobSnap
  toks : List (Nat × Int × List (Nat × Nat))
  ready : List Cb
  threads : List (TK × Nat)
  unfinished : Int
  failed : List Nat
  waiter : WS
  deriving DecidableEq

def jobSnap (s : St) (j : Nat) : JobSnap :=
  let jb := s.jobs j
  { ident := jb.ident, deps := jb.deps, code := jb.code, marker := jb.marker, state := jb.state, unsat := jb.unsat,
    event := jb.event, sleeping := jb.sleeping, pc := jb.pc, held := jb.held, launches := jb.launches,
    failedDep := jb.failedDep, dependents := s.jobDeps j }

def snap (s : St) : Snap :=
  { jobs := (List.range s.n).map (jobSnap s),
    toks := (List.range s.ntok).map (fun t => (s.total t, s.avail t, s.tokDeps t)),
    ready := s.ready, threads := s.threads, unfinished := s.unfinished, failed := s.failed, waiter := s.waiter }

/-- C releases the second token, then A = [t0, t1] and B = [t1, t0] (one unit of each) … -/
def livelockSubmits : List Ev :=
  [.submit 2 [.tok 1 1] 0 false, .submit 0 [.tok 0 1, .tok 1 1] 0 false, .submit 1 [.tok 1 1, .tok 0 1] 0 false]
def livelockPrefix : List Ev :=
  [.step, .deliver 0, .step, .deliver 0, .step, .deliver 1, .step, .deliver 2, .step, .step, .step, .step,
   .deliver 2, .step, .deliver 0, .deliver 0]
/-- … and this cycle of 13 events (every queued callback runs, every helper thread is delivered) repeats for ever. -/
def livelockCycle : List Ev :=
  [.step, .step, .deliver 1, .deliver 0, .step, .step, .step, .step, .deliver 1, .deliver 0, .step, .step, .step]

/-- the three earlier repairs, but an aborted start keeps its partial locks until its lock-release segment. -/
def flNoRelease : Flags :=
  { readyGuarded := true, resubmitRegisters := true, abortRechecks := true, abortReleases := false }

def livelockState (k : Nat) : St :=
  runEvs flNoRelease [1, 1] (livelockSubmits ++ livelockPrefix ++ (List.replicate k livelockCycle).flatten)

theorem livelock_cycle_snap :
    snap (livelockState 1) = snap (livelockState 0) ∧ snap (livelockState 2) = snap (livelockState 0) ∧
    snap (livelockState 3) = snap (livelockState 0) := by decide +kernel

theorem livelock_cycle_facts :
    ((livelockState 0).jobs 0).pc = .finished .done ∧
    ((livelockState 0).jobs 1).pc = .lockExitAbort ∧ ((livelockState 0).jobs 2).pc = .lockEnter ∧
    ((livelockState 0).jobs 1).launches = 0 ∧ ((livelockState 0).jobs 2).launches = 0 ∧
    (livelockState 0).threads = [] ∧ (livelockState 0).ready = [.resume 2, .resume 1] ∧
    (livelockState 0).avail 0 = 0 ∧ (livelockState 0).avail 1 = 1 := by decide

/-- with the `abortReleases` repair the same events do not loop: after the cycle B has been launched; after three turns
    and nine more events everything is final, A and B have both run once. -/
def livelockFixedTail : List Ev := [.deliver 0, .step, .step, .step, .step, .step, .step, .deliver 0, .step]

def livelockFixedState (k : Nat) (tail : List Ev) : St :=
  runEvs flOK [1, 1] (livelockSubmits ++ livelockPrefix ++ (List.replicate k livelockCycle).flatten ++ tail)

theorem livelock_fixed_facts :
    ((livelockFixedState 1 []).jobs 2).launches = 1 ∧
    (livelockFixedState 3 livelockFixedTail).n = 3 ∧
    ((livelockFixedState 3 livelockFixedTail).jobs 0).pc = .finished .done ∧
    ((livelockFixedState 3 livelockFixedTail).jobs 1).pc = .finished .done ∧
    ((livelockFixedState 3 livelockFixedTail).jobs 2).pc = .finished .done ∧
    ((livelockFixedState 3 livelockFixedTail).jobs 1).launches = 1 ∧
    ((livelockFixedState 3 livelockFixedTail).jobs 2).launches = 1 ∧
    (livelockFixedState 3 livelockFixedTail).ready = [] ∧ (livelockFixedState 3 livelockFixedTail).threads = [] ∧
    (livelockFixedState 3 livelockFixedTail).avail 0 = 1 ∧ (livelockFixedState 3 livelockFixedTail).avail 1 = 1 ∧
    (livelockFixedState 3 livelockFixedTail).unfinished = 0 := by decide



/-! ## with `abortReleases`, an aborted start changes no token state -/

theorem check_avail_held (fl : Flags) (s : St) (j d : Nat) :
    (s.check fl j d).avail = s.avail ∧ ∀ i, ((s.check fl j d).jobs i).held = (s.jobs i).held := by
  refine ⟨(check_fields fl s j d).1, fun i => ?_⟩
  by_cases hi : i = j
  · subst hi; rw [check_job]; exact (depChanged_state fl _ d _).2.2.2.2.1
  · rw [check_job_ne _ _ _ _ _ hi]

/-- key lemma for termination: for `abortReleases = true`, the start segment of job `j` (pc `lockEnter`, nothing held,
    as invariant G guarantees) that fails to take its `d`-th lock leaves `avail` and every job's `held` as they were
    (it only queues notifications, re-checks the failing dependency and moves `j` to `lockExitAbort`). -/
theorem abort_changes_nothing (fl : Flags) (ha : fl.abortReleases = true) (s : St) (j d : Nat)
    (hpc : (s.jobs j).pc = .lockEnter) (hh : (s.jobs j).held = [])
    (hfail : (s.acquireAll j (s.jobs j).deps.length 0).2 = some d) :
    (s.resume fl j).avail = s.avail ∧ (∀ i, ((s.resume fl j).jobs i).held = (s.jobs i).held) ∧
    ((s.resume fl j).jobs j).pc = .lockExitAbort := by
  rw [resume_lockEnter fl s j hpc]
  obtain ⟨acq, av', e1, e2, _, _⟩ := acquireAll_eq s j (s.jobs j).deps.length 0
  generalize hr : St.acquireAll s j (s.jobs j).deps.length 0 = r at e1 hfail
  obtain ⟨s1, fa⟩ := r
  simp only at e1 hfail
  subst hfail
  unfold enterTail abortRelease
  simp only [ha, if_true]
  obtain ⟨notes, _, e3⟩ := releaseAll_eq s1 j (s1.jobs j).held
  have hj1 : s1.jobs j = { (s.jobs j) with held := acq } := by rw [e1]; simp [hh]
  have hc := check_avail_held fl (s1.releaseAll j (s1.jobs j).held) j d
  refine ⟨?_, ?_, ?_⟩
  · show ((s1.releaseAll j (s1.jobs j).held).check fl j d).avail = s.avail
    rw [hc.1, e3]
    funext t
    simp only [put_avail]
    rw [hj1]
    simp only
    have := e2 t
    rw [e1]; simp only [put_avail]
    omega
  · intro i
    show ((((s1.releaseAll j (s1.jobs j).held).check fl j d).put j _ [] [(.lockExit, j)]).jobs i).held = _
    by_cases hi : i = j
    · subst hi
      simp only [put_jobs, upd_same]
      rw [hc.2, e3]; simp [hh]
    · simp only [put_jobs, upd_ne _ _ hi]
      rw [hc.2, e3]
      simp only [put_jobs, upd_ne _ _ hi]
      rw [e1]; simp [upd_ne _ _ hi]
  · simp



/-- what a failed acquisition had taken: indices before the failing one (or held before). -/
theorem acquireAll_held_lt (j : Nat) : ∀ k d (s : St) (e : Nat), (St.acquireAll s j k d).2 = some e →
    d ≤ e ∧ ∀ i ∈ ((St.acquireAll s j k d).1.jobs j).held, i ∈ (s.jobs j).held ∨ (d ≤ i ∧ i < e) := by
  intro k
  induction k with
  | zero => intro d s e h; simp [St.acquireAll] at h
  | succ k ih =>
    intro d s e h
    cases ho : ((s.jobs j).deps.getD d default).origin with
    | job o =>
      simp only [St.acquireAll, ho] at h ⊢
      obtain ⟨h1, h2⟩ := ih (d + 1) _ e h
      refine ⟨by omega, fun i hi => ?_⟩
      rcases h2 i hi with h3 | h3
      · simp only [put_jobs, upd_same, List.mem_append, List.mem_singleton] at h3
        rcases h3 with h3 | h3
        · exact Or.inl h3
        · exact Or.inr ⟨by omega, by omega⟩
      · exact Or.inr ⟨by omega, h3.2⟩
    | tok t c =>
      simp only [St.acquireAll, ho] at h ⊢
      by_cases hlt : s.avail t < c
      · simp only [hlt, if_true] at h ⊢
        simp only [Option.some.injEq] at h
        subst h
        exact ⟨Nat.le_refl _, fun i hi => Or.inl hi⟩
      · simp only [hlt, if_false] at h ⊢
        obtain ⟨h1, h2⟩ := ih (d + 1) _ e h
        refine ⟨by omega, fun i hi => ?_⟩
        rcases h2 i hi with h3 | h3
        · simp only [put_jobs, upd_same, List.mem_append, List.mem_singleton] at h3
          rcases h3 with h3 | h3
          · exact Or.inl h3
          · exact Or.inr ⟨by omega, by omega⟩
        · exact Or.inr ⟨by omega, h3.2⟩

theorem sum_map_zero (l : List Nat) (f : Nat → Nat) (h : ∀ i ∈ l, f i = 0) : (l.map f).sum = 0 := by
  induction l with
  | nil => rfl
  | cons a l ih =>
    simp only [List.map_cons, List.sum_cons]
    rw [h a (List.mem_cons_self ..), ih (fun i hi => h i (List.mem_cons_of_mem _ hi))]

/-- second key lemma for termination: with `abortReleases`, if the failing token is not requested by another
    dependency of the same job, an aborted start records the failing dependency as WAIT — so the job's counter is
    positive and it goes back to sleep instead of retrying at once. -/
theorem abort_records_wait (fl : Flags) (ha : fl.abortReleases = true) (s : St) (j e : Nat)
    (hpc : (s.jobs j).pc = .lockEnter) (hh : (s.jobs j).held = [])
    (hfail : (s.acquireAll j (s.jobs j).deps.length 0).2 = some e)
    (hnodup : ∀ i t c c', i ≠ e → (depAt (s.jobs j) e).origin = .tok t c → (depAt (s.jobs j) i).origin ≠ .tok t c') :
    e < (s.jobs j).deps.length ∧ (depAt ((s.resume fl j).jobs j) e).cur = .wait ∧
    ∃ t c, (depAt (s.jobs j) e).origin = .tok t c ∧ s.avail t < c := by
  have hlt := acquireAll_lt s j (s.jobs j).deps.length 0 e hfail
  have hfails := ((acquireAll_ind (fun _ => True) j (0 + (s.jobs j).deps.length) (fun _ _ _ _ _ => trivial)
    (s.jobs j).deps.length 0 s rfl trivial).2 e hfail).2
  have hheld := (acquireAll_held_lt j (s.jobs j).deps.length 0 s e hfail).2
  obtain ⟨acq, av', e1, e2, _, _⟩ := acquireAll_eq s j (s.jobs j).deps.length 0
  rw [resume_lockEnter fl s j hpc]
  generalize hr : St.acquireAll s j (s.jobs j).deps.length 0 = r at e1 hfail hfails hheld
  obtain ⟨s1, fa⟩ := r
  simp only at e1 hfail hfails hheld
  subst hfail
  have hj1 : s1.jobs j = { (s.jobs j) with held := acq } := by rw [e1]; simp [hh]
  have hlen : e < (s.jobs j).deps.length := by simpa using hlt
  refine ⟨hlen, ?_⟩
  -- the failing dependency is a token dependency, and `j` took nothing of that token
  unfold acqFails at hfails
  rw [hj1] at hfails
  simp only at hfails
  cases ho : ((s.jobs j).deps.getD e default).origin with
  | job o => rw [ho] at hfails; exact absurd hfails id
  | tok t c =>
    rw [ho] at hfails
    simp only at hfails
    have hacq0 : sumTok (s.jobs j).deps acq t = 0 := by
      unfold sumTok
      apply sum_map_zero
      intro i hi
      have hi' : i ∈ (s1.jobs j).held := by rw [hj1]; exact hi
      rcases hheld i hi' with h3 | h3
      · rw [hh] at h3; cases h3
      · have hne : i ≠ e := by omega
        have := hnodup i t c
        unfold tokCount
        cases hoi : ((s.jobs j).deps.getD i default).origin with
        | job _ => rfl
        | tok t' c' =>
          simp only
          split
          · rename_i htt; subst htt
            exact absurd hoi (this c' hne ho)
          · rfl
    have hav1 : s1.avail t = s.avail t := by
      have := e2 t
      rw [hacq0] at this
      rw [e1]; simp only [put_avail]; omega
    -- after the immediate release the token is as it was, hence still unavailable
    unfold enterTail abortRelease
    simp only [ha, if_true, put_jobs, upd_same]
    obtain ⟨notes, _, e3⟩ := releaseAll_eq s1 j (s1.jobs j).held
    have hrel_job : ((s1.releaseAll j (s1.jobs j).held).jobs j) = { (s.jobs j) with held := [] } := by
      rw [releaseAll_job, hj1]
    have hrel_av : (s1.releaseAll j (s1.jobs j).held).avail t = s.avail t := by
      rw [e3]; simp only [put_avail]
      rw [hj1]; simp only
      rw [hacq0, hav1]; simp
    have hA := depChanged_depAt fl ((s1.releaseAll j (s1.jobs j).held).jobs j) e
      ((s1.releaseAll j (s1.jobs j).held).status (depAt ((s1.releaseAll j (s1.jobs j).held).jobs j) e).origin)
      (by rw [hrel_job]; exact hlen)
    have ej : ((s1.releaseAll j (s1.jobs j).held).check fl j e).jobs j = _ := check_job fl _ j e
    refine ⟨?_, t, c, ho, by rw [hav1] at hfails; exact hfails⟩
    show (depAt { (((s1.releaseAll j (s1.jobs j).held).check fl j e).jobs j) with pc := .lockExitAbort } e).cur = .wait
    have : (depAt { (((s1.releaseAll j (s1.jobs j).held).check fl j e).jobs j) with pc := PC.lockExitAbort } e)
        = depAt (((s1.releaseAll j (s1.jobs j).held).check fl j e).jobs j) e := rfl
    rw [this, ej]
    have hcur := hA.2.2.2
    unfold depAt at hcur ⊢
    rw [hcur, hrel_job]
    simp only
    rw [ho]
    simp only [St.status, hrel_av]
    rw [hav1] at hfails
    split
    · omega
    · rfl

/-- a single job with two dependencies on the same token whose sum exceeds the total (each one alone fits) spins for
    ever, even with all four repairs: prefix `[submit, step]`, cycle of 6 events. -/
def selfSpinState (k : Nat) : St :=
  runEvs flOK [1] ([.submit 0 [.tok 0 1, .tok 0 1] 0 false, .step] ++
    (List.replicate k [Ev.deliver 0, .step, .deliver 0, .step, .step, .step]).flatten)

theorem self_spin_snap :
    snap (selfSpinState 1) = snap (selfSpinState 0) ∧ snap (selfSpinState 2) = snap (selfSpinState 0) ∧
    ((selfSpinState 0).jobs 0).pc = .lockEnter ∧ ((selfSpinState 0).jobs 0).launches = 0 := by decide +kernel


end XpmVerif.SchedFinal
