import XpmVerif.Proofs.FileTokWatch
/-! M2' — delivery of file-system events under arbitrary interleaving: the queue of a process is FIFO, other steps only
    append to it, so the `i`-th queued event is dispatched by the `(i+1)`-th dispatch step of its observer, whatever the
    other processes (and the process's own scheduler) do in between.  This is the fairness measure behind
    "a waiting dependency is eventually notified": the number of dispatch steps still needed never grows. -/
namespace XpmVerif.FileTokens

theorem upd_pending_same (procs : Proc → PSt) (q p : Proc) (P : PSt) (h : q = p → P.pending = (procs p).pending) :
    (upd procs q P p).pending = (procs p).pending := by
  by_cases hq : p = q
  · subst hq; simp [h rfl]
  · simp [upd_other _ _ _ _ hq]

/-- every step other than a dispatch by `p`'s own observer, the death of `p` or its replacement leaves the queue of `p`
    as a prefix of the new one. -/
theorem pending_prefix (cfg : Cfg) (s : St) (e : Ev) (p : Proc) (h1 : e ≠ .fsEvent p) (h2 : e ≠ .drop p) (h3 : e ≠ .restart p) :
    ∃ l, ((apply cfg s e).1.procs p).pending = (s.procs p).pending ++ l := by
  cases e with
  | acquireBegin q f =>
    simp only [apply]; split
    · exact ⟨[], by simp only [List.append_nil]; exact upd_pending_same _ _ _ _ (fun e => by subst e; rfl)⟩
    · obtain ⟨l, hl⟩ := bc_pending_app (upd s.procs q { (recount cfg s.disk (s.procs q)) with avail := (recount cfg s.disk (s.procs q)).avail - (cfg.req f : Nat) }) (.created f) p
      refine ⟨l, ?_⟩
      rw [hl, upd_pending_same _ _ _ _ (fun e => by subst e; rfl)]
  | acquireEnd q =>
    simp only [apply]; split
    · split
      · rename_i f _ hq
        obtain ⟨l, hl⟩ := bc_pending_app (upd s.procs q { (s.procs q) with cache := addCache (s.procs q).cache f }) (.modified f) p
        exact ⟨l, by rw [hl, upd_pending_same _ _ _ _ (fun e => by subst e; rfl)]⟩
      · exact ⟨[], by simp⟩
    · exact ⟨[], by simp⟩
  | release q f =>
    simp only [apply]; split
    · obtain ⟨l, hl⟩ := bc_pending_app (upd s.procs q { (recount cfg s.disk (s.procs q)) with cache := (recount cfg s.disk (s.procs q)).cache.erase f, avail := (recount cfg s.disk (s.procs q)).avail + (cfg.req f : Nat) }) (.deleted f) p
      exact ⟨l, by rw [hl, upd_pending_same _ _ _ _ (fun e => by subst e; rfl)]⟩
    · exact ⟨[], by simp only [List.append_nil]; exact upd_pending_same _ _ _ _ (fun e => by subst e; rfl)⟩
  | fsEvent q =>
    have hq : p ≠ q := by intro e; subst e; exact h1 rfl
    simp only [apply]; split
    · exact ⟨[], by simp⟩
    · exact ⟨[], by simp [upd_other _ _ _ _ hq]⟩
  | reclaim q f =>
    simp only [apply]; split
    · obtain ⟨l, hl⟩ := bc_pending_app (upd s.procs q { (s.procs q) with watch := (s.procs q).watch.erase f }) (.deleted f) p
      exact ⟨l, by rw [hl, upd_pending_same _ _ _ _ (fun e => by subst e; rfl)]⟩
    · exact ⟨[], by simp only [List.append_nil]; exact upd_pending_same _ _ _ _ (fun e => by subst e; rfl)⟩
  | jobGone f => exact ⟨[], by simp [apply]⟩
  | drop q =>
    have hq : p ≠ q := by intro e; subst e; exact h2 rfl
    exact ⟨[], by simp [apply, upd_other _ _ _ _ hq]⟩
  | restart q =>
    have hq : p ≠ q := by intro e; subst e; exact h3 rfl
    exact ⟨[], by simp [apply, upd_other _ _ _ _ hq]⟩
  | recreate q => exact ⟨[], by simp [apply]⟩

/-- a dispatch step of a live observer with tolerant callbacks pops exactly the head of the queue. -/
theorem fsEvent_pops (cfg : Cfg) (ht : cfg.tolerant = true) (s : St) (p : Proc) (e : FsEv) (rest : List FsEv)
    (hp : (s.procs p).pending = e :: rest) :
    ((apply cfg s (.fsEvent p)).1.procs p).pending = rest ∧
    ((apply cfg s (.fsEvent p)).1.procs p).alive = (s.procs p).alive := by
  simp only [apply, hp, upd_same]
  have ha := dispatch_alive_tolerant cfg s.disk { (s.procs p) with pending := rest } e ht
  refine ⟨?_, ha⟩
  cases e with
  | deleted h => simp only [dispatch]; split <;> rfl
  | created h | modified h =>
    simp only [dispatch, ht, if_true]
    split
    · rfl
    · split <;> rfl

/-- number of dispatch steps of `p` in a run. -/
def dispatches (p : Proc) : List Ev → Nat
  | [] => 0
  | e :: r => (if e = .fsEvent p then 1 else 0) + dispatches p r

/-- FIFO delivery under any interleaving: if the queue of `p` is `pre ++ ev :: post` and a run (any steps of any process,
    `p` neither dying nor being replaced) contains more than `pre.length` dispatch steps of `p`, then the run passes through a
    state in which `ev` is at the head of `p`'s queue and the next step of the run is its dispatch. -/
theorem fifo_delivery (cfg : Cfg) (ht : cfg.tolerant = true) (p : Proc) (ev : FsEv) :
    ∀ (evs : List Ev) (s : St) (pre post : List FsEv),
    (s.procs p).pending = pre ++ ev :: post →
    (∀ e ∈ evs, e ≠ .drop p ∧ e ≠ .restart p) →
    pre.length < dispatches p evs →
    ∃ (before after : List Ev) (post' : List FsEv), evs = before ++ .fsEvent p :: after ∧
      ((run cfg s before).procs p).pending = ev :: post' ∧ dispatches p before = pre.length := by
  intro evs
  induction evs with
  | nil => intro s pre post _ _ hlt; simp [dispatches] at hlt
  | cons e rest ih =>
    intro s pre post hp hne hlt
    have hne' : ∀ e' ∈ rest, e' ≠ .drop p ∧ e' ≠ .restart p := fun e' he' => hne e' (List.mem_cons_of_mem _ he')
    by_cases he : e = .fsEvent p
    · subst he
      cases pre with
      | nil =>
        exact ⟨[], rest, post, rfl, by simpa [run] using hp, by simp [dispatches]⟩
      | cons x pre' =>
        have hpop := (fsEvent_pops cfg ht s p x (pre' ++ ev :: post) (by simpa using hp)).1
        have hlt' : pre'.length < dispatches p rest := by
          simp only [dispatches, if_true, List.length_cons] at hlt; omega
        obtain ⟨before, after, post', h1, h2, h3⟩ := ih _ pre' post hpop hne' hlt'
        refine ⟨.fsEvent p :: before, after, post', by simp [h1], by simpa [run] using h2, ?_⟩
        simp [dispatches, h3]; omega
    · obtain ⟨l, hl⟩ := pending_prefix cfg s e p he (hne e (by simp)).1 (hne e (by simp)).2
      have hp' : ((apply cfg s e).1.procs p).pending = pre ++ ev :: (post ++ l) := by rw [hl, hp]; simp
      have hlt' : pre.length < dispatches p rest := by
        simp only [dispatches, he, if_false] at hlt; omega
      obtain ⟨before, after, post', h1, h2, h3⟩ := ih _ pre (post ++ l) hp' hne' hlt'
      refine ⟨e :: before, after, post', by simp [h1], by simpa [run] using h2, ?_⟩
      simp [dispatches, he, h3]

end XpmVerif.FileTokens

namespace XpmVerif.FileTokens

theorem allEnabled_append_left (cfg : Cfg) : ∀ (a b : List Ev) (s : St), allEnabled cfg s (a ++ b) = true → allEnabled cfg s a = true := by
  intro a
  induction a with
  | nil => intro b s _; rfl
  | cons e r ih =>
    intro b s h
    simp only [List.cons_append, allEnabled, Bool.and_eq_true] at h ⊢
    exact ⟨h.1, ih b _ h.2⟩

end XpmVerif.FileTokens
