import Lean.Data.Json
/-! Small helpers for the line-protocol drivers (not used by any model or theorem). -/
namespace XpmVerif.J
open Lean

def fld (j : Json) (k : String) : Json := (j.getObjVal? k).toOption.getD Json.null
def nat (j : Json) : Nat := (j.getNat?).toOption.getD 0
def int (j : Json) : Int := (j.getInt?).toOption.getD 0
def str (j : Json) : String := (j.getStr?).toOption.getD ""
def arr (j : Json) : List Json := ((j.getArr?).toOption.getD #[]).toList
def bool (j : Json) : Bool := (j.getBool?).toOption.getD false
def isNull (j : Json) : Bool := match j with | .null => true | _ => false
def natF (j : Json) (k : String) : Nat := nat (fld j k)
def intF (j : Json) (k : String) : Int := int (fld j k)
def strF (j : Json) (k : String) : String := str (fld j k)
def arrF (j : Json) (k : String) : List Json := arr (fld j k)
def boolF (j : Json) (k : String) : Bool := bool (fld j k)
def optNat (j : Json) : Option Nat := if isNull j then none else some (nat j)

/-- read stdin line by line, thread a state, print one output line per input line. -/
partial def loop {σ : Type} (step : σ → Json → σ × Json) (s : σ) : IO Unit := do
  let stdin ← IO.getStdin
  let stdout ← IO.getStdout
  let rec go (s : σ) : IO Unit := do
    let line ← stdin.getLine
    if line.isEmpty then return ()
    let t := line.trimAscii.toString
    if t.isEmpty then go s else
    match Json.parse t with
    | .error e => stdout.putStrLn (Json.compress (Json.mkObj [("error", Json.str s!"parse: {e}")])); go s
    | .ok j =>
      let (s', out) := step s j
      stdout.putStrLn (Json.compress out)
      go s'
  go s
  stdout.flush

end XpmVerif.J
