"""C09 — tokens are always given back and waiting jobs eventually run (one scheduler, in-process token)."""
from .. import common
from . import _sched, c08files, c09files

PROP = "C09"
MODULES = ["XpmVerif.Properties.C09"] + c09files.MODULES
GEN = dict(max_jobs=7, max_tokens=3, resubmit=False, markers=True, fail_p=0.3)
RULE = ('random workloads with up to 3 tokens, failures and aborted starts x random schedules + exhaustive schedules of 5 small workloads; monitors: at quiescence every token shows its total and no job whose request fits is left waiting; non-trivial = some dependency and >= 2 out-of-FIFO deliveries')


def prove(ctx):
    _sched.prove(ctx, MODULES, extra_msgs=[c08files.translate(ctx)])


def _orphan_token_scenario(ctx):
    """"death of its scheduler followed by the job's own end": the real experiment process is killed while a job holds a file
    token at capacity; the experiment is run again in a new process, whose CounterToken must reclaim the orphaned token
    file and re-check the waiting job (the witness of fixed finding F26, shared with C11's real kill/restart matrix)"""
    import json
    from . import c11
    f26 = next((f for f in json.loads((common.VERIF / "known_findings.json").read_text()) if f.get("id") == "F26"), None)
    if not f26 or "real" not in (f26.get("witness") or {}):
        return
    case = {"real": f26["witness"]["real"]}
    fails = c11._replay_case(ctx, case)
    ctx.case({"scenario": "orphan-token-after-scheduler-death", "real": case["real"]}, True)
    ctx.count("orphan_token_scenario", "fails" if fails else "ok")
    for key, what in fails:
        if "token" in key or "hang" in key or "finish" in what:
            ctx.monitor_fail("orphan-token-not-given-back", f"{what} [scheduler killed while a job holds the token at capacity; run again]", case)


def correspond(ctx):
    _sched.run(ctx, PROP, GEN, RULE, 1500, 25000)
    c09files.correspond(ctx)   # file-based token shared by several schedulers (model M2')
    _orphan_token_scenario(ctx)


def search(ctx):
    _sched.search(ctx, PROP, GEN)
    c09files.search(ctx)


def run_witness(ctx, finding):
    if common.run_script_witness(ctx, finding, timeout=300):
        return
    c09files.run_witness(ctx, finding) or _sched.run_witness(ctx, PROP, finding)


def replay(ctx, obj):
    rc0 = 0
    for x in obj.get("failures", []):
        if x.get("case", {}).get("scenario") == "orphan-token-after-scheduler-death" or (x.get("case", {}).get("real") and "scenario" not in x["case"]):
            from . import c11
            fails = c11._replay_case(ctx, {"real": x["case"]["real"]})
            print("replay:", fails[:2] if fails else "no failure on this tree")
            if fails:
                rc0 = 1
                print(f"VIOLATION property={PROP} replay=(replayed)")
    obj = dict(obj, failures=[x for x in obj.get("failures", []) if not x.get("case", {}).get("real")])
    return max(rc0, _replay_rest(ctx, obj))


def _replay_rest(ctx, obj):
    mine = {"failures": [x for x in obj.get("failures", []) if x["case"].get("engine") != "tokeng" and "scenario" not in x["case"]]}
    return max(c09files.replay(ctx, obj), _sched.replay_events(ctx, PROP, mine))
