"""Stand-alone witness (public API of experimaestro.tokens only; exit 1 = the defect shows, 0 = it does not).

C08: "at no instant do the jobs holding a token hold more than its total, whatever the number of schedulers or processes
sharing the token directory".

`TokenFile.watch` (the thread a scheduler process starts for every token file of *another* process) decides that the job is
gone while it holds the job lock (no pid file / the process has ended) and unlinks the token file *after* it has given the
job lock back, without looking again:

        with fasteners.InterProcessLock(lockpath): ...decide...
        if process is not None: process.wait()
        self.delete()                    # <- no lock, no second look

Between the decision and the unlink the owner of the job may give the token back (an aborted start releases it at once) and
take it again for the same job (the start is retried: same file name).  The stale thread then removes the file of the job
that is now running; the next recount of any process sees the capacity as free and a second job starts.

Two OS processes: this one is scheduler A (it takes the job lock around its token operations, as `Scheduler.aio_start`
does); the child is scheduler B: a real `CounterToken` on the same directory, whose scan starts the real `TokenFile.watch`
thread for A's file.  The child holds that thread at the call of `TokenFile.delete` until A says go (a file): a legal
schedule of the thread — the code that runs is unchanged."""
import logging
import os
import shutil
import subprocess
import sys
import tempfile
import time
import types
from pathlib import Path

CHILD = r'''
import sys, time, types, threading, logging
from pathlib import Path
logging.disable(logging.CRITICAL)
import experimaestro.tokens as tk
root = Path(sys.argv[1])
tk.ipcom = lambda: types.SimpleNamespace(fswatch=lambda *a, **k: None)
real_delete = tk.TokenFile.delete
def delete(self):
    if threading.current_thread() is not threading.main_thread():      # the watcher thread: hold it at the unlink
        (root / "at_delete").touch()
        t0 = time.time()
        while not (root / "go").exists() and time.time() - t0 < 20:
            time.sleep(0.02)
    r = real_delete(self)
    (root / "deleted").touch()
    return r
tk.TokenFile.delete = delete
B = tk.CounterToken("t", root / "tok", 1)            # scheduler B: the scan finds jobJ.token and watches job J
t0 = time.time()
while not (root / "a_done").exists() and time.time() - t0 < 30:
    time.sleep(0.02)
t0 = time.time()
while not (root / "deleted").exists() and time.time() - t0 < 5:
    time.sleep(0.02)
d = B.dependency(1)
d.target = types.SimpleNamespace(identifier="jobK", basepath=root / "jobs" / "jobK" / "task")
try:
    B.acquire(d)                                     # B starts job K on the same token of 1
    print("B-TOOK-THE-TOKEN", flush=True)
except Exception as e:
    print("B-REFUSED", type(e).__name__, flush=True)
import os
os._exit(0)      # watcher threads of B may still wait for the job lock of the running job J
'''

logging.disable(logging.CRITICAL)
import fasteners  # noqa: E402
import experimaestro.tokens as tk  # noqa: E402

tk.ipcom = lambda: types.SimpleNamespace(fswatch=lambda *a, **k: None)
root = Path(tempfile.mkdtemp(prefix="xv-stale-watcher-"))


def wait_for(p, timeout):
    t0 = time.time()
    while not p.exists() and time.time() - t0 < timeout:
        time.sleep(0.02)
    return p.exists()


child = None
try:
    A = tk.CounterToken("t", root / "tok", 1)        # scheduler process A
    base = root / "jobs" / "jobJ" / "task"
    base.parent.mkdir(parents=True)
    jA = A.dependency(1)
    jA.target = types.SimpleNamespace(identifier="jobJ", basepath=base)
    joblock = fasteners.InterProcessLock(base.with_suffix(".lock"))
    with joblock:                                    # first start of job J: token taken, then the start is abandoned
        A.acquire(jA)
        child = subprocess.Popen([sys.executable, "-c", CHILD, str(root)], stdout=subprocess.PIPE, text=True,
                                 env=dict(os.environ, PYTHONWARNINGS="ignore"))
        time.sleep(1.5)                              # B scans and watches while A holds the job lock
    # A's start of J was abandoned *after* B's scan; A has not given the token back yet when B's thread gets the job lock:
    # no pid file => "job already finished"; the thread is now between that decision and the unlink (or, with the second
    # look of the proposed repair, inside the job lock).
    if not wait_for(root / "at_delete", 10):
        print("the watcher thread of B did not reach TokenFile.delete")
        sys.exit(2)
    got = joblock.acquire(timeout=2)                 # the retry of the start takes the job lock (as aio_start does) …
    if not got:
        (root / "go").touch()                        # … the watcher holds it (repaired code): let it finish first
        joblock.acquire()
    A.release(jA)                                    # the abandoned start gives the token back,
    A.acquire(jA)                                    # the retry takes it again: jobJ.token exists again, J runs (lock held)
    files_before = sorted(p.name for p in (root / "tok").glob("*.token"))
    (root / "go").touch()                            # B's stale thread goes on
    wait_for(root / "deleted", 5)
    (root / "a_done").touch()
    out, _ = child.communicate(timeout=40)
    files_after = sorted(p.name for p in (root / "tok").glob("*.token"))
    second = "B-TOOK-THE-TOKEN" in out
    print(f"token of total 1; job J runs and holds it (files {files_before}); after the watcher thread of scheduler B ended: "
          f"files {files_after}; B took the token for job K as well: {second}")
    joblock.release()
    if second:
        print("DEFECT: jobs J and K hold 2 of a token of total 1")
        sys.exit(1)
    sys.exit(0)
finally:
    if child is not None and child.poll() is None:
        child.kill()
    shutil.rmtree(root, ignore_errors=True)
