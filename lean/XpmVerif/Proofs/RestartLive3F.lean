import XpmVerif.Proofs.RestartLive2F
/-! C11, liveness with adoption, FULL statement: every enabled event of the second run keeps `SoundF` and decreases `wmuF`
    (`soundF_step`); runs, deadlock freedom, maximal runs (the analogues of `Proofs/RestartLive3.lean`, `RestartLive4.lean`). -/
set_option linter.unusedSimpArgs false
set_option linter.unusedVariables false
namespace XpmVerif.RestartFull
open XpmVerif.Sched hiding Reachable flOK submitPre submitPost sumTo
open XpmVerif.SchedFinal XpmVerif.Restart XpmVerif.RestartTerm XpmVerif.RestartAbs XpmVerif.RestartLive

section step
variable {fl : Flags} {totals : List Nat} {done0 : Nat → Bool} {w : W}

/-- the link between the run locks held by the scheduler and its jobs, through a callback. -/
theorem lock_stepF (h : SoundF fl totals done0 w) (cb : Cb) (rest : List Cb) (hr : w.a.s.ready = cb :: rest)
    (hn : (stepA fl world w.a).s.n = w.a.s.n)
    (hid : ∀ i, ((stepA fl world w.a).s.jobs i).ident = (w.a.s.jobs i).ident) :
    LockLink (stepA fl world w.a).s (stepA fl world w.a).d := by
  have hP := h.invP
  have hp := pop_inv hP hr
  have e1 : stepA fl world w.a = runCbA fl world { w.a with s := { w.a.s with ready := rest } } cb :=
    stepA_cons fl world w.a cb rest hr
  intro i hi
  rw [stepA_lock] at hi
  obtain ⟨j0, h1, h2, h3⟩ := h.lock i hi
  refine ⟨j0, by rw [hn]; exact h1, by rw [hid]; exact h2, ?_⟩
  rw [e1]
  have h3' : Holds ({ w.a.s with ready := rest } : St) j0 := h3
  by_cases hact : cb ≠ .start j0 ∧ cb ≠ .wake j0 ∧ cb ≠ .resume j0
  · exact holds_of_view (runCbA_frame fl world { w.a with s := { w.a.s with ready := rest } } cb hp j0 hact).1 h3'
  · have hc : cb = .start j0 ∨ cb = .wake j0 ∨ cb = .resume j0 := by
      by_cases c1 : cb = .start j0
      · exact Or.inl c1
      · by_cases c2 : cb = .wake j0
        · exact Or.inr (Or.inl c2)
        · by_cases c3 : cb = .resume j0
          · exact Or.inr (Or.inr c3)
          · exact absurd ⟨c1, c2, c3⟩ hact
    rcases hc with rfl | rfl | rfl
    · obtain ⟨hpc, -⟩ := pre_start _ _ j0 (hp.loc j0)
      rcases h3' with ⟨q, _⟩ | ⟨q | q, _⟩ <;> rw [hpc] at q <;> cases q
    · obtain ⟨hpc, -⟩ := pre_wake _ _ j0 (hp.loc j0)
      rcases h3' with ⟨q, _⟩ | ⟨q | q, _⟩ <;> rw [hpc] at q <;> cases q
    · obtain ⟨-, hth, -⟩ := pre_resume _ _ j0 (hp.loc j0)
      have hpc : (({ w.a.s with ready := rest } : St).jobs j0).pc = .lockEnter := by
        rcases h3' with ⟨q, _⟩ | ⟨_, q⟩
        · exact q
        · exact absurd (hth.symm.trans q) (by decide)
      have := resume_lockEnter_holds fl ({ w.a.s with ready := rest } : St) j0 hpc hth
      simp only [runCbA]
      split <;> exact this

theorem lock_deliverF (h : SoundF fl totals done0 w) (k j : Nat) (kind : TK) (c : Option Nat) (d' : Disk)
    (hk : w.a.s.threads[k]? = some (kind, j))
    (hgate : world.gate w.a.d kind j (w.a.s.jobs j) (w.a.adopted j) = some (c, d')) :
    LockLink (deliverA w.a k j c d').s (deliverA w.a k j c d').d := by
  have hP := h.invP
  have hsame := sameIds_deliverA w.a k j c d'
  have hkm : (kind, j) ∈ w.a.s.threads := List.mem_of_getElem? hk
  have hkind : kindOk kind (w.a.s.jobs j).pc = true := hP.kind _ hkm
  have hct := deliverA_cThr w.a k j c d' kind hk
  intro i hi
  have e2 : (deliverA w.a k j c d').d = d' := rfl
  rw [e2] at hi
  rcases gate_lock _ _ _ _ _ _ _ hgate i hi with ⟨rfl, rfl⟩ | ⟨hold, hne⟩
  · have hpc : (w.a.s.jobs j).pc = .lockEnter := by
      revert hkind; cases (w.a.s.jobs j).pc <;> simp [kindOk]
    have hjn : j < w.a.s.n := by
      apply Classical.byContradiction; intro hn
      have := (hP.fresh j (by omega)).1
      rw [hpc] at this; cases this
    have hc := (hP.loc j).1
    simp only [CtlV, view, hpc, pk] at hc
    have h1 := hct j
    simp only [if_true] at h1
    refine ⟨j, by rw [hsame.n]; exact hjn, by rw [hsame.ident], Or.inl ⟨by rw [deliverA_pc]; exact hpc, by omega⟩⟩
  · obtain ⟨j0, h1, h2, h3⟩ := h.lock i hold
    have hj0 : j ≠ j0 := by
      intro e; subst e
      have := holds_thread_kind hkm hkind h3
      exact hne ⟨this, h2.symm⟩
    refine ⟨j0, by rw [hsame.n]; exact h1, by rw [hsame.ident]; exact h2, ?_⟩
    have h4 := hct j0
    simp only [hj0, if_false, Nat.add_zero] at h4
    unfold Holds at h3 ⊢
    rw [deliverA_pc, h4]; exact h3

/-- **one enabled event of the second run**: the invariant is kept and the measure decreases. -/
theorem soundF_step (hg : fl.readyGuarded = true) (hf : fl.resubmitRegisters = true) (ha : fl.abortRechecks = true)
    (hrel : fl.abortReleases = true) (h : SoundF fl totals done0 w) (e : WEv) (hen : WEnabled w e) :
    SoundF fl totals done0 (w.apply fl e) ∧ wmuF (w.apply fl e) < wmuF w ∧
    (TokFit (absF w.a.adopted w.a.s) → TokFit (absF (w.apply fl e).a.adopted (w.apply fl e).a.s)) := by
  cases e with
  | crash => exact absurd hen id
  | crashAfterSpawn j => exact absurd hen id
  | crashInPrepare j st => exact absurd hen id
  | proc p rm =>
    have hlt := procRank_step w.a.d p rm hen
    have hai := h.ai
    refine ⟨⟨h.reach.apply _, h.good, h.uniq, ?_, ?_⟩, ?_, fun hT => hT⟩
    · intro i hi
      obtain ⟨j0, h1, h2, h3⟩ := h.lock i (procStep_lock _ _ _ _ hi)
      exact ⟨j0, h1, h2, h3⟩
    · refine ⟨hai.held, hai.sleep, hai.cwst, hai.lists, ?_, hai.refs, hai.hs, hai.nec⟩
      intro j hj
      obtain ⟨p1, p2⟩ := hai.proc j hj
      have hle := procStep_le w.a.d p rm
      show (w.a.d.procStep p rm).procOf j < (w.a.d.procStep p rm).np ∧
        ((w.a.d.procStep p rm).procs ((w.a.d.procStep p rm).procOf j)).ident = (w.a.s.jobs j).ident
      rw [procStep_procOf]
      exact ⟨Nat.lt_of_lt_of_le p1 hle.np, by rw [hle.ident _ p1]; exact p2⟩
    · show (cK w.a.s + 1) * (4 * mu (absF w.a.adopted w.a.s) + procRank (w.a.d.procStep p rm)) + gCount w.a.s.ready <
        (cK w.a.s + 1) * (4 * mu (absF w.a.adopted w.a.s) + procRank w.a.d) + gCount w.a.s.ready
      have h1 : 4 * mu (absF w.a.adopted w.a.s) + procRank (w.a.d.procStep p rm) + 1 ≤
          4 * mu (absF w.a.adopted w.a.s) + procRank w.a.d := by omega
      have h2 := Nat.mul_le_mul_left (cK w.a.s + 1) h1
      rw [Nat.mul_add, Nat.mul_one] at h2
      omega
  | sched ev =>
    cases ev with
    | submit _ _ _ _ => exact absurd hen id
    | wait => exact absurd hen id
    | step =>
      have hne : w.a.s.ready ≠ [] := hen
      cases hr : w.a.s.ready with
      | nil => exact absurd hr hne
      | cons cb rest =>
        obtain ⟨g1, g2, g3⟩ := step_absF hg hf ha hrel h cb rest hr
        have tr : StepF w.a (stepA fl world w.a) := by
          by_cases hadopt : ∃ x, cb = .start x ∧ (world.look w.a.d x (w.a.s.jobs x)).adopt = true
          · obtain ⟨x, rfl, had⟩ := hadopt
            exact stepF_adopt h x rest hr had
          · have hna : ∀ x, cb = .start x → (world.look w.a.d x (w.a.s.jobs x)).adopt = false := by
              intro x e
              cases hl : (world.look w.a.d x (w.a.s.jobs x)).adopt with
              | false => rfl
              | true => exact absurd ⟨x, e, hl⟩ hadopt
            exact stepF_na hg h cb rest hr hna
        have hS : SoundF fl totals done0 (w.apply fl (.sched .step)) :=
          ⟨h.reach.apply _, g1, uniq_trans tr.n tr.ident h.uniq, lock_stepF h cb rest hr tr.n tr.ident, tr.ai⟩
        refine ⟨hS, ?_, g2⟩
        have hck : cK (stepA fl world w.a).s = cK w.a.s := cK_trans tr.n tr.lens
        show (cK (stepA fl world w.a).s + 1) * (4 * mu (absF (stepA fl world w.a).adopted (stepA fl world w.a).s) +
            procRank (stepA fl world w.a).d) + gCount (stepA fl world w.a).s.ready <
          (cK w.a.s + 1) * (4 * mu (absF w.a.adopted w.a.s) + procRank w.a.d) + gCount w.a.s.ready
        rw [hck, hr]
        rcases g3 with ⟨hk, e1, e2, e3⟩ | ⟨hk, hmu⟩
        · rw [e3, e2]
          have hplain : isPlainB cb = true := by
            cases cb <;> simp [keepCb] at hk <;> rfl
          have hgrow : gCount (stepA fl world w.a).s.ready ≤ gCount rest := by
            have hna : ∀ x, cb = .start x → (world.look w.a.d x (w.a.s.jobs x)).adopt = false := by
              intro x e; subst e; simp [keepCb] at hk
            obtain ⟨es, -⟩ := stepA_na fl w.a cb rest hr hna
            rw [es]
            obtain ⟨pr1, -⟩ := preSt_lists w.a cb rest
            cases cb with
            | check x d => have := (check_grow fl (preSt w.a (.check x d) rest) x d).1; rw [pr1] at this; simpa [St.runCb] using this
            | notifyCheck x d =>
              rcases notifyCheck_cases fl (preSt w.a (.notifyCheck x d) rest) x d with e | e <;> rw [e]
              · have := (check_grow fl (preSt w.a (.notifyCheck x d) rest) x d).1; rw [pr1] at this; simpa using this
              · rw [pr1]; exact Nat.le_refl _
            | start x => simp [keepCb] at hk
            | wake x => simp [keepCb] at hk
            | resume x => simp [keepCb] at hk
            | register x => simp [keepCb] at hk
            | waiterRun => simp [keepCb] at hk
          rw [gCount_cons, if_pos hplain]
          omega
        · have hpr := stepA_procs fl w.a
          have hgrow : gCount (stepA fl world w.a).s.ready ≤ gCount rest + cK w.a.s := by
            by_cases hadopt : ∃ x, cb = .start x ∧ (world.look w.a.d x (w.a.s.jobs x)).adopt = true
            · obtain ⟨x, rfl, had⟩ := hadopt
              have h0 : (world.look w.a.d x (({ w.a.s with ready := rest } : St).jobs x)).adopt = true := had
              have es : (stepA fl world w.a).s = startJobA fl ({ w.a.s with ready := rest } : St) x (world.look w.a.d x (w.a.s.jobs x)) := by
                rw [stepA_cons fl world w.a (.start x) rest hr]; simp only [runCbA, h0, if_true]
              rw [es, (startJobA_adopt_rec fl _ x _ had).2.2.2.2.2.1]
              show gCount rest ≤ _; omega
            · have hna : ∀ x, cb = .start x → (world.look w.a.d x (w.a.s.jobs x)).adopt = false := by
                intro x e
                cases hl : (world.look w.a.d x (w.a.s.jobs x)).adopt with
                | false => rfl
                | true => exact absurd ⟨x, e, hl⟩ hadopt
              obtain ⟨es, -⟩ := stepA_na fl w.a cb rest hr hna
              obtain ⟨pr1, pr2, pr3, pr4⟩ := preSt_lists w.a cb rest
              have hpre := preSt_jobs w.a cb rest
              have hD : ∀ t, ((preSt w.a cb rest).tokDeps t).length ≤ dTot w.a.s := by
                intro t; rw [pr2]; exact Nat.le_trans (h.ai.lists.1 t) (regP_le_dTot _)
              have hJ : ∀ o, ((preSt w.a cb rest).jobDeps o).length ≤ dTot w.a.s := by
                intro o; rw [pr3]; exact Nat.le_trans (h.ai.lists.2 o) (regP_le_dTot _)
              have hH : ∀ x, cb = .resume x →
                  ((preSt w.a cb rest).jobs x).held.length + ((preSt w.a cb rest).jobs x).deps.length ≤ 2 * dTot w.a.s := by
                intro x e
                rw [(hpre x).2.2.2.1, (hpre x).2.1]
                have h1 := h.held_le hrel x
                have hx : x < w.a.s.n := by
                  subst e
                  exact h.lt_of_pc x (stepA_chg_pc (fl := fl) h.invP hr x (Or.inr (Or.inr rfl))).1
                have := len_le_dTot w.a.s x hx
                omega
              have := runCb_gGrow fl (preSt w.a cb rest) cb (dTot w.a.s) (2 * dTot w.a.s) hD hJ hH
              rw [← es, pr1] at this
              unfold cK
              have e3 : 2 * dTot w.a.s * dTot w.a.s = 2 * (dTot w.a.s * dTot w.a.s) := Nat.mul_assoc _ _ _
              omega
          have hge := gCount_cons_le cb rest
          have h1 : 4 * mu (absF (stepA fl world w.a).adopted (stepA fl world w.a).s) + procRank (stepA fl world w.a).d + 1 ≤
              4 * mu (absF w.a.adopted w.a.s) + procRank w.a.d := by omega
          have h2 := Nat.mul_le_mul_left (cK w.a.s + 1) h1
          rw [Nat.mul_add, Nat.mul_one] at h2
          omega
    | deliver k =>
      obtain ⟨kind, j, c, d', hk, hgate⟩ := hen
      have e0 : (w.apply fl (.sched (.deliver k))).a = deliverA w.a k j c d' := by
        show applyA fl world w.a (.deliver k) = _
        simp only [applyA, hk, hgate]
      obtain ⟨g1, g2, g3⟩ := deliver_absF hg hf ha hrel h k j kind c d' hk hgate
      have tr := stepF_deliver h k j kind c d' hk hgate
      obtain ⟨l1, l2, l3, l4, l5, l6⟩ := deliverA_lists w.a k j c d'
      have hS : SoundF fl totals done0 (w.apply fl (.sched (.deliver k))) := by
        refine ⟨h.reach.apply _, ?_, ?_, ?_, ?_⟩
        · rw [e0, l5]; exact g1
        · rw [e0]; exact uniq_trans tr.n tr.ident h.uniq
        · rw [e0]; exact lock_deliverF h k j kind c d' hk hgate
        · rw [e0]; exact tr.ai
      refine ⟨hS, ?_, by rw [e0, l5]; exact g2⟩
      have hck : cK (deliverA w.a k j c d').s = cK w.a.s := cK_trans tr.n tr.lens
      have hgp := gate_procs _ _ _ _ _ _ _ hgate
      unfold wmuF
      rw [e0, hck, l5, l6, procRank_congr hgp.2 hgp.1, l1]
      simp only [gCount_append, gCount_cons, gCount_nil, isPlainB, Bool.false_eq_true, if_false]
      have h1 : 4 * mu (absF w.a.adopted (deliverA w.a k j c d').s) + procRank w.a.d + 1 ≤
          4 * mu (absF w.a.adopted w.a.s) + procRank w.a.d := by omega
      have h2 := Nat.mul_le_mul_left (cK w.a.s + 1) h1
      rw [Nat.mul_add, Nat.mul_one] at h2
      omega

end step

section runs
variable {fl : Flags} {totals : List Nat} {done0 : Nat → Bool} 

theorem soundF_run (hg : fl.readyGuarded = true) (hf : fl.resubmitRegisters = true) (ha : fl.abortRechecks = true)
    (hrel : fl.abortReleases = true) (evs : List WEv) : ∀ w, SoundF fl totals done0 w → RunE fl w evs →
      SoundF fl totals done0 (W.run fl w evs) ∧ evs.length + wmuF (W.run fl w evs) ≤ wmuF w ∧
      (TokFit (absF w.a.adopted w.a.s) → TokFit (absF (W.run fl w evs).a.adopted (W.run fl w evs).a.s)) := by
  induction evs with
  | nil => intro w h _; exact ⟨h, by simp [W.run], fun hT => hT⟩
  | cons e es ih =>
    intro w h hrun
    obtain ⟨hen, hrest⟩ := hrun
    obtain ⟨h', hlt, hT⟩ := soundF_step hg hf ha hrel h e hen
    obtain ⟨r1, r2, r3⟩ := ih _ h' hrest
    refine ⟨r1, ?_, fun hT0 => r3 (hT hT0)⟩
    simp only [W.run, List.length_cons]
    omega

/-- deadlock freedom of the world, adoption included: if no event is enabled, the scheduler has nothing queued and no
    helper thread is pending. -/
theorem stuck_quiescentF {w : W} (h : SoundF fl totals done0 w) (hmax : ∀ e, ¬ WEnabled w e) :
    w.a.s.ready = [] ∧ w.a.s.threads = [] := by
  have hP := h.invP
  have hD := (wreach_inv h.reach).disk
  have hL := (wreach_link h.reach).2
  have hr : w.a.s.ready = [] := by
    apply Classical.byContradiction; intro h'; exact hmax (.sched .step) h'
  refine ⟨hr, ?_⟩
  cases ht : w.a.s.threads with
  | nil => rfl
  | cons t ts =>
    exfalso
    obtain ⟨kind, j⟩ := t
    have hk : w.a.s.threads[0]? = some (kind, j) := by rw [ht]; rfl
    have hkm : (kind, j) ∈ w.a.s.threads := by rw [ht]; exact List.mem_cons_self ..
    have hkind := hP.kind _ hkm
    have hgn : world.gate w.a.d kind j (w.a.s.jobs j) (w.a.adopted j) = none := by
      cases hg : world.gate w.a.d kind j (w.a.s.jobs j) (w.a.adopted j) with
      | none => rfl
      | some r => exact absurd ⟨kind, j, r.1, r.2, hk, hg⟩ (hmax (.sched (.deliver 0)))
    have hjn : j < w.a.s.n := by
      apply Classical.byContradiction; intro hn
      have := (hP.fresh j (by omega)).1
      rw [this] at hkind
      cases kind <;> simp [kindOk] at hkind
    -- a busy run lock of the directory of `j` is impossible unless `j` waits for its `lockExit` thread
    have busy : (w.a.d.dir (w.a.s.jobs j).ident).lock ≠ .free → kind ≠ .lockExit → False := by
      intro hbusy hkne
      cases hlk : (w.a.d.dir (w.a.s.jobs j).ident).lock with
      | free => exact hbusy hlk
      | proc q =>
        obtain ⟨hq, _, hph⟩ := hD.holder _ q hlk
        refine hmax (.proc q false) ⟨hq, ?_⟩
        rcases hph with h' | h'
        · exact Or.inl h'
        · exact Or.inr (Or.inl h')
      | sched =>
        obtain ⟨j', h1, h2, h3⟩ := h.lock _ hlk
        have := h.uniq j' j h1 hjn h2
        subst this
        exact hkne (holds_thread_kind hkm hkind h3)
    cases kind with
    | lockEnter =>
      simp only [world] at hgn
      split at hgn
      · cases hgn
      · rename_i hne; exact busy hne (by simp)
    | lockExit => simp [world] at hgn
    | doneH => simp [world] at hgn
    | code =>
      have hpc : (w.a.s.jobs j).pc = .codeWait := by
        revert hkind; cases (w.a.s.jobs j).pc <;> simp [kindOk]
      have hproc : w.a.d.procOf j < w.a.d.np ∧ (w.a.d.procs (w.a.d.procOf j)).ident = (w.a.s.jobs j).ident := by
        rcases hL.cw j hpc with h' | h'
        · exact h.ai.proc j h'
        · exact hL.proc j h'
      obtain ⟨hplt, hpid⟩ := hproc
      have hal : w.a.d.alive (w.a.d.procOf j) = true := by
        simp only [world] at hgn
        split at hgn
        · assumption
        · split at hgn <;> cases hgn
      have hph : (w.a.d.procs (w.a.d.procOf j)).ph ≠ .gone := by
        simp only [Disk.alive, Bool.and_eq_true, decide_eq_true_eq] at hal
        exact hal.2
      have hne := hmax (.proc (w.a.d.procOf j) false)
      have hwait : (w.a.d.procs (w.a.d.procOf j)).ph = .waitLock ∧
          (w.a.d.dir (w.a.d.procs (w.a.d.procOf j)).ident).lock ≠ .free := by
        cases hp : (w.a.d.procs (w.a.d.procOf j)).ph with
        | gone => exact absurd hp hph
        | body => exact absurd ⟨hplt, Or.inl hp⟩ hne
        | exiting => exact absurd ⟨hplt, Or.inr (Or.inl hp)⟩ hne
        | waitLock =>
          refine ⟨rfl, fun hfree => ?_⟩
          exact hne ⟨hplt, Or.inr (Or.inr ⟨hp, hfree⟩)⟩
      rw [hpid] at hwait
      exact busy hwait.2 (by simp)

/-- **what a maximal run ends in**: every job final, every token full, nothing held. -/
theorem maximal_finalF {w : W} (h : SoundF fl totals done0 w) (hfit : TokFit (absF w.a.adopted w.a.s))
    (hmax : ∀ e, ¬ WEnabled w e) :
    w.a.s.ready = [] ∧ w.a.s.threads = [] ∧ AllFinal w.a.s ∧ (∀ t, w.a.s.avail t = w.a.s.total t) ∧
    ∀ j, (w.a.s.jobs j).held = [] := by
  obtain ⟨hr, ht⟩ := stuck_quiescentF h hmax
  have hr' : (absF w.a.adopted w.a.s).ready = [] := by rw [absF_ready, hr]; rfl
  obtain ⟨q1, q2, q3⟩ := quiescent_final' h.good hfit hr' ht
  refine ⟨hr, ht, ?_, q2, ?_⟩
  · intro j hj
    have := q1 j hj
    rw [absF_pc] at this
    exact this
  · intro j
    cases hj : w.a.adopted j with
    | true => exact h.ai.held j hj
    | false => have := q3 j; rw [absF_jobs_na hj] at this; exact this

/-- at the end of a maximal run no run lock is held and every job process has exited. -/
theorem maximal_disk_idleF {w : W} (h : SoundF fl totals done0 w) (hfin : AllFinal w.a.s) (hmax : ∀ e, ¬ WEnabled w e) :
    (∀ i, (w.a.d.dir i).lock = .free) ∧ (∀ p, (w.a.d.procs p).ph = .gone) ∧ ∀ i, w.a.d.running i = 0 := by
  have hD := (wreach_inv h.reach).disk
  have hfree : ∀ i, (w.a.d.dir i).lock = .free := by
    intro i
    cases hlk : (w.a.d.dir i).lock with
    | free => rfl
    | proc q =>
      exfalso
      obtain ⟨hq, _, hph⟩ := hD.holder _ q hlk
      refine hmax (.proc q false) ⟨hq, ?_⟩
      rcases hph with h' | h'
      · exact Or.inl h'
      · exact Or.inr (Or.inl h')
    | sched =>
      exfalso
      obtain ⟨j, h1, _, h3⟩ := h.lock i hlk
      rcases hfin j h1 with hn | ⟨r, hr⟩
      · rcases h3 with ⟨q, _⟩ | ⟨q | q, _⟩ <;> rw [hn] at q <;> cases q
      · rcases h3 with ⟨q, _⟩ | ⟨q | q, _⟩ <;> rw [hr] at q <;> cases q
  refine ⟨hfree, ?_, fun i => by unfold Disk.running; rw [hfree i]⟩
  intro p
  by_cases hp : p < w.a.d.np
  · have hne := hmax (.proc p false)
    cases hph : (w.a.d.procs p).ph with
    | gone => rfl
    | body => exact absurd ⟨hp, Or.inl hph⟩ hne
    | exiting => exact absurd ⟨hp, Or.inr (Or.inl hph)⟩ hne
    | waitLock => exact absurd ⟨hp, Or.inr (Or.inr ⟨hph, hfree _⟩)⟩ hne
  · exact hD.fresh p (by omega)

/-- maximal runs exist (the measure is finite). -/
theorem maximal_run_existsF (hg : fl.readyGuarded = true) (hf : fl.resubmitRegisters = true) (ha : fl.abortRechecks = true)
    (hrel : fl.abortReleases = true) :
    ∀ (m : Nat) (w : W), SoundF fl totals done0 w → wmuF w ≤ m →
      ∃ evs, RunE fl w evs ∧ ∀ e, ¬ WEnabled (W.run fl w evs) e := by
  intro m
  induction m with
  | zero =>
    intro w h hm
    refine ⟨[], trivial, fun e hen => ?_⟩
    have := (soundF_step hg hf ha hrel h e hen).2.1
    omega
  | succ m ih =>
    intro w h hm
    by_cases hex : ∃ e, WEnabled w e
    · obtain ⟨e, hen⟩ := hex
      obtain ⟨h', hlt, _⟩ := soundF_step hg hf ha hrel h e hen
      obtain ⟨evs, r1, r2⟩ := ih (w.apply fl e) h' (by omega)
      exact ⟨e :: evs, ⟨hen, r1⟩, r2⟩
    · exact ⟨[], trivial, fun e hen => hex ⟨e, hen⟩⟩

end runs

end XpmVerif.RestartFull
