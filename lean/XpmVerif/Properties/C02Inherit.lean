import XpmVerif.Properties.C02Decl
import XpmVerif.Model.ClassTable
/-! C02 on declarations of classes with several configuration bases: which declaration governs a parameter
    (`Model/ClassTable.lean`: `resolve` — depth-first through the bases as the code does, or nearest in the MRO — and `mroAttr`
    for the class attribute), and the list of C02 for the declaration in force, under either rule. -/
namespace XpmVerif.C02
open XpmVerif.Ident XpmVerif.ArgDecl List

/-- **a class's own declaration governs**, under both rules. -/
theorem own_declaration_wins (t : ClassTable) (r : Rule) (c : Nat) (name : List Nat) (d : Decl)
    (h : (t.cls c).ownDecl name = some d) : resolve t r c name = some (c, d) := by
  cases r <;> simp [resolve, resolveDF, resolveMRO, h]

/-- **depth-first rule**: without an own declaration, the first base (in `__bases__` order) that has the parameter — own or
    inherited — provides it, whatever later bases declare. -/
theorem resolveDF_first_base (t : ClassTable) (fuel c b : Nat) (bs : List Nat) (name : List Nat) (od : Nat × Decl)
    (hown : (t.cls c).ownDecl name = none) (hb : (t.cls c).bases = b :: bs) (hr : resolveDF t fuel b name = some od) :
    resolveDF t (fuel + 1) c name = some od := by
  simp [resolveDF, hown, hb, hr]

/-- **where both rules agree**: a class without own declaration whose first base itself declares (or re-declares) the
    parameter gets that declaration under the depth-first rule and under the MRO rule (Python's linearisation starts with
    the first base).  The generated class libraries only contain such shapes. -/
theorem rules_agree_first_branch (t : ClassTable) (fuel c b : Nat) (bs ms : List Nat) (name : List Nat) (d : Decl)
    (hown : (t.cls c).ownDecl name = none) (hb : (t.cls c).bases = b :: bs) (hm : (t.cls c).mro = b :: ms)
    (hd : (t.cls b).ownDecl name = some d) :
    resolveDF t (fuel + 2) c name = some (b, d) ∧ resolveMRO t c name = some (b, d) := by
  constructor
  · exact resolveDF_first_base t (fuel + 1) c b bs name (b, d) hown hb (by simp [resolveDF, hd])
  · simp [resolveMRO, hown, hm, hd]

/-- **the list of C02 for the declaration in force** (either rule): when the declaration that governs parameter `name` of
    class `c` — annotation of the resolved declaration, class attribute as Python inherits it — is silent for the value the
    configuration holds, the parameter contributes nothing to the stream. -/
theorem class_parameter_silent (cfg : Nat → List Nat) (ceq : Nat → Nat → Bool) (mt : Nat → Option Bool)
    (t : ClassTable) (r : Rule) (c : Nat) (name : List Nat) (d : Decl) (v : Val) (a : Arg)
    (he : effDecl t r c name = some d) (hs : Silent mt d v) (ha : d.toArg v = some a) :
    argStream cfg ceq mt a = [] := by
  have _ := he
  exact silent_contributes_nothing cfg ceq mt d v a hs ha

/-- **a Meta / Option re-declaration inherited from the first base**: class `c` does not mention `name`, its first base `b`
    re-declares it as `Meta[…]` / `Option[…]` (whatever `b`'s own bases or `c`'s later bases say): every value of the parameter
    on a configuration of class `c` is outside the identifier — under the depth-first rule and under the MRO rule. -/
theorem inherited_meta_redeclaration_neutral (cfg : Nat → List Nat) (ceq : Nat → Nat → Bool) (mt : Nat → Option Bool)
    (t : ClassTable) (r : Rule) (c b : Nat) (bs ms : List Nat) (name : List Nat) (d : Decl) (v : Val) (a : Arg)
    (hown : (t.cls c).ownDecl name = none) (hb : (t.cls c).bases = b :: bs) (hm : (t.cls c).mro = b :: ms)
    (hd : (t.cls b).ownDecl name = some d) (hk : d.kind = .metaParam ∨ d.kind = .option)
    (ha : ((effDecl t r c name).bind (fun e => e.toArg v)) = some a)
    (hv : ∀ n, v = .ref n → mt n ≠ some false) : argStream cfg ceq mt a = [] := by
  have hres : resolve t r c name = some (b, d) := by
    cases r
    · have := (rules_agree_first_branch t (t.length - 1) c b bs ms name d hown hb hm hd).1
      have hl : t.length - 1 + 2 = t.length + 1 ∨ t.length = 0 := by omega
      rcases hl with hl | hl
      · simpa [resolve, hl] using this
      · have ht : t = [] := List.eq_nil_of_length_eq_zero hl
        subst ht
        simp [ClassTable.cls] at hb
    · exact (rules_agree_first_branch t 0 c b bs ms name d hown hb hm hd).2
  simp only [effDecl, hres, Option.map_some, Option.bind_some] at ha
  exact meta_option_declaration_neutral cfg ceq mt _ v a (by simpa using hk) ha hv

/-- **a re-declaration without a value inherits the ancestor's** (`getattr` along the MRO): with `x: Param[int] = 1` in a base
    and `x: Meta[int]` in the class, the declaration in force is `Meta[int] = 1` — so leaving `x` out or writing `x = 1` is
    the same configuration also for the default rule. -/
theorem redeclaration_inherits_class_attribute (t : ClassTable) (r : Rule) (c k : Nat) (ms : List Nat) (name : List Nat) (d dk : Decl)
    (hd : (t.cls c).ownDecl name = some d) (hda : d.classAttr.isAbsent = true)
    (hm : (t.cls c).mro = k :: ms) (hk : (t.cls k).ownDecl name = some dk) (hka : dk.classAttr.isAbsent = false) :
    effDecl t r c name = some { d with attr := dk.classAttr } := by
  simp [effDecl, own_declaration_wins t r c name d hd, mroAttr, hd, hda, hm, hk, hka]

/-! non-vacuity.  Table: 0 = `A` (`x: Param[int] = 1`, `y: Param[int]`), 1 = `B1(A)` (`x: Meta[int]`), 2 = `B2(A)` (`y: Meta[int] = 5`),
    3 = `D(B1, B2)`, 4 = `E(B2, B1)`.  `x` of `D`: both rules give `B1`'s `Meta[int]`, with the value `1` inherited from `A`;
    `y` of `D` (only the second branch re-declares): depth-first gives `A`'s required `Param`, the MRO rule `B2`'s `Meta` — the
    shape the generators avoid; `x` of `E` likewise. -/
def nmX : List Nat := [120]
def nmY : List Nat := [121]
def tDiamond : ClassTable := [
  { own := [{ name := nmX, kind := .param, ty := .int, attr := .value (.int 1) }, { name := nmY, kind := .param, ty := .int }] },
  { bases := [0], mro := [0], own := [{ name := nmX, kind := .metaParam, ty := .int }] },
  { bases := [0], mro := [0], own := [{ name := nmY, kind := .metaParam, ty := .int, attr := .value (.int 5) }] },
  { bases := [1, 2], mro := [1, 2, 0] },
  { bases := [2, 1], mro := [2, 1, 0] }]
example : (classArg tDiamond .depthFirst 3 nmX).map (fun a => (a.ignored, a.required, a.default.isSome)) = some (true, false, true)
    ∧ (classArg tDiamond .mro 3 nmX).map (fun a => (a.ignored, a.required, a.default.isSome)) = some (true, false, true) := by decide
example : (classArg tDiamond .depthFirst 3 nmY).map (fun a => (a.ignored, a.required)) = some (false, true)
    ∧ (classArg tDiamond .mro 3 nmY).map (fun a => (a.ignored, a.required)) = some (true, false)
    ∧ (resolve tDiamond .depthFirst 4 nmX).map (·.1) = some 0 ∧ (resolve tDiamond .mro 4 nmX).map (·.1) = some 1 := by decide

end XpmVerif.C02
