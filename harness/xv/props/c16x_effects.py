"""C16 — kill points derived from the generated effect sequences (Generated/XpIndexSrc.lean).

For every statement the translator `xv.translate.xpindexsrc` lists for `experiment.__enter__`, `experiment.__exit__`
(without / with an exception) and the link step of `Scheduler.aio_submit` — and for every iteration of the rotation
loop — one *child process* is started on a fresh workspace: it plays two prelude runs on the real `experiment`
(run A links a0, a1 and ends cleanly; run B links a1, a2 and raises: `jobs` = {a1, a2}, `jobs.bak` = {a0, a1}),
then a third, traced run (`sys.settrace`/`threading.settrace`, line events of scheduler/base.py) that SIGKILLs itself when
the line of that statement is about to execute (k-th hit for the loop).  The parent observes `jobs`, `jobs.bak` and the
lock of the dead process's workspace and compares them with the state of the fine model (`Drive/C16Fine.lean`) after the
same prefix: `start`, one `tick` per statement executed (one per link for the loops), `die`.
Monitors (implementation only): a death inside `__enter__`, inside `__exit__` after an exception, or inside the link step
of a job that is not yet linked loses no name of `jobs ∪ jobs.bak`; the lock of the dead process is free.
The re-link window (death between `unlink` and `symlink_to` of a failed job submitted again) is *compared with the model*
(which loses the link there, theorem `relink_death_unprotects`) and counted, not asserted."""
import json
import os
import signal
import subprocess
import sys
import time
from concurrent.futures import ThreadPoolExecutor
from pathlib import Path

LABELS = ["a0", "a1", "a2", "a3", "f0"]
NUM = {lab: i + 1 for i, lab in enumerate(LABELS)}
GUARD = {"always": lambda m: True, "notDry": lambda m: m != "dry-run", "normalOnly": lambda m: m == "normal"}
EXC = {"any": lambda e: True, "noExc": lambda e: not e, "onExc": lambda e: e}


def select(seq, mode, exc):
    return [x for x in seq if GUARD[x["guard"]](mode) and EXC[x["exc"]](exc)]


def eff_name(x):
    return x["eff"].split(" ")[0]


# ------------------------------------------------------------------ child


def child_main(specfile):
    from . import c16

    spec = json.loads(Path(specfile).read_text())
    base = Path(spec["base"])
    ws = base / "ws"
    ws.mkdir()
    out = base / "child.json"
    lib = c16.write_lib(base)
    real = c16.Real(lib)
    name = c16.XPNAME
    relmap = {}

    def sub(xp, kind, x, lab, objs):
        rel, o = real.submit(xp, objs, kind, x, None, True)
        relmap[rel] = lab
        return rel

    def run(jobs, how):
        def body(xp):
            objs = {}
            rels = [sub(xp, k, x, lab, objs) for k, x, lab in jobs]
            c16.settle(ws, [(r, None) for r in rels])
            return how
        return real.block(ws, name, body)

    run([("a", 0, "a0"), ("a", 1, "a1")], "ok")
    run([("a", 1, "a1"), ("a", 2, "a2")], "exc")
    obs0 = c16.observe(ws, name, relmap, want_orphans=False)
    state = {"relmap": relmap, "obs0": obs0, "reached": False}

    def dump():
        tmp = out.with_suffix(".tmp")
        tmp.write_text(json.dumps(state))
        os.replace(tmp, out)

    dump()
    lines, hit = set(spec["lines"]), spec["hit"]
    arm = {"on": False, "n": 0}
    suffix = os.sep + os.path.join("experimaestro", "scheduler", "base.py")

    def local(frame, event, arg):
        if event == "line" and arm["on"] and frame.f_lineno in lines:
            if arm["n"] == hit:
                os.kill(os.getpid(), signal.SIGKILL)
                time.sleep(60)
            arm["n"] += 1
        return local

    def tracer(frame, event, arg):
        if frame.f_code.co_filename.endswith(suffix):
            return local
        return None

    import threading

    phase = spec["phase"]
    threading.settrace(tracer)
    sys.settrace(tracer)
    if phase == "enter":
        arm["on"] = True

    def body(xp):
        objs = {}
        if phase in ("exitOk", "exitExc"):
            rel = sub(xp, "a", 3, "a3", objs)
            c16.settle(ws, [(rel, None)])
            dump()
            arm["on"] = True
            return "ok" if phase == "exitOk" else "exc"
        if phase == "link":
            arm["on"] = True
            sub(xp, "a", 0, "a0", objs)  # a0 is known (prelude): linked in jobs.bak, not in jobs
            return "exc"
        if phase == "relink":
            rel = sub(xp, "f", 0, "f0", objs)
            c16.settle(ws, [(rel, None)])
            deadline = time.time() + 10
            while time.time() < deadline and not any((ws / "jobs" / rel).glob("*.failed")):
                time.sleep(0.01)
            time.sleep(0.1)
            dump()
            arm["on"] = True
            sub(xp, "f", 0, "f0", {})
            return "exc"
        return "exc"

    real.block(ws, name, body, run_mode=spec.get("mode"))
    sys.settrace(None)
    threading.settrace(None)
    state["reached"] = False
    state["survived"] = True
    dump()
    os._exit(0)


# ------------------------------------------------------------------ parent


def scenarios(eff):
    """[{phase, idx, eff, lines, hit, ticks}] — ticks = model operations of process 1 after `reset`"""
    out = []
    J0, B0 = ["a1", "a2"], ["a0", "a1"]  # jobs / jobs.bak after the prelude

    def prog_ticks(prog, upto, jobs, bak):
        """ticks that execute the statements prog[:upto] entirely"""
        t = []
        for x in prog[:upto]:
            n = eff_name(x)
            if n == "rotate":
                t += [{"op": "tick", "p": 1, "n": NUM[j]} for j in jobs] + [{"op": "tick", "p": 1, "n": 0}]
            elif n == "dropBak":
                t += [{"op": "tick", "p": 1, "n": NUM[j]} for j in bak] + [{"op": "tick", "p": 1, "n": 0}]
            else:
                t.append({"op": "tick", "p": 1, "n": 0})
        return t

    enter = select(eff["enter"], "normal", False) if eff["enter"] is not None else None
    if enter is not None:
        for i, x in enumerate(enter):
            pre = [{"op": "start", "p": 1, "mode": "normal"}] + prog_ticks(enter, i, J0, B0)
            out.append({"phase": "enter", "idx": i, "eff": eff_name(x), "lines": [x["line"]], "hit": 0, "ops": pre})
            if eff_name(x) == "rotate":
                for h in range(1, len(J0) + 1):  # death when the (h+1)-th action is due (h links handled), or after the last
                    if h < len(J0):
                        out.append({"phase": "enter", "idx": i, "eff": "rotate", "lines": x["hits"], "hit": h, "ops": pre, "moved": h})
        full_enter = [{"op": "start", "p": 1, "mode": "normal"}] + prog_ticks(enter, len(enter), J0, B0)
        bak_in = sorted(set(J0) | set(B0))
        for phase, exc in (("exitOk", False), ("exitExc", True)):
            if eff["exit"] is None or eff["link"] is None:
                continue
            prog = select(eff["exit"], "normal", exc)
            link = [{"op": "submit", "p": 1, "l": NUM["a3"]}] + [{"op": "tick", "p": 1, "n": 0}] * len(eff["link"])
            for j, x in enumerate(prog):
                ops = full_enter + link + [{"op": "endBlock", "p": 1, "exc": exc}] + prog_ticks(prog, j, [], bak_in)
                out.append({"phase": phase, "idx": j, "eff": eff_name(x), "lines": [x["line"]], "hit": 0, "ops": ops})
        if eff["link"] is not None:
            for j, x in enumerate(eff["link"]):
                ops = full_enter + [{"op": "submit", "p": 1, "l": NUM["a0"]}] + [{"op": "tick", "p": 1, "n": 0}] * j
                out.append({"phase": "link", "idx": j, "eff": eff_name(x), "lines": [x["line"]], "hit": 0, "ops": ops})
            names = [eff_name(x) for x in eff["link"]]
            if "symlinkIf" in names:
                j = names.index("symlinkIf")
                n = len(eff["link"])
                ops = (full_enter + [{"op": "submit", "p": 1, "l": NUM["f0"]}] + [{"op": "tick", "p": 1, "n": 0}] * n
                       + [{"op": "submit", "p": 1, "l": NUM["f0"]}] + [{"op": "tick", "p": 1, "n": 0}] * j)
                out.append({"phase": "relink", "idx": j, "eff": "symlinkIf", "lines": [eff["link"][j]["line"]], "hit": 0, "ops": ops})
    return out


def run_child(ctx, sc, base):
    from .. import common

    base.mkdir(parents=True)
    spec = {"base": str(base), "phase": sc["phase"], "lines": sc["lines"], "hit": sc["hit"], "mode": None}
    (base / "spec.json").write_text(json.dumps(spec))
    env = dict(os.environ)
    env["PYTHONPATH"] = os.pathsep.join([str(common.VERIF / "harness"), str(common.REPO / "src")] + ([env["PYTHONPATH"]] if env.get("PYTHONPATH") else []))
    try:
        p = subprocess.run([sys.executable, "-m", "xv.props.c16x_effects", "child", str(base / "spec.json")], capture_output=True,
                           text=True, timeout=400, env=env, cwd=str(base))
        rc, err = p.returncode, p.stderr[-400:]
    except subprocess.TimeoutExpired:
        rc, err = "timeout", ""
    info = json.loads((base / "child.json").read_text()) if (base / "child.json").exists() else None
    return rc, err, info


def to_num(folder):
    return None if folder is None else sorted([NUM.get(a, 0), NUM.get(b, 0)] for a, b in folder)


def correspond_effects(ctx):
    from .. import common
    from ..translate import xpindexsrc
    from . import c16

    eff = xpindexsrc.effects(common.REPO)
    for part, why in eff["unknown"].items():
        ctx.notes.append(f"kill points: the {part} sequence is not translated ({why[:80]}): its kill points are skipped")
        ctx.count("effect_kill_parts", f"{part}:fallback")
    scs = scenarios(eff)
    if ctx.tier == "quick":  # a seed-dependent half of the `other` statements; every index statement always
        rng = ctx.rng.__class__(f"c16-eff-{ctx.seed}")
        scs = [s for s in scs if s["eff"] != "other" or rng.random() < 0.5]
    root = Path(ctx.tmpdir()) / "effkill"
    t0 = time.time()
    with ThreadPoolExecutor(max_workers=8) as ex:
        results = list(ex.map(lambda a: run_child(ctx, a[1], root / f"s{a[0]}"), enumerate(scs)))
    # the model: one `reset` + operations + `die` per scenario; plus the programs (consistency of the two renderings)
    lines, spans = [{"op": "progs", "mode": "normal"}], []
    observed = []
    for k, (sc, (rc, err, info)) in enumerate(zip(scs, results)):
        base = root / f"s{k}"
        if info is None or rc == "timeout":
            observed.append(None)
            spans.append(None)
            continue
        obs = c16.observe(base / "ws", c16.XPNAME, info["relmap"], want_orphans=(sc["phase"] == "relink"))
        obs["lock"] = c16.probe_lock(base / "ws", c16.XPNAME)
        observed.append(obs)
        obs0 = info["obs0"]
        ops = list(sc["ops"])
        if sc.get("moved"):
            gone = [n for n, _ in obs0["jobs"] if n not in [x for x, _ in obs["jobs"]]]
            ops += [{"op": "tick", "p": 1, "n": NUM.get(n, 0)} for n in gone]
            sc["gone"] = gone
        start = len(lines)
        lines.append({"op": "reset", "p": 1, "jobs": to_num(obs0["jobs"]), "bak": to_num(obs0["bak"])})
        lines += ops + [{"op": "die", "p": 1}]
        spans.append((start, len(lines) - 1))
    outs = common.run_driver("C16Fine", lines)
    progs = outs[0]
    mine = {"enter": [eff_name(x) for x in select(eff["enter"], "normal", False)] if eff["enter"] is not None else None,
            "exitOk": [eff_name(x) for x in select(eff["exit"], "normal", False)] if eff["exit"] is not None else None,
            "exitExc": [eff_name(x) for x in select(eff["exit"], "normal", True)] if eff["exit"] is not None else None,
            "link": [eff_name(x) for x in eff["link"]] if eff["link"] is not None else None}
    for k2, v in mine.items():
        if v is not None and progs.get(k2) != v:
            ctx.disagree({"programs": k2}, progs.get(k2), v, "the generated Lean program and the translator's line table differ")
    for k, (sc, (rc, err, info)) in enumerate(zip(scs, results)):
        case = {"effect_kill": {"phase": sc["phase"], "idx": sc["idx"], "eff": sc["eff"], "hit": sc["hit"], "lines": sc["lines"]}}
        key = f"{sc['phase']}:{sc['eff']}"
        if info is None or observed[k] is None:
            # the child did not get through its prelude, or ran into the harness's own time limit (a loaded machine): not a verdict
            raise RuntimeError(f"C16 effect kill point {key}: child process rc={rc} without a result {err[-300:]}")
        obs, obs0 = observed[k], info["obs0"]
        ctx.case(case, sc["eff"] != "other")
        ctx.count("effect_kill", key)
        if info.get("survived") or rc != -signal.SIGKILL:
            # the line was not reached: the statement is not executed on this path (e.g. a branch not taken)
            ctx.count("effect_kill_outcome", f"{key}:not-reached(rc={rc})")
            if sc["eff"] != "other":
                ctx.disagree(case, "statement executed", f"line {sc['lines']} not reached (rc={rc})",
                             "a statement of the generated sequence was not executed by the real run " + err[-200:])
            continue
        ctx.count("effect_kill_outcome", f"{key}:killed")
        start, end = spans[k]
        m = outs[end]
        real_state = {"jobs": to_num(obs["jobs"]), "bak": to_num(obs["bak"]), "lock": None if obs["lock"] == "free" else obs["lock"]}
        model_state = {"jobs": m.get("jobs"), "bak": m.get("bak"), "lock": m.get("lock")}
        if sc.get("moved") is not None and len(sc.get("gone", [])) != sc["moved"]:
            ctx.disagree(case, f"{sc['moved']} links handled", f"{sc.get('gone')} gone from jobs", "rotation loop: number of links handled before the kill point")
        if real_state != model_state:
            ctx.disagree(case, model_state, real_state, f"state after death before `{sc['eff']}` ({sc['phase']}, statement {sc['idx']}, hit {sc['hit']})")
        ctx.traces_validated += 1
        # monitors (implementation only)
        if obs["lock"] != "free":
            ctx.monitor_fail(f"effect-kill-lock:{key}", f"the lock of the dead process is {obs['lock']}", case)
        before = {n for n, _ in obs0["jobs"]} | {n for n, _ in (obs0["bak"] or [])}
        after = {n for n, _ in obs["jobs"]} | {n for n, _ in (obs["bak"] or [])}
        if sc["phase"] in ("enter", "exitExc", "link") and not before <= after:
            ctx.monitor_fail(f"effect-kill-lost:{key}", f"death before `{sc['eff']}` in {sc['phase']} lost the links {sorted(before - after)}", case)
        if sc["phase"] == "exitExc" and "a3" not in after:
            ctx.monitor_fail(f"effect-kill-lost:{key}", "the link of the job of the aborted run is gone", case)
        if sc["phase"] == "exitOk" and [n for n, _ in obs["jobs"]] != ["a3"]:
            ctx.monitor_fail(f"effect-kill-jobs:{key}", f"after a clean block jobs = {obs['jobs']}", case)
        if sc["phase"] == "relink":
            lost = "f0" not in after
            ctx.count("relink_window", "link-lost" if lost else "link-kept")
            ctx.extra_cov["relink_window_orphans"] = obs.get("orphans")
    ctx.notes.append(f"effect kill points: {len(scs)} child processes in {time.time() - t0:.1f}s")


if __name__ == "__main__":
    if sys.argv[1] == "child":
        child_main(sys.argv[2])
