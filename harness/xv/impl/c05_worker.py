"""Worker (C05, real API): submission histories with duplicates on a real `experiment`.

usage: python -m xv.impl.c05_worker <in.json> <out.json>
in:  {"libs": [lib], "cases": [{"lib": i, "graphs": [g], "history": [step]}]}
     step: {"g": k, "perm": seed|None}   submit a freshly built copy of graph k (node 0 is a task)
           {"wait": true}                 xp.wait()
     "fail": [k]  graphs whose job exits with code 1 the first time it is run
out: [{"steps": [...], "launched": {identifier: n}, "error": None|str}]
     per submit step: {"g", "ret": index of the first step whose submit() returned this very object,
                       "own": returned object is the submitted configuration's own output, "njobs": len(xp.scheduler.jobs),
                       "identifier": hex, "jobs_same": the registered job for this identifier is the one of step "ret"}

The launcher is an `InstantLauncher` (public extension points `Launcher`/`ProcessBuilder`/`Process`): `aio_run` goes
through the real `CommandLineJob.aio_run` (script + pid file), the "process" ends at once writing the markers.
"""
import contextlib
import io
import json
import random
import shutil
import sys
import tempfile
import traceback
from pathlib import Path


def main():
    import logging
    logging.disable(logging.CRITICAL)
    from experimaestro import experiment
    from experimaestro.connectors import Process, ProcessBuilder
    from experimaestro.connectors.local import LocalConnector
    from experimaestro.launchers.direct import DirectLauncher
    from . import cfgbuild
    from .. import identlib

    launched = {}
    failing = set()

    class InstantProcess(Process):
        def __init__(self, script):
            self.script = Path(script)

        def wait(self):
            ident = self.script.parent.name
            launched[ident] = launched.get(ident, 0) + 1
            p = self.script.with_suffix(".pid")
            if p.exists():
                p.unlink()
            if ident in failing and launched[ident] == 1:
                self.script.with_suffix(".failed").write_text("1")
                return 1
            self.script.with_suffix(".done").touch()
            return 0

        def tospec(self):
            return {"type": "local", "pid": 4194000}

    class InstantBuilder(ProcessBuilder):
        def start(self, task_mode=False):
            return InstantProcess(self.command[-1])

    class InstantLauncher(DirectLauncher):
        def processbuilder(self):
            return InstantBuilder()

    import signal

    class Hang(BaseException):
        pass

    def on_alarm(signum, frame):
        raise Hang()

    signal.signal(signal.SIGALRM, on_alarm)
    data = json.loads(Path(sys.argv[1]).read_text())
    root = Path(tempfile.mkdtemp(prefix="xvc05-"))
    out = []
    try:
        mods = [cfgbuild.load_library(lib, root) for lib in data["libs"]]
        for ci, case in enumerate(data["cases"]):
            rec = {"steps": [], "error": None}
            launched.clear()
            failing.clear()
            try:
                mod = mods[case["lib"]]
                ws = root / f"ws{ci}"
                ws.mkdir()
                # identifiers of the graphs that fail the first time
                for k in case.get("fail", []):
                    o = cfgbuild.build_graph(mod, case["graphs"][k])[0]
                    failing.add(o.__xpm__.identifier.all.hex())
                rets, jobs_of = [], {}
                with contextlib.redirect_stderr(io.StringIO()):
                    signal.alarm(int(data.get("case_timeout", 40)))
                    try:
                        with experiment(ws, "xp", port=-1, launcher=InstantLauncher(LocalConnector(ws / "conn"))) as xp:
                            for si, st in enumerate(case["history"]):
                                if st.get("wait"):
                                    try:
                                        xp.wait()
                                        rec["steps"].append({"wait": "ok"})
                                    except Exception as e:
                                        rec["steps"].append({"wait": type(e).__name__})
                                    continue
                                g = case["graphs"][st["g"]]
                                if st.get("perm") is not None:
                                    g = identlib.permute_graph(random.Random(st["perm"]), g)
                                objs = cfgbuild.build_graph(mod, g)
                                init = list(objs[0].__xpm__.init_tasks)
                                ret = objs[0].submit(init_tasks=init)
                                rets.append(ret)
                                first = next(i for i, r in enumerate(rets) if r is ret)
                                job = objs[0].__xpm__.job
                                ident = job.identifier
                                reg = xp.scheduler.jobs.get(ident)
                                jobs_of[len(rets) - 1] = job
                                rec["steps"].append({
                                    "g": st["g"], "ret": first, "own": ret is objs[0] or getattr(ret, "__xpm__", None) is objs[0].__xpm__,
                                    "njobs": len(xp.scheduler.jobs), "identifier": ident,
                                    "jobs_same": reg is jobs_of.get(first),
                                    "scheduled": getattr(job, "_future", None) is not None if hasattr(job, "_future") else False,
                                })
                    except Hang:
                        rec["hang"] = True
                    except Exception as e:
                        rec["exit"] = type(e).__name__
                    finally:
                        signal.alarm(0)
                rec["launched"] = dict(launched)
                rec["failing"] = sorted(failing)
            except Exception as e:
                rec["error"] = f"{type(e).__name__}: {e}"
                rec["trace"] = traceback.format_exc()[-1200:]
            out.append(rec)
    finally:
        shutil.rmtree(root, ignore_errors=True)
    Path(sys.argv[2]).write_text(json.dumps(out))


if __name__ == "__main__":
    main()
