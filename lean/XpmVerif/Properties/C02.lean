import XpmVerif.Proofs.IdentNeutral
import XpmVerif.Proofs.HashRefs
/-! C02 — the identifier ignores everything documented as outside the signature.
    All statements are about the specification `rawAt`/`rawId`/`fullId` of Model/Ident.lean, for every
    hash function.  Tags, explicit/token dependencies, launcher, workspace and run mode are not inputs of
    the model at all (the correspondence check shows the real identifier is a function of the model's
    inputs only), so they are neutral by construction. -/
namespace XpmVerif.C02
open XpmVerif.Ident List

/-- **Meta / Option / Path parameters** (`ignored`): whatever their value (unless it is a configuration
    forced in with `meta = False`), they contribute nothing to the stream. -/
theorem ignored_parameter_neutral (cfg : Nat → List Nat) (ceq : Nat → Nat → Bool) (mt : Nat → Option Bool) (a : Arg) (hi : a.ignored = true)
    (hv : ∀ n, a.value = .ref n → mt n ≠ some false) : argStream cfg ceq mt a = [] :=
  argStream_of_not_included a (ignored_excluded ceq mt a hi hv)

/-- **generated (path) parameters** contribute nothing. -/
theorem generated_parameter_neutral (cfg : Nat → List Nat) (ceq : Nat → Nat → Bool) (mt : Nat → Option Bool) (a : Arg) (hg : a.generator = true) :
    argStream cfg ceq mt a = [] :=
  argStream_of_not_included a (generator_excluded ceq mt a hg)

/-- **a parameter explicitly set to its default** contributes nothing (`_is_default` after removing meta members:
    Python `==`, and equality of identifiers for configuration objects). -/
theorem default_valued_parameter_neutral (cfg : Nat → List Nat) (ceq : Nat → Nat → Bool) (mt : Nat → Option Bool) (a : Arg) (d : Val)
    (hc : a.constant = false) (hd : a.default = some d) (he : isDefault ceq mt d (removeMeta mt a.value) = true) :
    argStream cfg ceq mt a = [] :=
  argStream_of_not_included a (default_excluded ceq mt a d hc hd he)

/-- the former statement (Python `==`), for a default that is neither a configuration, a list nor a dict. -/
theorem default_valued_parameter_neutral_scalar (cfg : Nat → List Nat) (ceq : Nat → Nat → Bool) (mt : Nat → Option Bool)
    (a : Arg) (d : Val) (hc : a.constant = false) (hd : a.default = some d)
    (hr : ∀ n, d ≠ .ref n) (hl : ∀ l, d ≠ .list l) (hdd : ∀ ks vs, d ≠ .dict ks vs)
    (he : pyEq d (removeMeta mt a.value) = true) :
    argStream cfg ceq mt a = [] :=
  default_valued_parameter_neutral cfg ceq mt a d hc hd (by rw [isDefault_scalar ceq mt d _ hr hl hdd]; exact he)

/-! ### configuration-valued defaults (`class A(Config): x: Param[B] = B(k=1)`)

    The default object is a node `d` of the graph that only `Arg.default` refers to; `Config.__init__` stores a
    clone of it.  `cfgAt hc g fuel (n :: stack)` / `ceqAt hc g fuel (n :: stack)` (Proofs/IsDefault.lean) are the
    reference encoder and the `_is_default` comparison with which `rawAt hc g (fuel + 1) stack n` hashes node
    `n` (`rawAt_succ`). -/

/-- **a parameter whose value has the identifier of its configuration-valued default** — both computed in
    the context in which the node is hashed — contributes nothing to the stream. -/
theorem config_default_neutral {D : Type} (hc : HC D) (g : Graph) (fuel : Nat) (stack : List Nat) (n : Nat)
    (a : Arg) (d v : Nat)
    (hcst : a.constant = false) (hd : a.default = some (.ref d)) (hv : a.value = .ref v)
    (hds : relIndex (n :: stack) d = none) (hvs : relIndex (n :: stack) v = none)
    (heq : rawAt hc g fuel (n :: stack) d = rawAt hc g fuel (n :: stack) v) :
    argStream (cfgAt hc g fuel (n :: stack)) (ceqAt hc g fuel (n :: stack)) g.mt a = [] := by
  apply argStream_of_not_included
  apply default_excluded _ _ a (.ref d) hcst hd
  simp only [hv, removeMeta, isDefault]
  rw [ceqAt_off_stack hc g fuel _ d v hds hvs, heq]
  simp

/-- **a clone has the identifier of the original**: two nodes of the same class with the same arguments and no
    producing task, hashed under the same stack, whose (common) references are encoded identically below
    the one and below the other, have the same raw identifier.  The last hypothesis is vacuous for a
    configuration without sub-configuration (`B(k=1)`), and holds whenever the sub-configurations refer neither to
    the clone nor to the original nor to the stack. -/
theorem clone_identifier {D : Type} (hc : HC D) (g : Graph) (f : Nat) (S : List Nat) (d v : Nat)
    (hty : (g.node d).typeId = (g.node v).typeId) (hargs : (g.node d).args = (g.node v).args)
    (htd : (g.node d).task = none) (htv : (g.node v).task = none)
    (hsub : ∀ m ∈ relRefs g.mt v (g.node v), relIndex (d :: S) m = relIndex (v :: S) m ∧
      (relIndex (d :: S) m = none → rawAt hc g f (d :: S) m = rawAt hc g f (v :: S) m)) :
    rawAt hc g (f + 1) S d = rawAt hc g (f + 1) S v := by
  have hf : ∀ cfg ceq, nodeStream cfg ceq g.mt d (g.node d) = nodeStream cfg ceq g.mt v (g.node v) := by
    intro cfg ceq; simp only [nodeStream, hty, hargs, htd, htv]
  simp only [rawAt]
  rw [hf]
  congr 1
  apply nodeStream_congr_ctx
  intro m hm
  obtain ⟨h1, h2⟩ := hsub m hm
  exact ⟨h1, fun hk => by rw [h2 hk]⟩

/-- **a parameter set to a clone of its configuration-valued default contributes nothing**: in particular
    `A(x = B(k=1))` and `A()` are hashed identically although the value and the default object are different
    objects. -/
theorem config_default_clone_neutral {D : Type} (hc : HC D) (g : Graph) (f : Nat) (stack : List Nat) (n : Nat)
    (a : Arg) (d v : Nat)
    (hcst : a.constant = false) (hd : a.default = some (.ref d)) (hv : a.value = .ref v)
    (hds : relIndex (n :: stack) d = none) (hvs : relIndex (n :: stack) v = none)
    (hty : (g.node d).typeId = (g.node v).typeId) (hargs : (g.node d).args = (g.node v).args)
    (htd : (g.node d).task = none) (htv : (g.node v).task = none)
    (hsub : ∀ m ∈ relRefs g.mt v (g.node v), relIndex (d :: n :: stack) m = relIndex (v :: n :: stack) m ∧
      (relIndex (d :: n :: stack) m = none → rawAt hc g f (d :: n :: stack) m = rawAt hc g f (v :: n :: stack) m)) :
    argStream (cfgAt hc g (f + 1) (n :: stack)) (ceqAt hc g (f + 1) (n :: stack)) g.mt a = [] :=
  config_default_neutral hc g (f + 1) stack n a d v hcst hd hv hds hvs
    (clone_identifier hc g f (n :: stack) d v hty hargs htd htv hsub)

/-- **an optional left unset** contributes nothing. -/
theorem unset_optional_neutral (cfg : Nat → List Nat) (ceq : Nat → Nat → Bool) (mt : Nat → Option Bool) (a : Arg) (hc : a.constant = false)
    (hr : a.required = false) (hd : a.default = none) (hv : a.value = .none) : argStream cfg ceq mt a = [] :=
  argStream_of_not_included a (unset_optional_excluded ceq mt a hc hr hd hv)

/-- **a sub-configuration flagged as meta** given as a parameter value contributes nothing … -/
theorem meta_subconfiguration_neutral (cfg : Nat → List Nat) (ceq : Nat → Nat → Bool) (mt : Nat → Option Bool) (a : Arg) (n : Nat)
    (hv : a.value = .ref n) (hm : mt n = some true) : argStream cfg ceq mt a = [] :=
  argStream_of_not_included a (meta_value_excluded ceq mt a n hv hm)

/-- … **also as a list element** (at any position) … -/
theorem meta_list_element_neutral (cfg : Nat → List Nat) (mt : Nat → Option Bool) (l1 l2 : List Val) (m : Nat)
    (hm : mt m = some true) :
    encVal cfg mt (.list (l1 ++ .ref m :: l2)) = encVal cfg mt (.list (l1 ++ l2)) :=
  list_meta_member cfg mt l1 l2 m hm

/-- … **or as a dict value** (at any insertion position). -/
theorem meta_dict_value_neutral (cfg : Nat → List Nat) (mt : Nat → Option Bool) (k1 k2 : List (List Nat))
    (l1 l2 : List Val) (k : List Nat) (m : Nat) (hl : k1.length = l1.length) (hm : mt m = some true) :
    encVal cfg mt (.dict (k1 ++ k :: k2) (l1 ++ .ref m :: l2)) = encVal cfg mt (.dict (k1 ++ k2) (l1 ++ l2)) :=
  dict_meta_member cfg mt k1 k2 l1 l2 k m hl hm

/-- **adding a new defaulted / Meta / generated parameter to a class**: a node extended with an argument
    that contributes nothing has the same stream (hence, by `neutral_edits_any_depth`, every identifier of
    every existing configuration is unchanged). -/
theorem added_parameter_neutral (cfg : Nat → List Nat) (ceq : Nat → Nat → Bool) (mt : Nat → Option Bool) (self : Nat) (nd : Node) (a : Arg)
    (ha : argStream cfg ceq mt a = []) :
    nodeStream cfg ceq mt self { nd with args := a :: nd.args } = nodeStream cfg ceq mt self nd :=
  nodeStream_add_excluded cfg ceq mt self nd a ha

/-- **at any node and depth.** Two graphs with the same meta flags whose nodes have pointwise
    stream-equivalent arguments (`ArgsRel`: same names, and every argument either unchanged or changed
    between two states that contribute the same — e.g. nothing, by the lemmas above) give every node the
    same raw identifier, for every hash function. -/
theorem neutral_edits_any_depth {D : Type} (hc : HC D) (g g' : Graph) (hs : g.size = g'.size)
    (hm : g.mt = g'.mt)
    (h : ∀ n, (g.node n).typeId = (g'.node n).typeId ∧ (g.node n).task = (g'.node n).task ∧
          ∀ cfg ceq, ArgsRel cfg ceq g.mt g'.mt (g.node n).args (g'.node n).args) (n : Nat) :
    rawId hc g n = rawId hc g' n := by
  unfold rawId; rw [hs]
  apply rawAt_congr
  intro k cfg ceq
  exact nodeStream_congr_args cfg ceq g.mt g'.mt k _ _ (h k).1 (h k).2.1 ((h k).2.2 cfg ceq)

/-- the full identifier is a function of the raw identifiers of the node, of its collected pre-tasks and
    of its init tasks. -/
theorem full_identifier_congruence {D : Type} (hc : HC D) (g g' : Graph)
    (hr : ∀ n, rawId hc g n = rawId hc g' n)
    (n : Nat) (hp : collectPreTasks g n = collectPreTasks g' n) (hi : (g.node n).initTasks = (g'.node n).initTasks) :
    fullId hc g n = fullId hc g' n := by
  have hf : rawId hc g = rawId hc g' := funext hr
  simp only [fullId, hp, hi, hf]

/-- non-vacuity: a Meta argument with two different values, a defaulted argument set explicitly. -/
example : argStream (fun _ => []) (fun _ _ => false) (fun _ => none) { name := [109], ignored := true, value := .int 5 } = [] := by decide
example : argStream (fun _ => []) (fun _ _ => false) (fun _ => none) { name := [120], required := false, default := some (.int 3), value := .int 3 } = []
    ∧ argStream (fun _ => []) (fun _ _ => false) (fun _ => none) { name := [120], required := false, default := some (.int 3), value := .int 4 } ≠ [] := by decide

/-! non-vacuity for configuration-valued defaults: `class B(Config): k: Param[int]`,
    `class A(Config): x: Param[B] = B(k=1)`.  Node 3 is the default object of `A.x`; node 0 is `A()` (its value
    for `x` is node 4, the clone made by `__init__`), node 1 is `A(x = B(k=1))` (node 5), node 2 is `A(x = B(k=2))`
    (node 6). -/
def toyHC : HC Nat :=
  { H := fun l => l.foldl (fun a b => (a * 31 + b + 1) % 1000003) 7, emb := fun d => [256 + d], le := fun a b => a ≤ b }

def argX (v : Nat) : Arg := { name := [120], required := false, default := some (.ref 3), value := .ref v }
def nodeB (k : Int) : Node := { typeId := [66], args := [{ name := [107], value := .int k }] }
def gDflt : Graph := { nodes := [
  { typeId := [65], args := [argX 4] }, { typeId := [65], args := [argX 5] }, { typeId := [65], args := [argX 6] },
  nodeB 1, nodeB 1, nodeB 1, nodeB 2] }

/-- the hypotheses of `config_default_clone_neutral` hold for `A(x = B(k=1))` … -/
example : argStream (cfgAt toyHC gDflt 7 [1]) (ceqAt toyHC gDflt 7 [1]) gDflt.mt (argX 5) = [] :=
  config_default_clone_neutral toyHC gDflt 6 [] 1 (argX 5) 3 5 rfl rfl rfl (by decide) (by decide) rfl rfl rfl rfl
    (by intro m hm; simp [gDflt, nodeB, Graph.node, Graph.mt, relRefs, valueRefs, defaultRefs, taskRefs, examined,
      ignoredOut, metaOut, refsVal, dfltRefsArg] at hm)

/-- … so `A()`, `A(x = B(k=1))` share their identifiers, `A(x = B(k=2))` has another one, and the parameter is
    in the stream of the latter only. -/
example : rawId toyHC gDflt 0 = rawId toyHC gDflt 1 ∧ rawId toyHC gDflt 1 ≠ rawId toyHC gDflt 2
    ∧ fullId toyHC gDflt 0 = fullId toyHC gDflt 1
    ∧ argStream (cfgAt toyHC gDflt 7 [2]) (ceqAt toyHC gDflt 7 [2]) gDflt.mt (argX 6) ≠ [] := by decide

end XpmVerif.C02
