/-! M6 (generated-path part, C17): `PathGenerator` (generators.py), `ConfigWalkContext.push /
    currentpath`, `ConfigWalk.__call__` and `ConfigInformation.seal` (core/objects.py),
    `JobContext.path` (scheduler/base.py).

    Strings are `List Char`.  A generated path is kept *relative to the job directory*
    (`PPath.abs = false`) unless a pushed key or the file name is absolute (then `pathlib`
    discards everything on the left: `PPath.abs = true`).

    What the walker does, as read from the source:
    * `ConfigWalk.__call__(x)` for a configuration: already in `visited` → return; record it in
      `visited`; `Sealer.preprocess` stops at a sealed configuration; otherwise the set arguments are
      walked in declaration order under `push(arg.name)`, then the pre-tasks under
      `push("__pre_tasks__")` + list index, then the init tasks under `push("__init_tasks__")` + list
      index, then (recurse_task) the linked task *at the same position*, and finally
      `Sealer.postprocess` runs the generators of the configuration with the position of its
      (first) visit and seals it.
    * lists push `str(i)`, dicts push the key (through `enc`, the key encoder: the identity in the
      current source; `escapeKey` is the encoder of the proposed repair of F16).
    * `push(key)`: `_configpath = (Path("out") if _configpath is None else _configpath) / key`;
      `currentpath() = job.path / _configpath` (or `job.path` at the root);
      `PathGenerator.__call__ = currentpath() / Path(file)`.

    The within-node traversal is compiled to the ordered list of configuration references with
    their relative key paths (`refs`, structural on `Val`); fuel is consumed only at node jumps. -/
namespace XpmVerif.GenPath

abbrev Str := List Char
abbrev NodeId := Nat

/-! ### pathlib (pure POSIX paths) -/

/-- Python `s.split("/")`. -/
def splitSlash : Str → List Str
  | [] => [[]]
  | c :: cs =>
    if c = '/' then [] :: splitSlash cs
    else match splitSlash cs with
      | [] => [[c]]
      | h :: t => (c :: h) :: t

/-- the components `pathlib` keeps of a string: empty and `.` components are dropped. -/
def parts (s : Str) : List Str := (splitSlash s).filter (fun c => c ≠ [] ∧ c ≠ ['.'])

def isAbs (s : Str) : Bool := s.head? == some '/'

/-- a path, relative to the job directory when `abs = false`. -/
structure PPath where
  abs : Bool
  comps : List Str
  deriving DecidableEq, Repr

/-- `p / s` of pathlib. -/
def PPath.join (p : PPath) (s : Str) : PPath :=
  if isAbs s then ⟨true, parts s⟩ else ⟨p.abs, p.comps ++ parts s⟩

/-- `ConfigWalkContext.currentpath()` (relative to `job.path`) when the stack of pushed keys is `keys`
    (outermost first): `job.path` itself at the root, else `job.path / (Path("out") / k1 / k2 / …)`. -/
def currentPath : List Str → PPath
  | [] => ⟨false, []⟩
  | keys => keys.foldl PPath.join ⟨false, [['o', 'u', 't']]⟩

/-- `PathGenerator.__call__`: `context.currentpath() / Path(file)`. -/
def genPath (keys : List Str) (file : Str) : PPath := (currentPath keys).join file

/-- a single, real path component: not empty, no `/`, neither `.` nor `..`. -/
def Plain (s : Str) : Prop := s ≠ [] ∧ '/' ∉ s ∧ s ≠ ['.'] ∧ s ≠ ['.', '.']

instance (s : Str) : Decidable (Plain s) := by unfold Plain; infer_instance

/-- lexical resolution of `..` below a directory: `none` when the path climbs above it. -/
def resolveIn : List Str → List Str → Option (List Str)
  | stack, [] => some stack.reverse
  | stack, c :: cs =>
    if c = ['.', '.'] then
      match stack with
      | [] => none
      | _ :: st => resolveIn st cs
    else resolveIn (c :: stack) cs

/-- "resolves inside the job directory" (no symbolic links are created by path generation):
    relative to the job directory, stays below it when `..` is resolved, and is not the
    directory itself. -/
def PPath.Inside (p : PPath) : Prop :=
  p.abs = false ∧ ∃ r, resolveIn [] p.comps = some r ∧ r ≠ []

/-! ### key encoders -/

/-- `str(i)` -/
def idxKey (i : Nat) : Str := Nat.toDigits 10 i

def escChar (c : Char) : Str :=
  if c = '%' then ['%', '2', '5'] else if c = '/' then ['%', '2', 'F'] else [c]

/-- the encoder of the proposed repair: `%`→`%25`, `/`→`%2F`, and the three strings that are not
    components (`""`, `"."`, `".."`) get a `%` in front. -/
def escapeKey (k : Str) : Str :=
  let s := k.flatMap escChar
  if s = [] ∨ s = ['.'] ∨ s = ['.', '.'] then '%' :: s else s

/-! ### values, nodes, graph -/

inductive Val where
  | none                                  -- Python `None` (argument present, value None)
  | scalar                                -- int / float / str / Path / Enum
  | list (vs : List Val)
  | dict (ks : List Str) (vs : List Val)  -- insertion order, parallel lists
  | ref (n : NodeId)                      -- a configuration object
  deriving Repr

structure Node where
  /-- arguments present in `__xpm__.values`, in declaration order (`xpmtype.arguments`). -/
  args : List (Str × Val) := []
  /-- arguments with a path generator: (argument name, file name), declaration order. -/
  gens : List (Str × Str) := []
  preTasks : List NodeId := []
  initTasks : List NodeId := []
  task : Option NodeId := none
  isSealed : Bool := false
  deriving Repr

structure Graph where
  nodes : List Node
  deriving Repr

def Graph.node (g : Graph) (n : NodeId) : Option Node := g.nodes[n]?

def preKey : Str := "__pre_tasks__".toList
def initKey : Str := "__init_tasks__".toList

abbrev Ref := List Str × NodeId

def prep (k : Str) (e : Ref) : Ref := (k :: e.1, e.2)

mutual
/-- configuration references below a value, in the walker's order, with the keys pushed on the way. -/
def refs (enc : Str → Str) : Val → List Ref
  | .none => []
  | .scalar => []
  | .ref n => [([], n)]
  | .list vs => refsList enc 0 vs
  | .dict ks vs => refsDict enc ks vs
def refsList (enc : Str → Str) (i : Nat) : List Val → List Ref
  | [] => []
  | v :: vs => (refs enc v).map (prep (idxKey i)) ++ refsList enc (i + 1) vs
def refsDict (enc : Str → Str) : List Str → List Val → List Ref
  | k :: ks, v :: vs => (refs enc v).map (prep (enc k)) ++ refsDict enc ks vs
  | _, _ => []
end

def refsArgs (enc : Str → Str) : List (Str × Val) → List Ref
  | [] => []
  | (k, v) :: r => (refs enc v).map (prep k) ++ refsArgs enc r

/-- everything `ConfigWalk.__call__` walks below a configuration under a push, in order. -/
def nodeRefs (enc : Str → Str) (nd : Node) : List Ref :=
  refsArgs enc nd.args
    ++ (refsList enc 0 (nd.preTasks.map Val.ref)).map (prep preKey)
    ++ (refsList enc 0 (nd.initTasks.map Val.ref)).map (prep initKey)

/-- walker state: `visited` and the processed configurations with the key stack of their visit
    (in `postprocess` order). -/
structure W where
  vis : List NodeId := []
  out : List (NodeId × List Str) := []
  deriving Repr

/-- `Sealer(context, recurse_task=True)(x)` with key stack `p`. -/
def walkNode (enc : Str → Str) (g : Graph) : Nat → List Str → NodeId → W → W
  | 0, _, _, w => w
  | fuel + 1, p, n, w =>
    if n ∈ w.vis then w else
    match g.node n with
    | none => w
    | some nd =>
      let w1 : W := { w with vis := n :: w.vis }
      if nd.isSealed then w1 else
      let w2 := (nodeRefs enc nd).foldl (fun w e => walkNode enc g fuel (p ++ e.1) e.2 w) w1
      let w3 := match nd.task with
        | none => w2
        | some t => if t = n then w2 else walkNode enc g fuel p t w2
      { w3 with out := w3.out ++ [(n, p)] }

/-- configurations sealed by `root.seal(JobContext(job))`, each with the key stack of its visit. -/
def sealed (enc : Str → Str) (g : Graph) (root : NodeId) : List (NodeId × List Str) :=
  (walkNode enc g (g.nodes.length + 1) [] root {}).out

structure Entry where
  node : NodeId
  arg : Str
  file : Str
  keys : List Str
  path : PPath
  deriving DecidableEq, Repr

def entriesOf (g : Graph) (e : NodeId × List Str) : List Entry :=
  match g.node e.1 with
  | none => []
  | some nd => nd.gens.map (fun a => { node := e.1, arg := a.1, file := a.2, keys := e.2, path := genPath e.2 a.2 })

/-- the paths generated when task `root` is submitted: one entry per generator argument of every
    configuration sealed by this submission. -/
def genpaths (enc : Str → Str) (g : Graph) (root : NodeId) : List Entry :=
  (sealed enc g root).flatMap (entriesOf g)

/-! ### the walks of one `submit` call

    `ConfigInformation.submit` runs `self.validate_and_seal(job_context)` and then, under
    `push("__init_tasks__")` / `push(str(ix))`, `init_task.__xpm__.validate_and_seal(job_context)` for every
    init task: a task that was sealed before its submission (as a parameter of another task, by
    `instance()`) is not walked, so its init tasks are walked on their own, at the position they have in the
    task.  Each `validate_and_seal` uses a new `Sealer` (new `visited`), but everything a finished walk
    visited is sealed afterwards, so threading `visited` over the unchanged flags is the same thing. -/

/-- the init tasks of a configuration with their positions `__init_tasks__` / index (the last part of `nodeRefs`). -/
def initRefs (enc : Str → Str) (nd : Node) : List Ref :=
  (refsList enc 0 (nd.initTasks.map Val.ref)).map (prep initKey)

/-- the root walk followed by the walks of the init tasks of `root`, with fuel `fuel` for each walk. -/
def submitWalk (enc : Str → Str) (g : Graph) (fuel : Nat) (root : NodeId) : W :=
  let w0 := walkNode enc g fuel [] root {}
  match g.node root with
  | none => w0
  | some nd => (initRefs enc nd).foldl (fun w e => walkNode enc g fuel e.1 e.2 w) w0

/-- configurations sealed by `root.submit()` (graph `g`: init tasks already set), with the key stack of their visit. -/
def submitSealed (enc : Str → Str) (g : Graph) (root : NodeId) : List (NodeId × List Str) :=
  (submitWalk enc g (g.nodes.length + 1) root).out

/-- all the paths generated by `root.submit()`, relative to the job directory of `root`. -/
def submitPaths (enc : Str → Str) (g : Graph) (root : NodeId) : List Entry :=
  (submitSealed enc g root).flatMap (entriesOf g)

/-! ### submission (graph update), for the driver and the multi-submit correspondence -/

def setAt {α : Type} (l : List α) (i : Nat) (f : α → α) : List α :=
  match l[i]? with
  | some a => l.set i (f a)
  | none => l

/-- `task.submit(init_tasks=…)`: sets the init tasks, seals (the task, then its init tasks), then marks
    `task.__xpm__.task = task`. -/
def submit (enc : Str → Str) (g : Graph) (root : NodeId) (inits : List NodeId) : Graph × List Entry :=
  let g1 : Graph := ⟨setAt g.nodes root (fun nd => { nd with initTasks := inits })⟩
  let s := submitSealed enc g1 root
  let out := s.flatMap (entriesOf g1)
  let g2 : Graph := ⟨s.foldl (fun ns e => setAt ns e.1 (fun nd => { nd with isSealed := true })) g1.nodes⟩
  (⟨setAt g2.nodes root (fun nd => { nd with task := some root })⟩, out)

/-- `c.copy_dependencies(o)`: `c.task = o.task` when `o.task` is set. -/
def copyDeps (g : Graph) (c o : NodeId) : Graph :=
  match g.node o with
  | some no => match no.task with
    | some t => ⟨setAt g.nodes c (fun nd => { nd with task := some t })⟩
    | none => g
  | none => g

/-! ### hypotheses of the theorems (decidable, so that they can be evaluated on concrete graphs) -/

mutual
/-- every dict below the value has encoded keys that are plain and pairwise different. -/
def valOK (enc : Str → Str) : Val → Bool
  | .none => true
  | .scalar => true
  | .ref _ => true
  | .list vs => valsOK enc vs
  | .dict ks vs => decide (ks.map enc).Nodup && (ks.map enc).all (fun k => decide (Plain k)) && valsOK enc vs
def valsOK (enc : Str → Str) : List Val → Bool
  | [] => true
  | v :: vs => valOK enc v && valsOK enc vs
end

/-- argument names are plain, pairwise different and not the two reserved keys; generator file names
    are plain; generator argument names are pairwise different; dict keys are fine. -/
def nodeOK (enc : Str → Str) (nd : Node) : Bool :=
  decide (nd.args.map Prod.fst).Nodup
    && (nd.args.map Prod.fst).all (fun k => decide (Plain k) && decide (k ≠ preKey) && decide (k ≠ initKey))
    && nd.args.all (fun a => valOK enc a.2)
    && nd.gens.all (fun a => decide (Plain a.2))
    && decide (nd.gens.map Prod.fst).Nodup

/-- a linked task (`__xpm__.task`) that is not the configuration itself is already sealed: `task` is
    only ever set by `submit` (after sealing) and copied by `copy_dependencies`. -/
def taskOK (g : Graph) (n : NodeId) (nd : Node) : Bool :=
  match nd.task with
  | none => true
  | some t => t == n || (match g.node t with | some nt => nt.isSealed | none => true)

def Graph.OK (enc : Str → Str) (g : Graph) : Prop :=
  ∀ n nd, g.node n = some nd → nodeOK enc nd = true ∧ taskOK g n nd = true

/-- the same checks as a Boolean over the whole graph (for concrete graphs: `decide`). -/
def Graph.okB (enc : Str → Str) (g : Graph) : Bool :=
  (List.range g.nodes.length).all (fun n =>
    match g.node n with
    | some nd => nodeOK enc nd && taskOK g n nd
    | none => true)

mutual
/-- every dict below the value has pairwise different keys (true of any Python dict). -/
def valDictOK : Val → Bool
  | .none => true
  | .scalar => true
  | .ref _ => true
  | .list vs => valsDictOK vs
  | .dict ks vs => decide ks.Nodup && valsDictOK vs
def valsDictOK : List Val → Bool
  | [] => true
  | v :: vs => valDictOK v && valsDictOK vs
end

/-- `nodeOK` without any condition on the *content* of dict keys. -/
def nodeOKany (nd : Node) : Bool :=
  decide (nd.args.map Prod.fst).Nodup
    && (nd.args.map Prod.fst).all (fun k => decide (Plain k) && decide (k ≠ preKey) && decide (k ≠ initKey))
    && nd.args.all (fun a => valDictOK a.2)
    && nd.gens.all (fun a => decide (Plain a.2))
    && decide (nd.gens.map Prod.fst).Nodup

def Graph.OKany (g : Graph) : Prop :=
  ∀ n nd, g.node n = some nd → nodeOKany nd = true ∧ taskOK g n nd = true

def Graph.okAnyB (g : Graph) : Bool :=
  (List.range g.nodes.length).all (fun n =>
    match g.node n with
    | some nd => nodeOKany nd && taskOK g n nd
    | none => true)

/-! ### renaming of objects (for `genpath_deterministic`) -/

mutual
def Val.rename (σ : NodeId → NodeId) : Val → Val
  | .none => .none
  | .scalar => .scalar
  | .ref n => .ref (σ n)
  | .list vs => .list (renameVals σ vs)
  | .dict ks vs => .dict ks (renameVals σ vs)
def renameVals (σ : NodeId → NodeId) : List Val → List Val
  | [] => []
  | v :: vs => v.rename σ :: renameVals σ vs
end

def Node.rename (σ : NodeId → NodeId) (nd : Node) : Node :=
  { nd with args := nd.args.map (fun a => (a.1, a.2.rename σ)), preTasks := nd.preTasks.map σ,
            initTasks := nd.initTasks.map σ, task := nd.task.map σ }

def Entry.rename (σ : NodeId → NodeId) (e : Entry) : Entry := { e with node := σ e.node }

/-- `g'` is the same configuration as `g` built again: the objects are different (`σ` maps an
    object of `g` to the corresponding object of `g'`), everything else is equal. -/
structure Graph.Same (σ : NodeId → NodeId) (g g' : Graph) : Prop where
  inj : ∀ a b, σ a = σ b → a = b
  len : g'.nodes.length = g.nodes.length
  node : ∀ n, g'.node (σ n) = (g.node n).map (Node.rename σ)

end XpmVerif.GenPath
