import XpmVerif.Model.Deprecated
/-! Helper lemmas for C20: (a) effective type identifiers of deprecated classes, (b) the jobs tree under
    `fix_deprecated` — resolution of links under updates, the two passes step by step, conservation of
    directories, reachability of new locations, runs that change nothing. -/
namespace XpmVerif.Deprecated
open XpmVerif.Ident List

/-! ## (a) deprecated classes -/

theorem effAt_succ (cs : List ClassDecl) : ∀ f c, c ≤ f → effAt cs (f + 1) c = effAt cs f c := by
  intro f
  induction f with
  | zero =>
    intro c hc
    have : c = 0 := by omega
    subst this
    simp only [effAt]
    split <;> simp
  | succ f ih =>
    intro c hc
    rw [effAt, effAt]
    split
    · rename_i p _
      by_cases hp : p < c
      · simp only [hp, if_true]
        exact ih p (by omega)
      · simp [hp]
    · rfl

theorem effAt_stable (cs : List ClassDecl) (c : Nat) : ∀ f, c ≤ f → effAt cs f c = eff cs c := by
  intro f hf
  obtain ⟨d, rfl⟩ : ∃ d, f = c + d := ⟨f - c, by omega⟩
  clear hf
  induction d with
  | zero => rfl
  | succ d ih => rw [← Nat.add_assoc, effAt_succ cs (c + d) c (by omega), ih]

/-- `deprecate()`: the class now carries its parent's identifier. -/
theorem eff_deprecated (cs : List ClassDecl) (c p : Nat) (hd : (cdecl cs c).deprecatedOf = some p) (hp : p < c) :
    eff cs c = eff cs p := by
  obtain ⟨c', rfl⟩ : ∃ c', c = c' + 1 := ⟨c - 1, by omega⟩
  rw [eff, effAt, hd]
  simp only [hp, if_true]
  exact effAt_stable cs p c' (by omega)

theorem eff_not_deprecated (cs : List ClassDecl) (c : Nat) (hd : (cdecl cs c).deprecatedOf = none) :
    eff cs c = (cdecl cs c).ownId := by
  unfold eff
  cases c <;> simp [effAt, hd]

theorem eff_replacement (cs : List ClassDecl) (c : Nat) : eff cs (replacement cs c) = eff cs c := by
  unfold replacement
  split
  · rename_i p hd
    by_cases hp : p < c
    · simp only [hp, if_true]; exact (eff_deprecated cs c p hd hp).symm
    · simp [hp]
  · rfl

theorem eff_ultimateAt (cs : List ClassDecl) : ∀ f c, eff cs (ultimateAt cs f c) = eff cs c := by
  intro f
  induction f with
  | zero => intro c; rfl
  | succ f ih => intro c; rw [ultimateAt, ih, eff_replacement]

theorem eff_ultimate (cs : List ClassDecl) (c : Nat) : eff cs (ultimate cs c) = eff cs c := eff_ultimateAt cs c c

/-- re-classing nodes with a map that keeps the effective type identifier gives the *same* graph
    of Model/Ident. -/
theorem toGraph_reclassWith (r : Nat → Nat) (sel : Nat → Bool) (g : CGraph)
    (hr : ∀ c, eff g.classes (r c) = eff g.classes c) : (reclassWith r sel g).toGraph = g.toGraph := by
  simp only [CGraph.toGraph, reclassWith, Graph.mk.injEq]
  apply List.ext_getElem
  · simp
  · intro i h1 h2
    simp only [getElem_map, getElem_mapIdx]
    split
    · simp [CNode.toNode, hr]
    · rfl

/-! ## (b) the jobs tree -/

/-! ### `resolve` -/

theorem resolve_at_dir {t : Tree} {k : Key} {d p} (h : t k = some (.dir d p)) (f : Nat) : resolve t (f + 1) k = some k := by
  simp [resolve, h]
theorem resolve_at_link {t : Tree} {k g : Key} (h : t k = some (.link g)) (f : Nat) : resolve t (f + 1) k = resolve t f g := by
  simp [resolve, h]
theorem resolve_at_none {t : Tree} {k : Key} (h : t k = none) (f : Nat) : resolve t f k = none := by
  cases f <;> simp [resolve, h]

theorem upd_same (t : Tree) (k : Key) (v) : upd t k v k = v := by simp [upd]
theorem upd_other (t : Tree) {k j : Key} (v) (h : j ≠ k) : upd t k v j = t j := by simp [upd, h]

/-- generic induction principle for facts about a successful resolution. -/
theorem resolve_ind {t : Tree} {r : Key} (P : Nat → Key → Prop)
    (hdir : ∀ f d p, t r = some (.dir d p) → P (f + 1) r)
    (hlink : ∀ f k g, t k = some (.link g) → resolve t f g = some r → P f g → P (f + 1) k) :
    ∀ {f k}, resolve t f k = some r → P f k := by
  intro f
  induction f with
  | zero => intro k h; simp [resolve] at h
  | succ f ih =>
    intro k h
    cases hk : t k with
    | none => rw [resolve_at_none hk] at h; simp at h
    | some e =>
      cases e with
      | dir d p =>
        rw [resolve_at_dir hk] at h
        simp only [Option.some.injEq] at h; subst h
        exact hdir f d p hk
      | link g =>
        rw [resolve_at_link hk] at h
        exact hlink f k g hk h (ih h)

theorem resolve_dir {t : Tree} {f k r} (h : resolve t f k = some r) : ∃ d p, t r = some (.dir d p) :=
  resolve_ind (fun _ _ => ∃ d p, t r = some (.dir d p)) (fun _ d p h => ⟨d, p, h⟩) (fun _ _ _ _ _ ih => ih) h

theorem resolve_succ {t : Tree} {f k r} (h : resolve t f k = some r) : resolve t (f + 1) k = some r :=
  resolve_ind (fun f k => resolve t (f + 1) k = some r) (fun f d p h => resolve_at_dir h (f + 1))
    (fun f k g hk _ ih => by rw [resolve_at_link hk]; exact ih) h

theorem resolve_mono {t : Tree} {f f' : Nat} {k r : Key} (h : resolve t f k = some r) (hf : f ≤ f') :
    resolve t f' k = some r := by
  obtain ⟨d, rfl⟩ : ∃ d, f' = f + d := ⟨f' - f, by omega⟩
  clear hf
  induction d with
  | zero => exact h
  | succ d ih => exact resolve_succ ih

/-- a change at a location `j` that the resolution does not pass through is invisible;
    `hj k` rules `j` out for every link `k` on the way and for the end point. -/
theorem resolve_upd_of_ne {t : Tree} {j : Key} (v) {r : Key} (hr : r ≠ j)
    (hl : ∀ f k g, t k = some (.link g) → resolve t f g = some r → k ≠ j) :
    ∀ {f k}, resolve t f k = some r → resolve (upd t j v) f k = some r := by
  intro f k h
  exact resolve_ind (fun f k => resolve (upd t j v) f k = some r)
    (fun f d p h => by
      have : upd t j v r = some (.dir d p) := by rw [upd_other t v hr]; exact h
      exact resolve_at_dir this f)
    (fun f k g hk hg ih => by
      have : upd t j v k = some (.link g) := by rw [upd_other t v (hl f k g hk hg)]; exact hk
      rw [resolve_at_link this]; exact ih) h

/-- filling an absent location does not change what resolves. -/
theorem resolve_upd_absent {t : Tree} {j : Key} (v) (hj : t j = none) {f k r} (h : resolve t f k = some r) :
    resolve (upd t j v) f k = some r := by
  obtain ⟨d, p, hd⟩ := resolve_dir h
  exact resolve_upd_of_ne v (by intro e; subst e; simp [hj] at hd)
    (fun _ k g hk _ => by intro e; subst e; simp [hj] at hk) h

/-- removing a directory only affects what resolved to it. -/
theorem resolve_rm_dir {t : Tree} {j : Key} {d0 p0} (hj : t j = some (.dir d0 p0)) {f k r} (hr : r ≠ j)
    (h : resolve t f k = some r) : resolve (upd t j none) f k = some r :=
  resolve_upd_of_ne none hr (fun _ k g hk _ => by intro e; subst e; simp [hj] at hk) h

/-- removing a location that does not resolve does not change what resolves. -/
theorem resolve_rm_dangling {t : Tree} {j : Key} (hd : resolve t depth j = none) :
    ∀ {f k r}, f ≤ depth → resolve t f k = some r → resolve (upd t j none) f k = some r := by
  intro f
  induction f with
  | zero => intro k r _ h; simp [resolve] at h
  | succ f ih =>
    intro k r hf h
    have hk : k ≠ j := by
      intro e; subst e
      rw [resolve_mono h hf] at hd; simp at hd
    cases hkk : t k with
    | none => rw [resolve_at_none hkk] at h; simp at h
    | some e =>
      have hu : upd t j none k = some e := by rw [upd_other t none hk]; exact hkk
      cases e with
      | dir d p =>
        rw [resolve_at_dir hkk] at h; rw [resolve_at_dir hu]; exact h
      | link g =>
        rw [resolve_at_link hkk] at h; rw [resolve_at_link hu]; exact ih (by omega) h

/-- what resolves in a tree with one entry less resolved before. -/
theorem resolve_of_rm {t : Tree} {j : Key} :
    ∀ {f k r}, resolve (upd t j none) f k = some r → resolve t f k = some r := by
  intro f
  induction f with
  | zero => intro k r h; simp [resolve] at h
  | succ f ih =>
    intro k r h
    have hk : k ≠ j := by
      intro e; subst e; rw [resolve_at_none (upd_same t k none)] at h; simp at h
    cases hkk : t k with
    | none =>
      have hu : upd t j none k = none := by rw [upd_other t none hk]; exact hkk
      rw [resolve_at_none hu] at h; simp at h
    | some e =>
      have hu : upd t j none k = some e := by rw [upd_other t none hk]; exact hkk
      cases e with
      | dir d p =>
        rw [resolve_at_dir hu] at h; rw [resolve_at_dir hkk]; exact h
      | link g =>
        rw [resolve_at_link hu] at h; rw [resolve_at_link hkk]; exact ih h

/-! ### `rmDangling` -/

theorem rmDangling_cases (t : Tree) (x : Key) :
    rmDangling t x = t ∨ (isLink t x = true ∧ resolve t depth x = none ∧ rmDangling t x = upd t x none) := by
  unfold rmDangling
  by_cases h : (isLink t x && (resolve t depth x).isNone) = true
  · right
    simp only [h, if_true]
    simp only [Bool.and_eq_true, Option.isNone_iff_eq_none] at h
    exact ⟨h.1, h.2, trivial⟩
  · left; simp [h]

theorem isLink_iff {t : Tree} {k : Key} : isLink t k = true ↔ ∃ g, t k = some (.link g) := by
  unfold isLink
  split <;> simp_all

theorem rmDangling_dir {t : Tree} {x j : Key} {d p} (h : t j = some (.dir d p)) : rmDangling t x j = some (.dir d p) := by
  rcases rmDangling_cases t x with e | ⟨hl, _, e⟩
  · rw [e]; exact h
  · rw [e]
    obtain ⟨g, hg⟩ := isLink_iff.mp hl
    have : j ≠ x := by intro e'; subst e'; simp [h] at hg
    rw [upd_other t none this]; exact h

theorem rmDangling_dir_inv {t : Tree} {x j : Key} {d p} (h : rmDangling t x j = some (.dir d p)) : t j = some (.dir d p) := by
  rcases rmDangling_cases t x with e | ⟨_, _, e⟩
  · rw [e] at h; exact h
  · rw [e] at h
    by_cases hj : j = x
    · subst hj; simp [upd_same] at h
    · rwa [upd_other t none hj] at h

theorem rmDangling_resolve {t : Tree} {x k r : Key} {f : Nat} (hf : f ≤ depth) (h : resolve t f k = some r) :
    resolve (rmDangling t x) f k = some r := by
  rcases rmDangling_cases t x with e | ⟨_, hd, e⟩
  · rw [e]; exact h
  · rw [e]; exact resolve_rm_dangling hd hf h

/-- after the dangling link has been removed, a new location that does not resolve is free. -/
theorem rmDangling_none {t : Tree} {x : Key} (h : resolve (rmDangling t x) depth x = none) : rmDangling t x x = none := by
  rcases rmDangling_cases t x with e | ⟨_, _, e⟩
  · rw [e] at h ⊢
    have hnl : isLink t x = false := by
      unfold rmDangling at e
      by_cases hl : isLink t x = true
      · exfalso
        simp only [hl, h, Option.isNone_none, Bool.and_self, if_true] at e
        have := congrFun e x
        rw [upd_same] at this
        obtain ⟨g, hg⟩ := isLink_iff.mp hl
        simp [hg] at this
      · simpa using hl
    cases hx : t x with
    | none => rfl
    | some e' =>
      cases e' with
      | dir d p => rw [show depth = 40 + 1 from rfl, resolve_at_dir hx] at h; simp at h
      | link g => simp [isLink, hx] at hnl
  · rw [e, upd_same]

/-- if the new location resolves after the removal, nothing was removed. -/
theorem rmDangling_some {t : Tree} {x r : Key} (h : resolve (rmDangling t x) depth x = some r) : rmDangling t x = t := by
  rcases rmDangling_cases t x with e | ⟨_, _, e⟩
  · exact e
  · rw [e, resolve_at_none (upd_same t x none)] at h; simp at h


/-! ### one step of the second pass -/

/-- the tree after the step in the two branches that change something. -/
def placed (cl : Bool) (t : Tree) (k : Key) (d : Nat) (nk : Key) : Tree :=
  if cl then upd (upd (rmDangling t nk) nk (some (.dir d (.ok nk)))) k none
  else upd (rmDangling t nk) nk (some (.link k))

theorem step2_eq_or (fx cl : Bool) (t : Tree) (k : Key) :
    step2 fx cl t k = t ∨
    ∃ d nk, fx = true ∧ t k = some (.dir d (.ok nk)) ∧ nk.2 ≠ k.2 ∧ resolve t depth nk = none ∧
      rmDangling t nk nk = none ∧ step2 fx cl t k = placed cl t k d nk := by
  unfold step2
  split
  · rename_i d nk hk
    by_cases hid : nk.2 = k.2
    · left; simp [hid]
    · simp only [hid, if_false]
      cases fx with
      | false => left; simp
      | true =>
        simp only [Bool.not_true, Bool.false_eq_true, if_false]
        cases hr : resolve (rmDangling t nk) depth nk with
        | some r => left; simp only; exact rmDangling_some hr
        | none =>
          right
          refine ⟨d, nk, by simp, hk, hid, ?_, rmDangling_none hr, ?_⟩
          · cases h0 : resolve t depth nk with
            | none => rfl
            | some r => rw [rmDangling_resolve (Nat.le_refl _) h0] at hr; simp at hr
          · simp only [placed]
  · left; rfl

/-- when the step concerns a directory with a new location: either the location resolves (nothing is
    done) or the directory is placed there. -/
theorem step2_spec (cl : Bool) (t : Tree) (k : Key) (d : Nat) (nk : Key)
    (hk : t k = some (.dir d (.ok nk))) (hne : nk.2 ≠ k.2) :
    (∃ r, resolve t depth nk = some r ∧ step2 true cl t k = t) ∨
    (resolve t depth nk = none ∧ rmDangling t nk nk = none ∧ step2 true cl t k = placed cl t k d nk) := by
  unfold step2
  simp only [hk, hne, if_false, Bool.not_true, Bool.false_eq_true]
  cases hr : resolve (rmDangling t nk) depth nk with
  | some r =>
    left
    have e := rmDangling_some hr
    rw [e] at hr
    exact ⟨r, hr, e⟩
  | none =>
    right
    refine ⟨?_, rmDangling_none hr, ?_⟩
    · cases h0 : resolve t depth nk with
      | none => rfl
      | some r => rw [rmDangling_resolve (Nat.le_refl _) h0] at hr; simp at hr
    · simp only [placed]

theorem key_ne_of_snd {a b : Key} (h : a.2 ≠ b.2) : a ≠ b := by intro e; subst e; exact h rfl

/-- directories under `placed`: the one at `k` is at `nk` when moved, every other one is untouched. -/
theorem placed_dir {cl : Bool} {t : Tree} {k nk : Key} {d : Nat} (hk : t k = some (.dir d (.ok nk)))
    (hne : nk.2 ≠ k.2) (hfree : rmDangling t nk nk = none) {j : Key} {d' p'} (hj : t j = some (.dir d' p')) :
    placed cl t k d nk j = some (.dir d' p') ∨
    (cl = true ∧ j = k ∧ d' = d ∧ p' = .ok nk ∧ placed cl t k d nk k = none ∧ placed cl t k d nk nk = some (.dir d (.ok nk))) := by
  have hnk : nk ≠ k := key_ne_of_snd hne
  have hj1 := rmDangling_dir (x := nk) hj
  have hjnk : j ≠ nk := by intro e; subst e; simp [hfree] at hj1
  cases cl with
  | false =>
    left
    simp only [placed, Bool.false_eq_true, if_false]
    rw [upd_other _ _ hjnk]; exact hj1
  | true =>
    simp only [placed, if_true]
    by_cases hjk : j = k
    · right
      subst hjk
      rw [hk] at hj
      simp only [Option.some.injEq, Entry.dir.injEq] at hj
      refine ⟨by simp, rfl, hj.1.symm, hj.2.symm, upd_same _ _ _, ?_⟩
      rw [upd_other _ _ hnk, upd_same]
    · left
      rw [upd_other _ _ hjk, upd_other _ _ hjnk]; exact hj1

/-- **directories are never lost by a step**: a directory stays where it is, or (clean-up) it is the
    one being repaired and is now at its new location, which did not resolve before. -/
theorem step2_dir (fx cl : Bool) (t : Tree) (k j : Key) {d p} (hj : t j = some (.dir d p)) :
    step2 fx cl t k j = some (.dir d p) ∨
    (fx = true ∧ cl = true ∧ j = k ∧ ∃ nk, p = .ok nk ∧ nk.2 ≠ k.2 ∧ resolve t depth nk = none ∧
      step2 fx cl t k k = none ∧ step2 fx cl t k nk = some (.dir d p)) := by
  rcases step2_eq_or fx cl t k with e | ⟨d0, nk, hfx, hk, hne, hres, hfree, e⟩
  · left; rw [e]; exact hj
  · rw [e]
    rcases placed_dir hk hne hfree hj with h | ⟨hcl, hjk, hd, hp, h1, h2⟩
    · left; exact h
    · right
      subst hjk; subst hd; subst hp
      exact ⟨hfx, hcl, rfl, nk, rfl, hne, hres, h1, h2⟩

/-- a step never creates a directory: a directory present afterwards was there before, at the same
    place or (clean-up) at the old location of the repaired one. -/
theorem step2_dir_inv (fx cl : Bool) (t : Tree) (k j : Key) {d p} (hj : step2 fx cl t k j = some (.dir d p)) :
    t j = some (.dir d p) ∨ (cl = true ∧ t k = some (.dir d p) ∧ p = .ok j ∧ j ≠ k ∧ step2 fx cl t k k = none) := by
  rcases step2_eq_or fx cl t k with e | ⟨d0, nk, hfx, hk, hne, hres, hfree, e⟩
  · left; rw [e] at hj; exact hj
  · rw [e] at hj
    have hnk : nk ≠ k := key_ne_of_snd hne
    cases cl with
    | false =>
      left
      simp only [placed, Bool.false_eq_true, if_false] at hj
      by_cases hjnk : j = nk
      · subst hjnk; rw [upd_same] at hj; simp at hj
      · rw [upd_other _ _ hjnk] at hj; exact rmDangling_dir_inv hj
    | true =>
      simp only [placed, if_true] at hj
      by_cases hjk : j = k
      · subst hjk; rw [upd_same] at hj; simp at hj
      · rw [upd_other _ _ hjk] at hj
        by_cases hjnk : j = nk
        · subst hjnk; rw [upd_same] at hj
          simp only [Option.some.injEq, Entry.dir.injEq] at hj
          right
          refine ⟨rfl, ?_, hj.2.symm, hjk, ?_⟩
          · rw [hk, ← hj.1, ← hj.2]
          · rw [e]; simp only [placed, if_true]; exact upd_same _ _ _
        · left; rw [upd_other _ _ hjnk] at hj; exact rmDangling_dir_inv hj


/-! ### the first pass -/

theorem step1_cases (t : Tree) (k : Key) : step1 t k = t ∨ (isLink t k = true ∧ globbed t k = true ∧ step1 t k = upd t k none) := by
  unfold step1
  by_cases h : (isLink t k && globbed t k) = true
  · right
    simp only [Bool.and_eq_true] at h
    simp [h.1, h.2]
  · left; simp [h]

theorem step1_dir {t : Tree} {k j : Key} {d p} (h : t j = some (.dir d p)) : step1 t k j = some (.dir d p) := by
  rcases step1_cases t k with e | ⟨hl, _, e⟩
  · rw [e]; exact h
  · rw [e]
    obtain ⟨g, hg⟩ := isLink_iff.mp hl
    have : j ≠ k := by intro e'; subst e'; simp [h] at hg
    rw [upd_other t none this]; exact h

theorem step1_dir_inv {t : Tree} {k j : Key} {d p} (h : step1 t k j = some (.dir d p)) : t j = some (.dir d p) := by
  rcases step1_cases t k with e | ⟨_, _, e⟩
  · rw [e] at h; exact h
  · rw [e] at h
    by_cases hj : j = k
    · subst hj; simp [upd_same] at h
    · rwa [upd_other t none hj] at h

theorem foldl_step1_dir {ks : List Key} : ∀ {t : Tree} {j : Key} {d p}, t j = some (.dir d p) → ks.foldl step1 t j = some (.dir d p) := by
  induction ks with
  | nil => intro t j d p h; exact h
  | cons k ks ih => intro t j d p h; exact ih (step1_dir h)

theorem foldl_step1_dir_inv {ks : List Key} : ∀ {t : Tree} {j : Key} {d p}, ks.foldl step1 t j = some (.dir d p) → t j = some (.dir d p) := by
  induction ks with
  | nil => intro t j d p h; exact h
  | cons k ks ih => intro t j d p h; exact step1_dir_inv (ih h)

theorem phase1_dir {cl : Bool} {ks : List Key} {t : Tree} {j : Key} {d p} (h : t j = some (.dir d p)) :
    phase1 cl ks t j = some (.dir d p) := by
  unfold phase1; split
  · exact foldl_step1_dir h
  · exact h

theorem phase1_dir_inv {cl : Bool} {ks : List Key} {t : Tree} {j : Key} {d p} (h : phase1 cl ks t j = some (.dir d p)) :
    t j = some (.dir d p) := by
  unfold phase1 at h; split at h
  · exact foldl_step1_dir_inv h
  · exact h

/-! ### no directory is lost, none appears, none is duplicated -/

theorem foldl_step2_dir (fx cl : Bool) {ks : List Key} : ∀ {t : Tree} {k : Key} {d p}, t k = some (.dir d p) →
    ∃ k', ks.foldl (step2 fx cl) t k' = some (.dir d p) ∧ (k' = k ∨ (fx = true ∧ cl = true ∧ p = .ok k')) := by
  induction ks with
  | nil => intro t k d p h; exact ⟨k, h, Or.inl rfl⟩
  | cons a ks ih =>
    intro t k d p h
    rcases step2_dir fx cl t a k h with h1 | ⟨hfx, hcl, _, nk, hp, _, _, _, h2⟩
    · exact ih h1
    · obtain ⟨k', hk', hor⟩ := ih h2
      refine ⟨k', hk', ?_⟩
      rcases hor with e | e
      · right; subst e; exact ⟨hfx, hcl, hp⟩
      · right; exact e

theorem foldl_step2_dir_inv (fx cl : Bool) {ks : List Key} : ∀ {t : Tree} {k' : Key} {d p},
    ks.foldl (step2 fx cl) t k' = some (.dir d p) → ∃ k, t k = some (.dir d p) ∧ (k = k' ∨ (cl = true ∧ p = .ok k')) := by
  induction ks with
  | nil => intro t k' d p h; exact ⟨k', h, Or.inl rfl⟩
  | cons a ks ih =>
    intro t k' d p h
    obtain ⟨k, hk, hor⟩ := ih h
    rcases step2_dir_inv fx cl t a k hk with h1 | ⟨hcl, h2, hp, _, _⟩
    · exact ⟨k, h1, hor⟩
    · refine ⟨a, h2, ?_⟩
      rcases hor with e | e
      · right; subst e; exact ⟨hcl, hp⟩
      · right; exact e

/-- every content identifier names at most one directory. -/
def DataInj (t : Tree) : Prop := ∀ k1 k2 d p1 p2, t k1 = some (.dir d p1) → t k2 = some (.dir d p2) → k1 = k2

theorem step2_dataInj (fx cl : Bool) (t : Tree) (k : Key) (h : DataInj t) : DataInj (step2 fx cl t k) := by
  intro j1 j2 d p1 p2 h1 h2
  rcases step2_dir_inv fx cl t k j1 h1 with a1 | ⟨_, a1, e1, _, n1⟩ <;>
  rcases step2_dir_inv fx cl t k j2 h2 with a2 | ⟨_, a2, e2, _, n2⟩
  · exact h _ _ _ _ _ a1 a2
  · have := h _ _ _ _ _ a1 a2; subst this; rw [n2] at h1; simp at h1
  · have := h _ _ _ _ _ a1 a2; subst this; rw [n1] at h2; simp at h2
  · rw [a1] at a2
    simp only [Option.some.injEq, Entry.dir.injEq, true_and] at a2
    rw [e1, e2] at a2
    simpa using a2

theorem step1_dataInj (t : Tree) (k : Key) (h : DataInj t) : DataInj (step1 t k) := by
  intro j1 j2 d p1 p2 h1 h2
  exact h _ _ _ _ _ (step1_dir_inv h1) (step1_dir_inv h2)

theorem foldl_inv {α β : Type} (P : β → Prop) (f : β → α → β) (hf : ∀ b a, P b → P (f b a)) :
    ∀ (l : List α) (b : β), P b → P (l.foldl f b) := by
  intro l
  induction l with
  | nil => intro b h; exact h
  | cons a l ih => intro b h; exact ih _ (hf b a h)

theorem fixTree_dataInj (fx cl : Bool) (ks1 ks2 : List Key) (t : Tree) (h : DataInj t) : DataInj (fixTree fx cl ks1 ks2 t) := by
  unfold fixTree
  apply foldl_inv DataInj _ (fun b a => step2_dataInj fx cl b a)
  unfold phase1; split
  · exact foldl_inv DataInj _ (fun b a => step1_dataInj b a) _ _ h
  · exact h

/-! ### reachability under the new location -/

/-- the directory `d` (recorded at `k`, new location `nk`) is linked from its new location … -/
def Linked (k : Key) (d : Nat) (nk : Key) (t : Tree) : Prop :=
  resolve t depth nk = some k ∧ t k = some (.dir d (.ok nk))
/-- … or has been moved there. -/
def Moved (d : Nat) (nk : Key) (t : Tree) : Prop := t nk = some (.dir d (.ok nk))

theorem rmDangling_other {t : Tree} {x j : Key} (h : j ≠ x) : rmDangling t x j = t j := by
  rcases rmDangling_cases t x with e | ⟨_, _, e⟩
  · rw [e]
  · rw [e, upd_other t none h]

theorem step2_linked (fx cl : Bool) {k nk : Key} {d : Nat} (t : Tree) (a : Key)
    (h : Linked k d nk t) : Linked k d nk (step2 fx cl t a) := by
  obtain ⟨hres, hk⟩ := h
  rcases step2_eq_or fx cl t a with e | ⟨d0, na, hfx, ha, hnea, hresa, hfree, e⟩
  · rw [e]; exact ⟨hres, hk⟩
  · rw [e]
    have hak : a ≠ k := by
      intro e'; subst e'
      rw [hk] at ha
      simp only [Option.some.injEq, Entry.dir.injEq, Params.ok.injEq] at ha
      rw [← ha.2, hres] at hresa; simp at hresa
    have hr1 : resolve (rmDangling t na) depth nk = some k := rmDangling_resolve (Nat.le_refl _) hres
    constructor
    · cases cl with
      | false =>
        simp only [placed, Bool.false_eq_true, if_false]
        exact resolve_upd_absent _ hfree hr1
      | true =>
        simp only [placed, if_true]
        have hana : a ≠ na := (key_ne_of_snd hnea).symm
        have hda : upd (rmDangling t na) na (some (.dir d0 (.ok na))) a = some (.dir d0 (.ok na)) := by
          rw [upd_other _ _ hana]; exact rmDangling_dir ha
        exact resolve_rm_dir hda (Ne.symm hak) (resolve_upd_absent _ hfree hr1)
    · rcases placed_dir (cl := cl) ha hnea hfree hk with h1 | ⟨_, hka, _⟩
      · exact h1
      · exact absurd hka.symm hak

theorem step2_moved (fx cl : Bool) {nk : Key} {d : Nat} (t : Tree) (a : Key)
    (h : Moved d nk t) : Moved d nk (step2 fx cl t a) := by
  rcases step2_dir fx cl t a nk h with h1 | ⟨_, _, e, nk', hp, hne, _⟩
  · exact h1
  · subst e
    simp only [Params.ok.injEq] at hp
    subst hp
    exact absurd rfl hne

/-- what the repair guarantees for the directory: its new location leads to it. -/
def Good (k : Key) (d : Nat) (nk : Key) (t : Tree) : Prop := Linked k d nk t ∨ Moved d nk t

theorem good_resolves {k nk : Key} {d : Nat} {t : Tree} (h : Good k d nk t) :
    ∃ r, resolve t depth nk = some r ∧ t r = some (.dir d (.ok nk)) := by
  rcases h with ⟨h1, h2⟩ | h
  · exact ⟨k, h1, h2⟩
  · exact ⟨nk, resolve_at_dir h 40, h⟩

theorem foldl_step2_good (fx cl : Bool) {k nk : Key} {d : Nat} (ks : List Key) (t : Tree) (h : Good k d nk t) :
    Good k d nk (ks.foldl (step2 fx cl) t) := by
  apply foldl_inv (Good k d nk) _ _ ks t h
  intro b a hb
  rcases hb with hb | hb
  · exact Or.inl (step2_linked fx cl b a hb)
  · exact Or.inr (step2_moved fx cl b a hb)

/-- the step on the directory itself: afterwards its new location leads to it, unless the location
    already resolved to another directory (the warning branch). -/
theorem step2_reaches (cl : Bool) (t : Tree) (k : Key) (d : Nat) (nk : Key)
    (hk : t k = some (.dir d (.ok nk))) (hne : nk.2 ≠ k.2) :
    Good k d nk (step2 true cl t k) ∨ (∃ r, resolve t depth nk = some r ∧ r ≠ k) := by
  rcases step2_spec cl t k d nk hk hne with ⟨r, hr, e⟩ | ⟨hres, hfree, e⟩
  · by_cases hrk : r = k
    · left; left; rw [e]; subst hrk; exact ⟨hr, hk⟩
    · right; exact ⟨r, hr, hrk⟩
  · left
    rw [e]
    have hnk : nk ≠ k := key_ne_of_snd hne
    cases cl with
    | true =>
      right
      simp only [Moved, placed, if_true]
      rw [upd_other _ _ hnk, upd_same]
    | false =>
      left
      simp only [Linked, placed, Bool.false_eq_true, if_false]
      have hk1 : upd (rmDangling t nk) nk (some (.link k)) k = some (.dir d (.ok nk)) := by
        rw [upd_other _ _ (Ne.symm hnk)]; exact rmDangling_dir hk
      refine ⟨?_, hk1⟩
      rw [show depth = 40 + 1 from rfl, resolve_at_link (upd_same _ _ _), show 40 = 39 + 1 from rfl, resolve_at_dir hk1]


/-! ### whole runs -/

theorem exists_first {k : Key} : ∀ {l : List Key}, k ∈ l → ∃ a b, l = a ++ k :: b ∧ k ∉ a := by
  intro l
  induction l with
  | nil => intro h; simp at h
  | cons x l ih =>
    intro h
    by_cases hx : x = k
    · subst hx; exact ⟨[], l, rfl, by simp⟩
    · have : k ∈ l := by
        rcases List.mem_cons.mp h with e | e
        · exact absurd e.symm hx
        · exact e
      obtain ⟨a, b, e, hn⟩ := ih this
      refine ⟨x :: a, b, by simp [e], ?_⟩
      simp only [List.mem_cons, not_or]
      exact ⟨fun e' => hx e'.symm, hn⟩

/-- a directory is only ever touched by the step on itself. -/
theorem foldl_step2_dir_stays (fx cl : Bool) {k : Key} {d p} : ∀ {ks : List Key} {t : Tree}, k ∉ ks → t k = some (.dir d p) →
    ks.foldl (step2 fx cl) t k = some (.dir d p) := by
  intro ks
  induction ks with
  | nil => intro t _ h; exact h
  | cons a ks ih =>
    intro t hn h
    simp only [List.mem_cons, not_or] at hn
    rcases step2_dir fx cl t a k h with h1 | ⟨_, _, e, _⟩
    · exact ih hn.2 h1
    · exact absurd e hn.1

/-- **reachability** after a complete run. -/
theorem run_reachable (cl : Bool) (ks1 ks2 : List Key) (t : Tree) (k : Key) (d : Nat) (nk : Key)
    (hk : t k = some (.dir d (.ok nk))) (hne : nk.2 ≠ k.2) (hmem : k ∈ ks2) :
    Good k d nk (fixTree true cl ks1 ks2 t) ∨
    ∃ a b, ks2 = a ++ k :: b ∧ k ∉ a ∧
      ∃ r, resolve (a.foldl (step2 true cl) (phase1 cl ks1 t)) depth nk = some r ∧ r ≠ k := by
  obtain ⟨a, b, e, hn⟩ := exists_first hmem
  have hs : a.foldl (step2 true cl) (phase1 cl ks1 t) k = some (.dir d (.ok nk)) :=
    foldl_step2_dir_stays true cl hn (phase1_dir hk)
  rcases step2_reaches cl _ k d nk hs hne with g | blocked
  · left
    unfold fixTree
    rw [e, List.foldl_append, List.foldl_cons]
    exact foldl_step2_good true cl b _ g
  · right; exact ⟨a, b, e, hn, blocked⟩

/-- the new location is free or already a link to the directory, and no other directory claims it. -/
def Unclaimed (k nk : Key) (t : Tree) : Prop :=
  (t nk = none ∨ t nk = some (.link k)) ∧ ∀ j d' , t j = some (.dir d' (.ok nk)) → j = k

theorem step1_unclaimed {k nk : Key} (t : Tree) (a : Key) (h : Unclaimed k nk t) : Unclaimed k nk (step1 t a) := by
  obtain ⟨h1, h2⟩ := h
  constructor
  · rcases step1_cases t a with e | ⟨_, _, e⟩
    · rw [e]; exact h1
    · rw [e]
      by_cases hx : nk = a
      · subst hx; left; exact upd_same _ _ _
      · rw [upd_other _ _ hx]; exact h1
  · intro j d' hj; exact h2 j d' (step1_dir_inv hj)

theorem step2_unclaimed (fx cl : Bool) {k nk : Key} (t : Tree) (a : Key) (hak : a ≠ k) (h : Unclaimed k nk t) :
    Unclaimed k nk (step2 fx cl t a) := by
  obtain ⟨h1, h2⟩ := h
  constructor
  · rcases step2_eq_or fx cl t a with e | ⟨d0, na, _, ha, hnea, _, hfree, e⟩
    · rw [e]; exact h1
    · rw [e]
      have hna : nk ≠ na := by
        intro e'; subst e'; exact hak (h2 a d0 ha)
      have hnka : nk ≠ a := by
        intro e'; subst e'; rcases h1 with h1 | h1 <;> simp [ha] at h1
      have : placed cl t a d0 na nk = t nk := by
        cases cl with
        | false => simp only [placed, Bool.false_eq_true, if_false]; rw [upd_other _ _ hna, rmDangling_other hna]
        | true => simp only [placed, if_true]; rw [upd_other _ _ hnka, upd_other _ _ hna, rmDangling_other hna]
      rw [this]; exact h1
  · intro j d' hj
    rcases step2_dir_inv fx cl t a j hj with h' | ⟨_, h', _, _, _⟩
    · exact h2 j d' h'
    · exact absurd (h2 a d' h') hak

theorem foldl_step2_unclaimed (fx cl : Bool) {k nk : Key} : ∀ {a : List Key} {t : Tree}, k ∉ a → Unclaimed k nk t →
    Unclaimed k nk (a.foldl (step2 fx cl) t) := by
  intro a
  induction a with
  | nil => intro t _ h; exact h
  | cons x a ih =>
    intro t hn h
    simp only [List.mem_cons, not_or] at hn
    exact ih hn.2 (step2_unclaimed fx cl t x (fun e => hn.1 e.symm) h)

/-- **reachability, exact form**: when nothing else claims the new location, the directory is reachable there. -/
theorem run_reachable_exact (cl : Bool) (ks1 ks2 : List Key) (t : Tree) (k : Key) (d : Nat) (nk : Key)
    (hk : t k = some (.dir d (.ok nk))) (hne : nk.2 ≠ k.2) (hmem : k ∈ ks2) (hu : Unclaimed k nk t) :
    Good k d nk (fixTree true cl ks1 ks2 t) := by
  rcases run_reachable cl ks1 ks2 t k d nk hk hne hmem with g | ⟨a, b, _, hn, r, hr, hrk⟩
  · exact g
  · exfalso
    have hu1 : Unclaimed k nk (phase1 cl ks1 t) := by
      unfold phase1; split
      · exact foldl_inv (Unclaimed k nk) _ (fun b a => step1_unclaimed b a) _ _ hu
      · exact hu
    have hs : a.foldl (step2 true cl) (phase1 cl ks1 t) k = some (.dir d (.ok nk)) :=
      foldl_step2_dir_stays true cl hn (phase1_dir hk)
    have hu2 : Unclaimed k nk (a.foldl (step2 true cl) (phase1 cl ks1 t)) := foldl_step2_unclaimed true cl hn hu1
    rcases hu2.1 with h0 | h0
    · rw [resolve_at_none h0] at hr; simp at hr
    · rw [show depth = 40 + 1 from rfl, resolve_at_link h0, show 40 = 39 + 1 from rfl, resolve_at_dir hs] at hr
      simp only [Option.some.injEq] at hr
      exact hrk hr.symm

/-! ### runs that change nothing -/

theorem step2_nofix (cl : Bool) (t : Tree) (k : Key) : step2 false cl t k = t := by
  rcases step2_eq_or false cl t k with e | ⟨_, _, h, _⟩
  · exact e
  · simp at h

/-- every directory with a new location has that location resolving. -/
def AllPlaced (t : Tree) : Prop := ∀ k d nk, t k = some (.dir d (.ok nk)) → nk.2 ≠ k.2 → ∃ r, resolve t depth nk = some r

theorem step2_of_allPlaced (fx cl : Bool) (t : Tree) (k : Key) (h : AllPlaced t) : step2 fx cl t k = t := by
  rcases step2_eq_or fx cl t k with e | ⟨d, nk, _, hk, hne, hres, _⟩
  · exact e
  · obtain ⟨r, hr⟩ := h k d nk hk hne
    rw [hr] at hres; simp at hres

theorem foldl_fixed {α β : Type} (f : β → α → β) (b : β) (hf : ∀ a, f b a = b) : ∀ l : List α, l.foldl f b = b := by
  intro l
  induction l with
  | nil => rfl
  | cons a l ih => rw [List.foldl_cons, hf a, ih]

/-- no link lets a `params.json` be seen through it (so the first pass removes nothing). -/
def NoGlobbedLink (t : Tree) : Prop := ∀ k, isLink t k = true → globbed t k = false

theorem step1_of_noGlobbed (t : Tree) (k : Key) (h : NoGlobbedLink t) : step1 t k = t := by
  rcases step1_cases t k with e | ⟨hl, hg, _⟩
  · exact e
  · rw [h k hl] at hg; simp at hg

/-- a tree on which every run of the command is the identity. -/
theorem fixTree_fixed (fx cl : Bool) (ks1 ks2 : List Key) (t : Tree) (h2 : AllPlaced t) (h1 : cl = true → NoGlobbedLink t) :
    fixTree fx cl ks1 ks2 t = t := by
  unfold fixTree
  have : phase1 cl ks1 t = t := by
    unfold phase1; split
    · rename_i hcl; exact foldl_fixed _ _ (fun a => step1_of_noGlobbed t a (h1 hcl)) _
    · rfl
  rw [this]
  exact foldl_fixed _ _ (fun a => step2_of_allPlaced fx cl t a h2) _

theorem fixTree_list_only (ks1 ks2 : List Key) (t : Tree) : fixTree false false ks1 ks2 t = t := by
  unfold fixTree phase1
  simp only [Bool.false_eq_true, if_false]
  exact foldl_fixed _ _ (fun a => step2_nofix false t a) _

/-- link mode: what resolves keeps resolving to the same directory. -/
theorem step2_resolves_link (fx : Bool) (t : Tree) (a x r : Key) (h : resolve t depth x = some r) :
    resolve (step2 fx false t a) depth x = some r := by
  rcases step2_eq_or fx false t a with e | ⟨d0, na, _, _, _, _, hfree, e⟩
  · rw [e]; exact h
  · rw [e]
    simp only [placed, Bool.false_eq_true, if_false]
    exact resolve_upd_absent _ hfree (rmDangling_resolve (Nat.le_refl _) h)

theorem foldl_step2_resolves_link (fx : Bool) (x r : Key) (ks : List Key) (t : Tree) (h : resolve t depth x = some r) :
    resolve (ks.foldl (step2 fx false) t) depth x = some r :=
  foldl_inv (fun t => resolve t depth x = some r) _ (fun b a hb => step2_resolves_link fx b a x r hb) ks t h

/-- link mode, complete enumeration: afterwards every directory with a new location is placed. -/
theorem link_run_allPlaced (ks2 : List Key) (t : Tree)
    (hcov : ∀ k d nk, t k = some (.dir d (.ok nk)) → nk.2 ≠ k.2 → k ∈ ks2) :
    AllPlaced (ks2.foldl (step2 true false) t) := by
  intro k d nk hk hne
  obtain ⟨k0, hk0, hor⟩ := foldl_step2_dir_inv true false hk
  have : k0 = k := by
    rcases hor with e | ⟨e, _⟩
    · exact e
    · simp at e
  subst this
  obtain ⟨a, b, e⟩ := List.append_of_mem (hcov k0 d nk hk0 hne)
  rw [e, List.foldl_append, List.foldl_cons]
  have hs : a.foldl (step2 true false) t k0 = some (.dir d (.ok nk)) := by
    obtain ⟨k', hk', hor'⟩ := foldl_step2_dir true false (ks := a) hk0
    rcases hor' with e' | ⟨_, e', _⟩
    · subst e'; exact hk'
    · simp at e'
  have : ∃ r, resolve (step2 true false (a.foldl (step2 true false) t) k0) depth nk = some r := by
    rcases step2_reaches false _ k0 d nk hs hne with g | ⟨r, hr, _⟩
    · obtain ⟨r, hr, _⟩ := good_resolves g; exact ⟨r, hr⟩
    · refine ⟨r, ?_⟩
      exact step2_resolves_link true _ k0 nk r hr
  obtain ⟨r, hr⟩ := this
  exact ⟨r, foldl_step2_resolves_link true nk r b _ hr⟩

/-! ### clean-up mode: a second run changes nothing -/

/-- entries are only ever removed by the first pass. -/
theorem step1_entry {t : Tree} {a j : Key} {e : Entry} (h : step1 t a j = some e) : t j = some e := by
  rcases step1_cases t a with e' | ⟨_, _, e'⟩
  · rw [e'] at h; exact h
  · rw [e'] at h
    by_cases hj : j = a
    · subst hj; simp [upd_same] at h
    · rwa [upd_other t none hj] at h

theorem foldl_step1_entry {ks : List Key} : ∀ {t : Tree} {j : Key} {e : Entry}, ks.foldl step1 t j = some e → t j = some e := by
  induction ks with
  | nil => intro t j e h; exact h
  | cons a ks ih => intro t j e h; exact step1_entry (ih h)

/-- every link points directly at an existing directory (what earlier `--fix` runs produce). -/
def LinksDirect (t : Tree) : Prop := ∀ j g, t j = some (.link g) → ∃ d p, t g = some (.dir d p)
/-- every link points directly at a directory without `params.json`. -/
def LinksToAbsent (t : Tree) : Prop := ∀ j g, t j = some (.link g) → ∃ d, t g = some (.dir d .absent)

theorem globbed_direct {t : Tree} {j g : Key} {d p} (hj : t j = some (.link g)) (hg : t g = some (.dir d p)) (hp : p ≠ .absent) :
    globbed t j = true := by
  unfold globbed
  rw [show depth = 39 + 1 + 1 from rfl, resolve_at_link hj, resolve_at_dir hg]
  cases p <;> simp_all

theorem phase1_linksToAbsent (ks1 : List Key) (t : Tree) (hld : LinksDirect t)
    (hcov : ∀ j, isLink t j = true → globbed t j = true → j ∈ ks1) : LinksToAbsent (ks1.foldl step1 t) := by
  intro j g hj
  have htj : t j = some (.link g) := foldl_step1_entry hj
  obtain ⟨d, p, hg⟩ := hld j g htj
  have hgf : ks1.foldl step1 t g = some (.dir d p) := foldl_step1_dir hg
  by_cases hp : p = .absent
  · subst hp; exact ⟨d, hgf⟩
  · exfalso
    have hmem := hcov j (isLink_iff.mpr ⟨g, htj⟩) (globbed_direct htj hg hp)
    obtain ⟨a, b, e⟩ := List.append_of_mem hmem
    rw [e, List.foldl_append, List.foldl_cons] at hj
    have hs1 : step1 (a.foldl step1 t) j j = some (.link g) := foldl_step1_entry hj
    have hs : a.foldl step1 t j = some (.link g) := step1_entry hs1
    have hsg : a.foldl step1 t g = some (.dir d p) := foldl_step1_dir hg
    have : step1 (a.foldl step1 t) j = upd (a.foldl step1 t) j none := by
      generalize a.foldl step1 t = s at hs hsg
      rcases step1_cases s j with e' | ⟨_, _, e'⟩
      · exfalso
        unfold step1 at e'
        rw [isLink_iff.mpr ⟨g, hs⟩, globbed_direct hs hsg hp] at e'
        have := congrFun e' j
        simp only [Bool.and_self, if_true] at this
        rw [upd_same, hs] at this
        simp at this
      · exact e'
    rw [this, upd_same] at hs1
    simp at hs1

theorem rmDangling_entry {t : Tree} {x j : Key} {e : Entry} (h : rmDangling t x j = some e) : t j = some e := by
  rcases rmDangling_cases t x with e' | ⟨_, _, e'⟩
  · rw [e'] at h; exact h
  · rw [e'] at h
    by_cases hj : j = x
    · subst hj; simp [upd_same] at h
    · rwa [upd_other t none hj] at h

theorem step2_linksToAbsent (fx : Bool) (t : Tree) (a : Key) (h : LinksToAbsent t) : LinksToAbsent (step2 fx true t a) := by
  rcases step2_eq_or fx true t a with e | ⟨d0, na, _, ha, hnea, _, hfree, e⟩
  · rw [e]; exact h
  · rw [e]
    intro j g hj
    simp only [placed, if_true] at hj ⊢
    have hja : j ≠ a := by intro e'; subst e'; rw [upd_same] at hj; simp at hj
    rw [upd_other _ _ hja] at hj
    have hjna : j ≠ na := by intro e'; subst e'; rw [upd_same] at hj; simp at hj
    rw [upd_other _ _ hjna] at hj
    obtain ⟨d, hg⟩ := h j g (rmDangling_entry hj)
    have hg1 := rmDangling_dir (x := na) hg
    have hga : g ≠ a := by intro e'; subst e'; rw [ha] at hg; simp at hg
    have hgna : g ≠ na := by intro e'; subst e'; rw [hfree] at hg1; simp at hg1
    exact ⟨d, by rw [upd_other _ _ hga, upd_other _ _ hgna]; exact hg1⟩

theorem noGlobbed_of_linksToAbsent {t : Tree} (h : LinksToAbsent t) : NoGlobbedLink t := by
  intro j hl
  obtain ⟨g, hj⟩ := isLink_iff.mp hl
  obtain ⟨d, hg⟩ := h j g hj
  unfold globbed
  rw [show depth = 39 + 1 + 1 from rfl, resolve_at_link hj, resolve_at_dir hg]
  simp [hg]

/-- a directory that is where its own `params.json` says (or has none that loads). -/
def Settled (t : Tree) (r : Key) : Prop := ∀ d n, t r = some (.dir d (.ok n)) → n.2 = r.2

/-- the location leads to a directory that will not move any more. -/
def Anchored (x : Key) (t : Tree) : Prop := ∃ r, resolve t depth x = some r ∧ Settled t r

theorem step2_anchored (fx cl : Bool) (x : Key) (t : Tree) (a : Key) (h : Anchored x t) : Anchored x (step2 fx cl t a) := by
  obtain ⟨r, hr, hs⟩ := h
  rcases step2_eq_or fx cl t a with e | ⟨d0, na, _, ha, hnea, _, hfree, e⟩
  · rw [e]; exact ⟨r, hr, hs⟩
  · rw [e]
    obtain ⟨dr, pr, hdr⟩ := resolve_dir hr
    have hra : r ≠ a := by
      intro e'; subst e'
      exact hnea (hs d0 na ha)
    have hr1d := rmDangling_dir (x := na) hdr
    have hrna : r ≠ na := by intro e'; subst e'; rw [hfree] at hr1d; simp at hr1d
    have hr1 : resolve (rmDangling t na) depth x = some r := rmDangling_resolve (Nat.le_refl _) hr
    refine ⟨r, ?_, ?_⟩
    · cases cl with
      | false =>
        simp only [placed, Bool.false_eq_true, if_false]
        exact resolve_upd_absent _ hfree hr1
      | true =>
        simp only [placed, if_true]
        have hana : a ≠ na := (key_ne_of_snd hnea).symm
        have hda : upd (rmDangling t na) na (some (.dir d0 (.ok na))) a = some (.dir d0 (.ok na)) := by
          rw [upd_other _ _ hana]; exact rmDangling_dir ha
        exact resolve_rm_dir hda hra (resolve_upd_absent _ hfree hr1)
    · intro d n hd
      have : placed cl t a d0 na r = some (.dir dr pr) := by
        cases cl with
        | false => simp only [placed, Bool.false_eq_true, if_false]; rw [upd_other _ _ hrna]; exact hr1d
        | true => simp only [placed, if_true]; rw [upd_other _ _ hra, upd_other _ _ hrna]; exact hr1d
      rw [this] at hd
      simp only [Option.some.injEq, Entry.dir.injEq] at hd
      exact hs dr n (by rw [hdr, hd.2])

/-- a directory sitting at another directory's new location is itself up to date. -/
def NoStaleSquatter (t : Tree) : Prop :=
  ∀ k d nk, t k = some (.dir d (.ok nk)) → nk.2 ≠ k.2 → ∀ e n, t nk = some (.dir e (.ok n)) → n.2 = nk.2

theorem cleanup_run_allPlaced (ks1 ks2 : List Key) (t : Tree) (hld : LinksDirect t)
    (hc1 : ∀ j, isLink t j = true → globbed t j = true → j ∈ ks1)
    (hc2 : ∀ k d nk, t k = some (.dir d (.ok nk)) → nk.2 ≠ k.2 → k ∈ ks2)
    (hns : NoStaleSquatter t) : AllPlaced (fixTree true true ks1 ks2 t) := by
  intro k d nk hk hne
  unfold fixTree at hk ⊢
  have hp1 : phase1 true ks1 t = ks1.foldl step1 t := by simp [phase1]
  obtain ⟨k0, hk0, hor⟩ := foldl_step2_dir_inv true true hk
  have : k0 = k := by
    rcases hor with e | ⟨_, e⟩
    · exact e
    · simp only [Params.ok.injEq] at e; subst e; exact absurd rfl hne
  subst this
  have htk : t k0 = some (.dir d (.ok nk)) := phase1_dir_inv hk0
  obtain ⟨a, b, e, hn⟩ := exists_first (hc2 k0 d nk htk hne)
  have hs : a.foldl (step2 true true) (phase1 true ks1 t) k0 = some (.dir d (.ok nk)) :=
    foldl_step2_dir_stays true true hn hk0
  have hlta : LinksToAbsent (a.foldl (step2 true true) (phase1 true ks1 t)) := by
    apply foldl_inv LinksToAbsent _ (fun b a hb => step2_linksToAbsent true b a hb)
    rw [hp1]; exact phase1_linksToAbsent ks1 t hld hc1
  rw [e, List.foldl_append, List.foldl_cons]
  rcases step2_reaches true _ k0 d nk hs hne with g | ⟨r, hr, _⟩
  · obtain ⟨r, hr, _⟩ := good_resolves (foldl_step2_good true true b _ g)
    exact ⟨r, hr⟩
  · -- blocked: the location leads to a directory that never moves
    have hanch : Anchored nk (a.foldl (step2 true true) (phase1 true ks1 t)) := by
      refine ⟨r, hr, ?_⟩
      intro e' n he
      cases hnk : a.foldl (step2 true true) (phase1 true ks1 t) nk with
      | none => rw [resolve_at_none hnk] at hr; simp at hr
      | some ent =>
        cases ent with
        | link g =>
          obtain ⟨dg, hg⟩ := hlta nk g hnk
          rw [show depth = 39 + 1 + 1 from rfl, resolve_at_link hnk, resolve_at_dir hg] at hr
          simp only [Option.some.injEq] at hr; subst hr
          rw [hg] at he; simp at he
        | dir e2 p2 =>
          rw [show depth = 40 + 1 from rfl, resolve_at_dir hnk] at hr
          simp only [Option.some.injEq] at hr; subst hr
          obtain ⟨k1, hk1, hor1⟩ := foldl_step2_dir_inv true true he
          rcases hor1 with e1 | ⟨_, e1⟩
          · subst e1
            exact hns k0 d k1 htk hne e' n (phase1_dir_inv hk1)
          · simp only [Params.ok.injEq] at e1; rw [e1]
    have := foldl_inv (Anchored nk) _ (fun b a hb => step2_anchored true true nk b a hb) (k0 :: b) _ hanch
    obtain ⟨r', hr', _⟩ := this
    rw [List.foldl_cons] at hr'
    exact ⟨r', hr'⟩

theorem cleanup_run_noGlobbed (ks1 ks2 : List Key) (t : Tree) (hld : LinksDirect t)
    (hc1 : ∀ j, isLink t j = true → globbed t j = true → j ∈ ks1) : NoGlobbedLink (fixTree true true ks1 ks2 t) := by
  apply noGlobbed_of_linksToAbsent
  unfold fixTree
  apply foldl_inv LinksToAbsent _ (fun b a hb => step2_linksToAbsent true b a hb)
  have hp1 : phase1 true ks1 t = ks1.foldl step1 t := by simp [phase1]
  rw [hp1]; exact phase1_linksToAbsent ks1 t hld hc1

end XpmVerif.Deprecated
