import XpmVerif.Proofs.Deprecated
/-! C20 — deprecating a class keeps identifiers and makes old results reachable.

    Part (a) is about the identifier specification of Model/Ident.lean (`rawId`, `fullId`, any hash function)
    applied to graphs whose nodes carry a *class index*; the type identifier fed to the hash is
    `eff classes cls` (Model/Deprecated.lean: own identifier, or the parent's once deprecated).
    Part (b) is about `fixTree`, the model of `tools/jobs.py::fix_deprecated`, for every jobs tree (any mixture
    of directories, links from earlier repairs, dangling links, link chains), every pair of flags and every
    enumeration order of the two `glob` calls. -/
namespace XpmVerif.C20
open XpmVerif.Ident XpmVerif.Deprecated

/-! ## (a) "A class marked as deprecated yields, wherever it occurs, the identifier its replacement would yield" -/

/-- `deprecate()`: a deprecated class carries the type identifier of its replacement (its single parent,
    defined before it) — also when the replacement is itself deprecated (chains). -/
theorem deprecated_type_identifier (cs : List ClassDecl) (c p : Nat)
    (hd : (cdecl cs c).deprecatedOf = some p) (hp : p < c) : eff cs c = eff cs p :=
  eff_deprecated cs c p hd hp

/-- **sig_deprecated.** Re-classing *any* set of nodes (`sel`), at any position of the graph (root, nested, in
    containers, on cycles, as pre-task, init-task or producing task), from a deprecated class to its replacement leaves the raw
    and the full identifier of *every* node unchanged, for every hash function. -/
theorem sig_deprecated {D : Type} (hc : HC D) (g : CGraph) (sel : Nat → Bool) (n : Nat) :
    cRawId hc (reclass sel g) n = cRawId hc g n ∧ cFullId hc (reclass sel g) n = cFullId hc g n := by
  have h : (reclass sel g).toGraph = g.toGraph := toGraph_reclassWith _ sel g (eff_replacement g.classes)
  simp only [cRawId, cFullId, h, and_self]

/-- the same down to the end of a chain `Old2(Old(New))`: every selected node re-classed to the non-deprecated
    class its class ultimately stands for. -/
theorem sig_deprecated_ultimate {D : Type} (hc : HC D) (g : CGraph) (sel : Nat → Bool) (n : Nat) :
    cRawId hc (reclassWith (ultimate g.classes) sel g) n = cRawId hc g n ∧
    cFullId hc (reclassWith (ultimate g.classes) sel g) n = cFullId hc g n := by
  have h : (reclassWith (ultimate g.classes) sel g).toGraph = g.toGraph :=
    toGraph_reclassWith _ sel g (eff_ultimate g.classes)
  simp only [cRawId, cFullId, h, and_self]

/-- non-vacuity: class 1 deprecated in favour of class 0, class 2 in favour of class 1 (a chain), class 3 a plain
    subclass with its own identifier.  The deprecated ones take the identifier `[97]`, the plain one keeps `[100]`. -/
def cs0 : List ClassDecl :=
  [{ ownId := [97] }, { ownId := [98], deprecatedOf := some 0 }, { ownId := [99], deprecatedOf := some 1 }, { ownId := [100] }]

example : eff cs0 1 = [97] ∧ eff cs0 2 = [97] ∧ eff cs0 3 = [100] ∧ ultimate cs0 2 = 0 ∧ replacement cs0 2 = 1 := by decide

/-- and the type identifier does reach the hashed stream: with the identity "hash" a node of the plain subclass
    and a node of the replacement differ, a node of the deprecated class does not. -/
example :
    let hcid : HC (List Nat) := { H := id, emb := id, le := bytesLe }
    let g (c : Nat) : CGraph := { classes := cs0, nodes := [{ cls := c, args := [] }] }
    cRawId hcid (g 2) 0 = cRawId hcid (g 0) 0 ∧ cRawId hcid (g 3) 0 ≠ cRawId hcid (g 0) 0 := by decide

/-! ## (b) the repair command -/

/-- **fix_never_deletes_data** ("it never deletes job data").  Every directory present before the command is
    present afterwards with the same content and the same `params.json` outcome — at the same location, or, only
    when asked to fix *and* clean up, at its recomputed location.  For all flags, trees and enumeration orders. -/
theorem fix_never_deletes_data (fx cl : Bool) (ks1 ks2 : List Key) (t : Tree) (k : Key) (d : Nat) (p : Params)
    (h : t k = some (.dir d p)) :
    ∃ k', fixTree fx cl ks1 ks2 t k' = some (.dir d p) ∧ (k' = k ∨ (fx = true ∧ cl = true ∧ p = .ok k')) := by
  unfold fixTree
  exact foldl_step2_dir fx cl (phase1_dir h)

/-- … and no directory appears from nowhere: what is there afterwards was there before (same place, or moved by
    the clean-up to the location its own `params.json` recomputes). -/
theorem fix_creates_no_data (fx cl : Bool) (ks1 ks2 : List Key) (t : Tree) (k' : Key) (d : Nat) (p : Params)
    (h : fixTree fx cl ks1 ks2 t k' = some (.dir d p)) :
    ∃ k, t k = some (.dir d p) ∧ (k = k' ∨ (cl = true ∧ p = .ok k')) := by
  unfold fixTree at h
  obtain ⟨k, hk, hor⟩ := foldl_step2_dir_inv fx cl h
  exact ⟨k, phase1_dir_inv hk, hor⟩

/-- … and none is duplicated: if every content lives in one directory before, so it does afterwards. -/
theorem fix_never_duplicates_data (fx cl : Bool) (ks1 ks2 : List Key) (t : Tree) (h : DataInj t) :
    DataInj (fixTree fx cl ks1 ks2 t) :=
  fixTree_dataInj fx cl ks1 ks2 t h

/-- **fix_reachable** ("makes every job directory stored under a former identifier reachable under the new one, by
    link, or by move when asked to clean up").  After `--fix` (with or without `--cleanup`), for every directory `d`
    at `k` whose recomputed identifier differs and which the enumeration visits: its new location `nk` leads to it
    (`Good`: a link chain ending at `k`, or the directory itself moved to `nk`) — *unless*, when the command
    reached it, the new location already led to a different directory (the warning branch of the code). -/
theorem fix_reachable (cl : Bool) (ks1 ks2 : List Key) (t : Tree) (k : Key) (d : Nat) (nk : Key)
    (hk : t k = some (.dir d (.ok nk))) (hne : nk.2 ≠ k.2) (hmem : k ∈ ks2) :
    (∃ r, resolve (fixTree true cl ks1 ks2 t) depth nk = some r ∧ fixTree true cl ks1 ks2 t r = some (.dir d (.ok nk))) ∨
    (∃ a b, ks2 = a ++ k :: b ∧ k ∉ a ∧
      ∃ r, resolve (a.foldl (step2 true cl) (phase1 cl ks1 t)) depth nk = some r ∧ r ≠ k) := by
  rcases run_reachable cl ks1 ks2 t k d nk hk hne hmem with g | b
  · exact Or.inl (good_resolves g)
  · exact Or.inr b

/-- **fix_reachable, exact form.**  If the new location is free or already a link to the directory, and no other
    directory recomputes to the same location (`Unclaimed`), the directory *is* reachable there afterwards. -/
theorem fix_reachable_exact (cl : Bool) (ks1 ks2 : List Key) (t : Tree) (k : Key) (d : Nat) (nk : Key)
    (hk : t k = some (.dir d (.ok nk))) (hne : nk.2 ≠ k.2) (hmem : k ∈ ks2) (hu : Unclaimed k nk t) :
    ∃ r, resolve (fixTree true cl ks1 ks2 t) depth nk = some r ∧ fixTree true cl ks1 ks2 t r = some (.dir d (.ok nk)) :=
  good_resolves (run_reachable_exact cl ks1 ks2 t k d nk hk hne hmem hu)

/-- **fix_partial_ok** ("including previously linked or partially repaired ones").  Start from *any* tree, run the
    command with any flags over any partial enumerations (an interrupted or earlier repair: `ka`, `kb` arbitrary),
    then run a complete `--fix`: no directory is lost on the way, and every directory of the original tree with a
    new identifier ends up reachable there, or was blocked by a different directory when the second run reached it. -/
theorem fix_partial_ok (fx0 cl0 : Bool) (ka kb : List Key) (cl : Bool) (ks1 ks2 : List Key) (t : Tree)
    (k : Key) (d : Nat) (nk : Key) (hk : t k = some (.dir d (.ok nk))) (hne : nk.2 ≠ k.2)
    (hcov : ∀ j, fixTree fx0 cl0 ka kb t j = some (.dir d (.ok nk)) → nk.2 ≠ j.2 → j ∈ ks2) :
    let p := fixTree fx0 cl0 ka kb t
    let t' := fixTree true cl ks1 ks2 p
    (∃ r, resolve t' depth nk = some r ∧ t' r = some (.dir d (.ok nk))) ∨
    (∃ j a b, p j = some (.dir d (.ok nk)) ∧ ks2 = a ++ j :: b ∧ j ∉ a ∧
      ∃ r, resolve (a.foldl (step2 true cl) (phase1 cl ks1 p)) depth nk = some r ∧ r ≠ j) := by
  intro p t'
  obtain ⟨j, hj, hor⟩ := fix_never_deletes_data fx0 cl0 ka kb t k d (.ok nk) hk
  by_cases hs : nk.2 = j.2
  · -- already at its new location (moved by the partial run): stays there
    left
    have hjnk : j = nk := by
      rcases hor with e | ⟨_, _, e⟩
      · subst e; exact absurd hs hne
      · simp only [Params.ok.injEq] at e; exact e.symm
    subst hjnk
    have hm : Moved d j t' := by
      show Moved d j (fixTree true cl ks1 ks2 p)
      unfold fixTree
      exact foldl_inv (Moved d j) _ (fun b a hb => step2_moved true cl b a hb) _ _ (phase1_dir hj)
    exact ⟨j, resolve_at_dir hm 40, hm⟩
  · rcases fix_reachable cl ks1 ks2 p j d nk hj hs (hcov j hj hs) with g | ⟨a, b, e, hn, r, hr, hrj⟩
    · exact Or.inl g
    · exact Or.inr ⟨j, a, b, hj, e, hn, r, hr, hrj⟩

/-- **listing changes nothing**: without `--fix` and without `--cleanup` the command is the identity. -/
theorem list_only_changes_nothing (ks1 ks2 : List Key) (t : Tree) : fixTree false false ks1 ks2 t = t :=
  fixTree_list_only ks1 ks2 t

/-- **fix_idempotent, link mode** ("a second run changes nothing").  After a `--fix` run (no clean-up) whose
    enumeration visits every directory that has a new identifier, every further `--fix` run — over any
    enumerations — leaves the tree as it is. -/
theorem fix_idempotent_link (ks1 ks2 ks1' ks2' : List Key) (t : Tree)
    (hcov : ∀ k d nk, t k = some (.dir d (.ok nk)) → nk.2 ≠ k.2 → k ∈ ks2) :
    fixTree true false ks1' ks2' (fixTree true false ks1 ks2 t) = fixTree true false ks1 ks2 t := by
  apply fixTree_fixed
  · unfold fixTree phase1
    simp only [Bool.false_eq_true, if_false]
    exact link_run_allPlaced ks2 t hcov
  · intro h; simp at h

/-- the general criterion behind it: on a tree where every directory with a new identifier has its new location
    resolving and (for `--cleanup`) no link shows a `params.json`, every run with any flags is the identity. -/
theorem fix_fixed_point (fx cl : Bool) (ks1 ks2 : List Key) (t : Tree) (h2 : AllPlaced t)
    (h1 : cl = true → NoGlobbedLink t) : fixTree fx cl ks1 ks2 t = t :=
  fixTree_fixed fx cl ks1 ks2 t h2 h1

/-- **fix_idempotent, clean-up mode.**  After a `--fix --cleanup` run on a tree whose links point directly at
    existing directories (the state earlier `--fix` runs leave: `LinksDirect`), whose two enumerations visit every
    link showing a `params.json` and every directory with a new identifier, and where a directory sitting at another
    one's new location is itself up to date (`NoStaleSquatter`), every further `--fix --cleanup` run — over any
    enumerations — leaves the tree as it is.  `LinksDirect` cannot be dropped (witness below). -/
theorem fix_idempotent_cleanup (ks1 ks2 ks1' ks2' : List Key) (t : Tree) (hld : LinksDirect t)
    (hc1 : ∀ j, isLink t j = true → globbed t j = true → j ∈ ks1)
    (hc2 : ∀ k d nk, t k = some (.dir d (.ok nk)) → nk.2 ≠ k.2 → k ∈ ks2)
    (hns : NoStaleSquatter t) :
    fixTree true true ks1' ks2' (fixTree true true ks1 ks2 t) = fixTree true true ks1 ks2 t :=
  fixTree_fixed true true ks1' ks2' _ (cleanup_run_allPlaced ks1 ks2 t hld hc1 hc2 hns)
    (fun _ => cleanup_run_noGlobbed ks1 ks2 t hld hc1)

/-- a directory the clean-up has moved to its new location stays there under every later run. -/
theorem moved_directory_stays (cl : Bool) (ks1 ks2 : List Key) (t : Tree) (d : Nat) (nk : Key)
    (h : t nk = some (.dir d (.ok nk))) : fixTree true cl ks1 ks2 t nk = some (.dir d (.ok nk)) := by
  unfold fixTree
  exact foldl_inv (Moved d nk) _ (fun b a hb => step2_moved true cl b a hb) _ _ (phase1_dir h)

/-- boundary witness for `fix_idempotent_cleanup`: a dangling link `(9,9) → (1,5)` left by a deleted directory, and a
    directory at `(0,0)` whose new location is `(1,5)`.  The first clean-up run moves the directory, which revives
    the link; the second run then removes the link: clean-up mode is not idempotent on such a tree. -/
def tW : Tree := ofList [((0, 0), .dir 1 (.ok (1, 5))), ((9, 9), .link (1, 5))]

theorem cleanup_not_idempotent_with_revived_link :
    fixTree true true [(9, 9)] [(0, 0)] (fixTree true true [(9, 9)] [(0, 0)] tW) (9, 9)
      ≠ fixTree true true [(9, 9)] [(0, 0)] tW (9, 9) := by decide

/-- **the command line (`deprecated list --cleanup` without `--fix`).**  The command announces "Ignoring --cleanup
    since we are not fixing old IDs" but passes the flag on: a link created by an earlier `--fix` is removed, so the
    directory is no longer reachable under its new identifier.  `cliActual` is what `cli/__init__.py` does today,
    `cliDocumented` what it says. -/
def tL : Tree := ofList [((0, 0), .dir 1 (.ok (1, 5))), ((1, 5), .link (0, 0))]

theorem cli_cleanup_without_fix_removes_links :
    cliActual false true [(1, 5)] [(0, 0)] tL (1, 5) = none ∧ cliDocumented false true [(1, 5)] [(0, 0)] tL (1, 5) = some (.link (0, 0)) := by
  decide

/-- with the documented wiring, listing never changes the tree, whatever `--cleanup` says. -/
theorem cli_documented_list_changes_nothing (cl : Bool) (ks1 ks2 : List Key) (t : Tree) :
    cliDocumented false cl ks1 ks2 t = t := by
  unfold cliDocumented
  simp only [Bool.and_false]
  exact fixTree_list_only ks1 ks2 t

/-! non-vacuity of part (b): a tree with a directory to repair, a link from an earlier repair, a dangling link and
    an up-to-date directory; `--fix` links, `--fix --cleanup` moves, both satisfy the hypotheses above. -/
def t0 : Tree :=
  ofList [((0, 0), .dir 1 (.ok (1, 5))), ((0, 1), .dir 2 (.ok (1, 6))), ((1, 6), .link (0, 1)),
          ((1, 7), .link (0, 8)), ((1, 9), .dir 3 (.ok (1, 9)))]

example : t0 (0, 0) = some (.dir 1 (.ok (1, 5))) ∧ Unclaimed (0, 0) (1, 5) t0 ∧ DataInj t0 → True := fun _ => trivial
example : fixTree true false [] [(0, 0), (0, 1), (1, 9)] t0 (1, 5) = some (.link (0, 0))
    ∧ resolve (fixTree true false [] [(0, 0), (0, 1), (1, 9)] t0) depth (1, 5) = some (0, 0) := by decide
example : fixTree true true [(1, 6)] [(0, 0), (0, 1), (1, 9)] t0 (1, 5) = some (.dir 1 (.ok (1, 5)))
    ∧ fixTree true true [(1, 6)] [(0, 0), (0, 1), (1, 9)] t0 (0, 0) = none
    ∧ fixTree true true [(1, 6)] [(0, 0), (0, 1), (1, 9)] t0 (1, 6) = some (.dir 2 (.ok (1, 6))) := by decide

/-! ### non-vacuity of the named hypotheses `LinksDirect`, `AllPlaced`, `NoStaleSquatter` (audit round 8, item 6) -/

theorem ofList_mem {l : List (Key × Entry)} {k : Key} {e : Entry} (h : ofList l k = some e) : (k, e) ∈ l := by
  unfold ofList at h
  simp only [Option.map_eq_some_iff] at h
  obtain ⟨x, hx, rfl⟩ := h
  have h1 := List.mem_of_find?_eq_some hx
  have h2 := List.find?_some hx
  simp at h2
  rw [← h2]; exact h1

/-- a jobs tree with one directory stored under a former identifier (`(0,1)`, its configuration now lives at `(1,6)`) and one link
    `(1,6) → (0,1)` left by an earlier `--fix`. -/
def tA : Tree := ofList [((0, 1), .dir 2 (.ok (1, 6))), ((1, 6), .link (0, 1))]

theorem tA_linksDirect : LinksDirect tA := by
  intro j g h
  have := ofList_mem h
  simp at this
  obtain ⟨rfl, rfl⟩ := this
  exact ⟨2, .ok (1, 6), by decide⟩

theorem tA_allPlaced : AllPlaced tA := by
  intro k d nk h _
  have := ofList_mem h
  simp at this
  obtain ⟨rfl, rfl, rfl⟩ := this
  exact ⟨(0, 1), by decide⟩

def tS : Tree := ofList [((0, 0), .dir 1 (.ok (1, 5))), ((1, 5), .dir 7 (.ok (1, 5))), ((1, 6), .link (0, 0))]
theorem tS_noStaleSquatter : NoStaleSquatter tS := by
  intro k d nk h hne e n h2
  have h1 := ofList_mem h
  have h3 := ofList_mem h2
  simp at h1 h3
  rcases h1 with ⟨rfl, rfl, rfl⟩ | ⟨rfl, rfl, rfl⟩
  · rcases h3 with ⟨h3, _⟩ | ⟨_, _, rfl⟩
    · simp at h3
    · rfl
  · simp at hne
theorem tS_linksDirect : LinksDirect tS := by
  intro j g h
  have := ofList_mem h
  simp at this
  obtain ⟨rfl, rfl⟩ := this
  exact ⟨1, .ok (1, 5), by decide⟩

/-- on `tA` the fixed-point criterion applies (its conclusion is not trivial: the directory at `(0,1)` *has* a new identifier, the run
    leaves it alone because the link of the earlier repair already makes it reachable). -/
example (ks1 ks2 : List Key) : fixTree true false ks1 ks2 tA = tA :=
  fix_fixed_point true false ks1 ks2 tA tA_allPlaced (fun h => by simp at h)
example : resolve tA depth (1, 6) = some (0, 1) := by decide
/-- on `tS` a clean-up run has something to do: the squatted location `(1,5)` is occupied by an up-to-date directory, `(0,0)` stays. -/
example : fixTree true true [(1, 6)] [(0, 0)] tS (0, 0) = some (.dir 1 (.ok (1, 5))) ∧ fixTree true true [(1, 6)] [(0, 0)] tS (1, 6) = none := by decide

end XpmVerif.C20
