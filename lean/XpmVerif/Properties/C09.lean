import XpmVerif.Proofs.SchedCap
import XpmVerif.Properties.C06
import XpmVerif.Generated.SchedFlags
/-! C09 — tokens are always given back and waiting jobs eventually run (one scheduler, in-process token;
    the file-based multi-scheduler part is Properties/C09Files.lean).
    Theorems about the scheduler model M2 (Model/Sched.lean), for every workload, schedule and flags. -/
namespace XpmVerif.C09
open XpmVerif.Sched

/-- obligation on the current source: the three scheduler repairs are present. -/
theorem scheduler_flags : Gen.schedFlags = { readyGuarded := true, resubmitRegisters := true, abortRechecks := true } := by decide

/-- **whatever way a job ends** — success, failure (both: the exit code arrives, pc `codeWait`) or an aborted
    start because another dependency could not be locked (pc `lockExitAbort`) — the step that leaves the
    `with Locks()` block gives back exactly what the job held, to every token, and touches nobody else's holdings. -/
theorem given_back_on_every_exit (fl : Flags) (s : St) (j : Nat)
    (hpc : (s.jobs j).pc = .lockExitAbort ∨ (s.jobs j).pc = .codeWait) :
    ((s.resume fl j).jobs j).held = [] ∧
    (∀ t, (s.resume fl j).avail t = s.avail t + (heldTok (s.jobs j) t : Nat)) ∧
    (∀ i, i ≠ j → ((s.resume fl j).jobs i).held = (s.jobs i).held) :=
  resume_releases fl s j hpc

/-- a job holds something only while its start is being aborted or between its launch and the processing of
    its exit code — in all three situations a helper thread of that job is pending, so a holder is never idle. -/
theorem holder_is_never_idle (fl : Flags) (totals : List Nat) (s : St) (h : Reachable fl totals s) (j : Nat)
    (hh : (s.jobs j).held ≠ []) :
    (s.jobs j).pc = .lockExitAbort ∨ (s.jobs j).pc = .lockExitRun ∨ (s.jobs j).pc = .codeWait := by
  obtain ⟨N, hi⟩ := h.inv
  have h1 := (hi.job j).1 hh
  revert h1; cases (s.jobs j).pc <;> simp [PC.holds]

/-- **an idle token always shows its full capacity**: in every reachable state with nothing left to run
    (empty ready queue, no pending helper thread), every token has `available = total` and nobody holds anything. -/
theorem idle_token_is_full (fl : Flags) (totals : List Nat) (s : St) (h : Reachable fl totals s)
    (hr : s.ready = []) (ht : s.threads = []) (t : Nat) :
    s.avail t = s.total t ∧ ∀ j, (s.jobs j).held = [] := by
  obtain ⟨N, hi⟩ := h.inv
  exact hi.idle_full hr ht t

/-- conservation at every instant (C08's invariant, restated): availability plus holdings is the capacity. -/
theorem nothing_leaks (fl : Flags) (totals : List Nat) (s : St) (h : Reachable fl totals s) (t : Nat) :
    s.avail t + (sumTo s.n (fun j => heldTok (s.jobs j) t) : Nat) = (s.total t : Int) := by
  obtain ⟨N, hi⟩ := h.inv
  exact (hi.cap t).1

/-- **"A waiting job whose request fits the capacity is eventually launched"** (liveness, proved in
    Proofs/SchedTerm.lean for the four repairs): from every reachable state in which no job names the same token in
    two dependencies (`NoDoubleTok`) and no request exceeds its token's total (`TokFit`), every maximal run of
    `step`/`deliver` events is finite (`C06.every_run_finite`: length ≤ `mu s`) and at its end each scheduled job has
    been launched exactly once — unless its success marker already existed or a job it depends on failed.
    Both hypotheses are necessary (`C06.doubled_token_request_spins`; a request above the total waits forever), and so
    is the repair `abortReleases` (`C06.aborted_starts_livelock_witness`, finding F32). -/
theorem waiting_job_eventually_launched {fl : Flags} (hg : fl.readyGuarded = true) (hf : fl.resubmitRegisters = true)
    (ha : fl.abortRechecks = true) (hr : fl.abortReleases = true) {totals : List Nat} {s : St}
    (h : XpmVerif.SchedFinal.Reachable fl totals s) (hnd : XpmVerif.SchedFinal.NoDoubleTok s) (hfit : XpmVerif.SchedFinal.TokFit s)
    (evs : List Ev) (hrun : XpmVerif.SchedFinal.RunOK fl s evs)
    (hmax : ∀ ev, ¬ XpmVerif.SchedFinal.Enabled (evs.foldl (St.apply fl) s) ev) (j : Nat)
    (hj : j < (evs.foldl (St.apply fl) s).n) (hs : ((evs.foldl (St.apply fl) s).jobs j).pc ≠ .none) :
    ((evs.foldl (St.apply fl) s).jobs j).launches = 1 ∨ ((evs.foldl (St.apply fl) s).jobs j).marker = true ∨
    ((evs.foldl (St.apply fl) s).jobs j).failedDep = true :=
  XpmVerif.C06.every_job_eventually_launched hg hf ha hr h hnd hfit evs hrun hmax j hj hs

/-! ### the hypotheses of `waiting_job_eventually_launched` are satisfiable (audit round 8, item 6)
    the workload of `C06.exTok`: one token of capacity 3, two jobs asking 2 each (the second start is aborted once and the
    job waits for the token); `s` = the state after the two submissions and `wait`, `evs` = the rest of the schedule. -/

example : XpmVerif.SchedFinal.flOK.readyGuarded = true ∧ XpmVerif.SchedFinal.flOK.resubmitRegisters = true
    ∧ XpmVerif.SchedFinal.flOK.abortRechecks = true ∧ XpmVerif.SchedFinal.flOK.abortReleases = true := by decide
example : XpmVerif.SchedFinal.Reachable XpmVerif.SchedFinal.flOK [3]
    (XpmVerif.SchedFinal.runEvs XpmVerif.SchedFinal.flOK [3] (XpmVerif.C06.exTok.take 3)) :=
  XpmVerif.SchedFinal.reachable_runEvs _ (by decide)
example : XpmVerif.SchedFinal.NoDoubleTok (XpmVerif.SchedFinal.runEvs XpmVerif.SchedFinal.flOK [3] (XpmVerif.C06.exTok.take 3)) :=
  XpmVerif.SchedFinal.noDoubleTok_runEvs rfl [3] _ (by decide) (by decide)
example : XpmVerif.SchedFinal.TokFit (XpmVerif.SchedFinal.runEvs XpmVerif.SchedFinal.flOK [3] (XpmVerif.C06.exTok.take 3)) :=
  XpmVerif.SchedFinal.tokFit_runEvs XpmVerif.SchedFinal.flOK [3] _ (by decide)
example : XpmVerif.SchedFinal.RunOK XpmVerif.SchedFinal.flOK
    (XpmVerif.SchedFinal.runEvs XpmVerif.SchedFinal.flOK [3] (XpmVerif.C06.exTok.take 3)) (XpmVerif.C06.exTok.drop 3) :=
  XpmVerif.SchedFinal.runOK_of_b XpmVerif.SchedFinal.flOK _ _ (by decide)
/-- … and the conclusion is not trivially true there: both jobs are scheduled, the second one had an aborted start on the way,
    and at the end each was launched exactly once. -/
example : ((XpmVerif.SchedFinal.runEvs XpmVerif.SchedFinal.flOK [3] (XpmVerif.C06.exTok.take 10)).jobs 1).pc = .lockExitAbort
    ∧ ((XpmVerif.SchedFinal.runEvs XpmVerif.SchedFinal.flOK [3] XpmVerif.C06.exTok).jobs 0).launches = 1
    ∧ ((XpmVerif.SchedFinal.runEvs XpmVerif.SchedFinal.flOK [3] XpmVerif.C06.exTok).jobs 1).launches = 1 := by decide

end XpmVerif.C09
