import XpmVerif.Model.Sched
import XpmVerif.Generated.SchedFlags
import XpmVerif.Proofs.SchedDeps
/-! C04 (scheduling part): "No job is launched before everything it depends on has succeeded."

    All theorems are about every state reachable in the scheduler model `Model/Sched.lean` by ANY list of
    events (`Reachable fl totals s`: any workload, any schedule, any token table, no bound), for every flag
    record `fl` with `fl.readyGuarded = true` (the other two repairs are not needed for C04).  They are
    proved by one invariant (`Proofs/SchedDeps.lean`, `Inv`) preserved by every callback and every event.
    No well-formedness of events (`EvOK`) is needed; `ReachableOK.reachable` transfers every theorem to
    the runs made of well-formed events only. -/
namespace XpmVerif.C04
open XpmVerif.Sched XpmVerif.SchedDeps

/-- obligation on the current source: the three scheduler repairs are present. -/
theorem scheduler_flags : Gen.schedFlags = { readyGuarded := true, resubmitRegisters := true, abortRechecks := true } := by decide

/-- `counter_sound`: in every reachable state, for every job whose coroutine has started
    (`pc ∉ {none, created}`), the counter `unsat` (`Job.unsatisfied`) equals the number of positions `d` of
    `deps` whose recorded status is not `ok`. -/
theorem counter_sound {fl : Flags} (hfl : fl.readyGuarded = true) {totals : List Nat} {s : St}
    (hr : Reachable fl totals s) (j : Nat) (h1 : (s.jobs j).pc ≠ .none) (h2 : (s.jobs j).pc ≠ .created) :
    (s.jobs j).unsat = (((s.jobs j).deps.countP (fun d => decide (d.cur ≠ .ok)) : Nat) : Int) := by
  have hl := (hr.inv hfl).loc j
  apply hl.counter
  intro e
  rcases (hl.unsched e).1 with e' | e'
  · exact h1 e'
  · exact h2 e'

/-- `ok_means_done`: in every reachable state, a job dependency recorded as `ok` has its origin in state
    `done`. -/
theorem ok_means_done {fl : Flags} (hfl : fl.readyGuarded = true) {totals : List Nat} {s : St}
    (hr : Reachable fl totals s) (j : Nat) (d : Dep) (hd : d ∈ (s.jobs j).deps) (o : Nat)
    (ho : d.origin = .job o) (hc : d.cur = .ok) : (s.jobs o).state = .done :=
  (hr.inv hfl).okdone j d hd o ho hc

/-- `done_stable`: once a job is `done` in a reachable state it is `done` after every further list of
    events.  This is where `readyGuarded` is needed (see `done_unstable_unguarded`). -/
theorem done_stable {fl : Flags} (hfl : fl.readyGuarded = true) {totals : List Nat} {s : St}
    (hr : Reachable fl totals s) (o : Nat) (hdone : (s.jobs o).state = .done) (evs : List Ev) :
    ((run fl s evs).jobs o).state = .done :=
  (Inv.run fl hfl evs (hr.inv hfl)).2 o hdone

/-- without the repair `readyGuarded` the model reproduces the defect: job 1 (done marker, depends on
    job 0) is `done`, and the `check` queued when job 0 finishes turns it `ready` again. -/
theorem done_unstable_unguarded :
    let fl : Flags := { readyGuarded := false, resubmitRegisters := true, abortRechecks := true }
    let s := run fl (St.init []) [.submit 0 [] 0 false, .submit 1 [.job 0] 0 true, .step, .step,
      .deliver 0, .step, .deliver 1, .step, .deliver 1, .step, .deliver 1, .step]
    Reachable fl [] s ∧ (s.jobs 1).state = .done ∧ ((s.apply fl .step).jobs 1).state = .ready := by
  refine ⟨⟨_, rfl⟩, ?_, ?_⟩ <;> decide

/-- `launch_after_deps` (the sentence of the property): whenever an event applied to a reachable state
    increases the launch count of job `j`, every job dependency of `j` has its origin in state `done` in the
    state after the event (and, by `done_stable`, in all later states). -/
theorem launch_after_deps {fl : Flags} (hfl : fl.readyGuarded = true) {totals : List Nat} {s : St}
    (hr : Reachable fl totals s) (ev : Ev) (j : Nat)
    (hl : ((s.apply fl ev).jobs j).launches > (s.jobs j).launches)
    (d : Dep) (hd : d ∈ (s.jobs j).deps) (o : Nat) (ho : d.origin = .job o) :
    ((s.apply fl ev).jobs o).state = .done :=
  ((hr.inv hfl).apply fl hfl ev).2.launch j hl d hd o ho

/-- `launch_after_deps`, state just before the launch: a `step` event (one callback) that launches `j`
    finds `j` at `lockEnter` and every job dependency of `j` already `done` before the callback, and still
    `done` after it.  (`deliver` and `wait` never change a launch count; `submit` runs callbacks, see
    `launch_after_deps_in_submit`.) -/
theorem launch_after_deps_step {fl : Flags} (hfl : fl.readyGuarded = true) {totals : List Nat} {s : St}
    (hr : Reachable fl totals s) (j : Nat)
    (hl : ((s.apply fl .step).jobs j).launches > (s.jobs j).launches) :
    (s.jobs j).pc = .lockEnter ∧
    ∀ d ∈ (s.jobs j).deps, ∀ o, d.origin = .job o →
      (s.jobs o).state = .done ∧ ((s.apply fl .step).jobs o).state = .done :=
  (hr.inv hfl).step_launch fl hfl j hl

/-- `launch_after_deps`, inside a `submit` event (which is `St.steps` from `submitPre`, see
    `SchedDeps.apply_submit_eq`): each callback it runs that launches `j` finds every job dependency of
    `j` `done` just before and just after that callback. -/
theorem launch_after_deps_in_submit {fl : Flags} (hfl : fl.readyGuarded = true) {totals : List Nat} {s : St}
    (hr : Reachable fl totals s) (ident : Nat) (deps : List Origin) (code : Nat) (marker : Bool) (i j : Nat) :
    let a := St.steps fl (submitPre s ident deps code marker) i
    ((a.step fl).jobs j).launches > (a.jobs j).launches →
    (a.jobs j).pc = .lockEnter ∧
    ∀ d ∈ (a.jobs j).deps, ∀ o, d.origin = .job o →
      (a.jobs o).state = .done ∧ ((a.step fl).jobs o).state = .done := by
  intro a hl
  exact (Inv.steps fl hfl i ((hr.inv hfl).submitPre ident deps code marker)).1.step_launch fl hfl j hl

/-- `deliver` and `wait` events never launch. -/
theorem no_launch_by_deliver_wait (fl : Flags) (s : St) (ev : Ev) (hev : ev = .wait ∨ ∃ k, ev = .deliver k) (j : Nat) :
    ((s.apply fl ev).jobs j).launches = (s.jobs j).launches := by
  rcases hev with rfl | ⟨k, rfl⟩
  · rfl
  · simp only [St.apply]; split <;> rfl

/-- a job waiting for its locks (`pc = lockEnter`, the only place from which a launch happens) has all its
    job dependencies `done`, in every reachable state. -/
theorem lockEnter_deps_done {fl : Flags} (hfl : fl.readyGuarded = true) {totals : List Nat} {s : St}
    (hr : Reachable fl totals s) (j : Nat) (hpc : (s.jobs j).pc = .lockEnter)
    (d : Dep) (hd : d ∈ (s.jobs j).deps) (o : Nat) (ho : d.origin = .job o) : (s.jobs o).state = .done :=
  (hr.inv hfl).lockEnter_done hpc d hd o ho

/-! ### the hypotheses are satisfiable: a concrete run of the current flags -/

/-- `exS` (`Proofs/SchedDeps.lean`): job 1 depends on job 0 and on a token; job 0 is done, job 1 at `lockEnter`. -/
example : Reachable flOK [2] exS := ⟨exEvs, rfl⟩
/-- the theorems apply to the flags of the current source. -/
example : Gen.schedFlags = flOK ∧ Gen.schedFlags.readyGuarded = true := by decide
/-- the two submissions are well-formed events (`EvOK`): earlier job, existing token, positive count. -/
example : ReachableOK Gen.schedFlags [2] (((St.init [2]).apply Gen.schedFlags (.submit 0 [] 0 false)).apply
    Gen.schedFlags (.submit 1 [.job 0, .tok 0 1] 0 false)) :=
  .step (.submit 1 [.job 0, .tok 0 1] 0 false)
    (.step (.submit 0 [] 0 false) .init (by intro o ho; simp at ho))
    (by intro o ho; simp at ho; rcases ho with rfl | rfl <;> decide)
/-- the next callback launches job 1 (hypothesis of `launch_after_deps`), its dependency job 0 is `done`. -/
example : ((exS.apply flOK .step).jobs 1).launches > (exS.jobs 1).launches := by decide
example : ((exS.apply flOK .step).jobs 0).state = .done :=
  launch_after_deps (by decide) ⟨exEvs, rfl⟩ .step 1 (by decide) { origin := .job 0, cur := .ok } (by decide) 0 rfl
/-- hypothesis of `counter_sound` with a non-zero counter: job 1 asleep with one unsatisfied dependency. -/
example : let s := run flOK (St.init [2]) (exEvs.take 4)
    (s.jobs 1).pc = .evtWait ∧ (s.jobs 1).unsat = 1 ∧ (s.jobs 1).deps.map (·.cur) = [.wait, .ok] := by decide
/-- hypothesis of `done_stable`. -/
example : (exS.jobs 0).state = .done := by decide

end XpmVerif.C04
