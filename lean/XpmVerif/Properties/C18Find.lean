import XpmVerif.Proofs.SpecsLex
import XpmVerif.Model.SpecsFind
import XpmVerif.Generated.SpecsFind
/-! C18 — "alternatives are tried in the order given", for `LauncherRegistry.find`. -/
namespace XpmVerif.C18Find
open XpmVerif.Specs

/-- **what "tried in the order given" means in `find`**: the answer is launcher `l` exactly when some entry `i` of the
    flattened list makes the user function return `l` and every earlier entry made it return nothing; no later entry,
    no score and no priority can change that. -/
theorem find_first_alternative {ρ L : Type} (fn : ρ → Option L) (specs : List ρ) (l : L) :
    findLoop fn specs = some l ↔
      ∃ i, ∃ h : i < specs.length, fn specs[i] = some l ∧ ∀ j, ∀ hj : j < i, fn (specs[j]'(by omega)) = none := by
  induction specs with
  | nil => simp [findLoop]
  | cons s rest ih =>
    simp only [findLoop]
    cases hs : fn s with
    | some l' =>
      constructor
      · intro h; injection h with h; subst h
        exact ⟨0, by simp, by simpa using hs, by intro j hj; omega⟩
      · rintro ⟨i, hi, hfi, hbefore⟩
        cases i with
        | zero => simp [hs] at hfi; simp [hfi]
        | succ k => have := hbefore 0 (by omega); simp [hs] at this
    | none =>
      simp only []
      rw [ih]
      constructor
      · rintro ⟨i, hi, hfi, hbefore⟩
        refine ⟨i + 1, by simp; omega, by simpa using hfi, ?_⟩
        intro j hj
        cases j with
        | zero => simpa using hs
        | succ k => simpa using hbefore k (by omega)
      · rintro ⟨i, hi, hfi, hbefore⟩
        cases i with
        | zero => simp [hs] at hfi
        | succ k =>
          refine ⟨k, by simp at hi; omega, by simpa using hfi, ?_⟩
          intro j hj
          simpa using hbefore (j + 1) (by omega)

/-- nothing is found exactly when the user function refuses every entry. -/
theorem find_none_iff {ρ L : Type} (fn : ρ → Option L) (specs : List ρ) :
    findLoop fn specs = none ↔ ∀ s ∈ specs, fn s = none := by
  induction specs with
  | nil => simp [findLoop]
  | cons s rest ih =>
    simp only [findLoop]
    cases hs : fn s with
    | some l => simp [hs]
    | none => simp [hs, ih]

/-- **a text contributes its alternatives in the order written**: `find(text)` for the text of the request `a` (any
    padding) asks the user function about the alternatives of `a` from left to right. -/
theorem find_text_in_order {L : Type} (a : List (List Specs.Term)) (hne : a ≠ [])
    (hok : ∀ c ∈ a, c ≠ [] ∧ c.all termOK = true) (ws : Nat → List Char) (hws : ∀ i, ∀ c ∈ ws i, isWs c = true)
    (direct : L) (fn : Req → Option L) :
    registryFind true direct evalText fn [.text (renderText a ws)] = (evalAlt a).map (findLoop fn) := by
  have h : evalText (renderText a ws) = evalAlt a := by
    unfold evalText parseText
    rw [lexText_renderText a ws hws]
    simp only [Option.bind_some, parseToks]
    rw [parseAlts_render a _ hne hok (by have := renderAlts_length' a (fun c hc => (hok c hc).1); omega)]
    rfl
  simp only [registryFind, if_true, flattenSpecs, h]
  cases evalAlt a <;> simp

/-- programmatic arguments keep their position: `find(r₁, r₂, …)` asks about `r₁` first. -/
theorem find_reqs_in_order {ρ L : Type} (direct : L) (parse : String → Option (List ρ)) (fn : ρ → Option L) (rs : List ρ) :
    registryFind true direct parse fn (rs.map FindArg.req) = some (findLoop fn rs) := by
  have : flattenSpecs parse (rs.map FindArg.req) = some rs := by
    induction rs with
    | nil => rfl
    | cons r rest ih => simp [flattenSpecs, ih]
  simp [registryFind, this]

/-- non-vacuity: the second entry is taken when the first is refused, whatever comes later. -/
example : findLoop (fun n : Nat => if n % 2 = 0 then some (n * 10) else none) [3, 4, 6] = some 40 := by decide

/-! ### source obligations (about `Generated/SpecsFind.lean`, re-read from `registry.py` / `specs.py` on every run) -/

private theorem foldl_none {ρ : Type} (parse : String → Option (List ρ)) (args : List (FindArg ρ)) :
    args.foldl (genFlattenFold parse) none = none := by
  induction args with
  | nil => rfl
  | cons a rest ih => simpa [genFlattenFold] using ih

private theorem foldl_some {ρ : Type} (parse : String → Option (List ρ)) (args : List (FindArg ρ)) : ∀ acc : List ρ,
    args.foldl (genFlattenFold parse) (some acc)
      = (match flattenSpecs parse args with | some l => some (acc ++ l) | none => none) := by
  induction args with
  | nil => intro acc; simp [flattenSpecs]
  | cons a rest ih =>
    intro acc
    cases a with
    | text s =>
      simp only [List.foldl_cons, genFlattenFold, genFlattenStep, flattenSpecs]
      cases hp : parse s with
      | none => simp [foldl_none]
      | some l =>
        simp only [Option.map_some, ih]
        cases flattenSpecs parse rest <;> simp
    | req r =>
      simp only [List.foldl_cons, genFlattenFold, genFlattenStep, flattenSpecs, ih]
      cases flattenSpecs parse rest <;> simp

/-- the flattening loop of `find` in `registry.py` is `flattenSpecs`: texts contribute their alternatives in place (`extend`),
    other arguments themselves (`append`), in the order of the arguments. -/
theorem find_flatten_from_source {ρ : Type} (parse : String → Option (List ρ)) (args : List (FindArg ρ)) :
    genFlatten parse args = flattenSpecs parse args := by
  unfold genFlatten
  rw [foldl_some]
  cases flattenSpecs parse args <;> simp

/-- the search loop of `find` in `registry.py` is `findLoop` (so `find_first_alternative` is about the code). -/
theorem find_loop_from_source {ρ L : Type} (fn : ρ → Option L) (specs : List ρ) :
    genFindLoop fn specs = findLoop fn specs := by
  unfold genFindLoop
  induction specs with
  | nil => rfl
  | cons s rest ih => simp only [genFindLoopAux, findLoop, ih]; cases fn s <;> rfl

/-- without a `find_launcher` function the direct launcher is returned. -/
theorem find_nofn_from_source : genNoFnDirect = true := by decide

/-- the loop of `RequirementUnion.match` in `specs.py` is `unionLoop` (forward, strict `>`: the first of equal scores is kept),
    so `C18.union_first_match` is about the code. -/
theorem union_loop_from_source (host : Host) (reqs : List Req) (i : Nat) (acc : Option (Int × Nat)) :
    genUnionLoop host reqs i acc = unionLoop host reqs i acc := by
  unfold genUnionLoop
  induction reqs generalizing i acc with
  | nil => rfl
  | cons r rest ih =>
    simp only [genUnionLoopAux, unionLoop, ih]
    first | rfl | congr 1

end XpmVerif.C18Find
