"""Worker process of C20 part (b): real experiment runs with an instant launcher, runtime deprecation,
the real `fix_deprecated` / `deprecated list` command, snapshots of the jobs tree.

usage: python -m xv.impl.c20_worker <in.json> <out.json>
in:  {"mode": "save"|"load", "root": dir, "libs": [lib], "cases": [{"id","lib","graph","sel","root_is_task"}]}   (part (c), see below)
  or {"cases": [{"lib": lib-spec (xv.gen.cfggen format, unique package), "jobs": [jobspec], "ops": [op]}]}
jobspec: {"cls": task class, "x": int, "c": null|{"cls","a"}, "cs": [{"cls","a"}], "init": [int]}
op:  {"op":"run","jobs":[i]} | {"op":"deprecate","classes":[name]} | {"op":"fix","fix":b,"cleanup":b,"via":"api"|"cli","rel":b,
      "interrupt":null|n} | {"op":"rmdir","data":d} | {"op":"rmparams","data":d} | {"op":"breakparams","data":d} | {"op":"resubmit","jobs":[i]}
out: [{"error": str|None, "records": [one per op]}]

Deprecation is irreversible in a process, but every case brings its own freshly generated package, so one
worker runs many cases.  Nothing is spawned: processes of the instant launcher finish at once and write the
`.done` marker themselves (public Launcher / ProcessBuilder / Process extension points)."""
import json
import os
import shutil
import sys
import tempfile
import traceback
from pathlib import Path


class Interrupt(BaseException):
    """stands for Ctrl-C / kill of the repair command"""


class Real:
    def __init__(self):
        import logging
        import warnings

        logging.disable(logging.CRITICAL)
        warnings.filterwarnings("ignore")
        from experimaestro import experiment
        from experimaestro.connectors import Process, ProcessBuilder
        from experimaestro.connectors.local import LocalConnector
        from experimaestro.launchers.direct import DirectLauncher

        self.experiment = experiment
        self.LocalConnector = LocalConnector
        self.launched = []
        real = self

        class InstantProcess(Process):
            def __init__(self, script):
                self.script = Path(script)

            def wait(self):
                real.launched.append(str(self.script))
                self.script.with_suffix(".done").touch()
                (self.script.parent / "result.txt").write_text("result of " + self.script.parent.name)
                p = self.script.with_suffix(".pid")
                if p.exists():
                    p.unlink()
                return 0

            def tospec(self):
                return {"type": "local", "pid": 4194000}

        class InstantBuilder(ProcessBuilder):
            def start(self, task_mode=False):
                return InstantProcess(self.command[-1])

        class InstantLauncher(DirectLauncher):
            def processbuilder(self):
                return InstantBuilder()

        self.InstantLauncher = InstantLauncher

    def launcher(self, ws):
        return self.InstantLauncher(self.LocalConnector(Path(ws) / "conn"))


def build(mod, spec):
    """the configuration of a job spec, built with the real constructors under the current class state"""
    kw = {"x": spec["x"]}
    if spec.get("c") is not None:
        kw["c"] = getattr(mod, spec["c"]["cls"])(a=spec["c"]["a"])
    kw["cs"] = [getattr(mod, s["cls"])(a=s["a"]) for s in spec.get("cs", [])]
    if spec.get("dv") is not None:  # a parameter whose declared default is the configuration NewC0(a=1)
        kw["d"] = getattr(mod, spec["dv"]["cls"])(a=spec["dv"]["a"])
    if spec.get("dl") is not None:  # ... and one whose declared default is the list [NewC1(a=1)]
        kw["dl"] = [getattr(mod, s["cls"])(a=s["a"]) for s in spec["dl"]]
    return getattr(mod, spec["cls"])(**kw)


def canonical_spec(spec, deprecated):
    """the same job spelled with the replacement classes (only those deprecated *now*), and a parameter whose value is then
    its declared default left unset: the property's "identifier its replacement would yield" """
    def rep(name):
        while name in deprecated:
            name = {"Old2": "Old" + name[4:], "Old": "New" + name[3:]}["Old2" if name.startswith("Old2") else "Old"]
        return name

    def sub(s):
        return None if s is None else dict(s, cls=rep(s["cls"]))

    out = dict(spec, cls=rep(spec["cls"]), c=sub(spec.get("c")), cs=[sub(s) for s in spec.get("cs", [])])
    if spec.get("dv") is not None:
        out["dv"] = sub(spec["dv"])
        if out["dv"] == {"cls": "NewC0", "a": 1}:
            out["dv"] = None
    if spec.get("dl") is not None:
        out["dl"] = [sub(s) for s in spec["dl"]]
        if out["dl"] == [{"cls": "NewC1", "a": 1}]:
            out["dl"] = None
    return out


def init_tasks(mod, spec):
    return [mod.LW(v=v) for v in spec.get("init", [])]


def expected_key(mod, spec):
    """(type directory, identifier) a submission of this spec gets now: the property's "new identifier" """
    o = build(mod, spec)
    its = init_tasks(mod, spec)
    if its:
        o.__xpm__.init_tasks = its
    return [str(o.__xpmtype__.identifier), o.__xpm__.identifier.all.hex()]


def snapshot(ws: Path):
    jobs = ws / "jobs"
    out = []
    if not jobs.is_dir():
        return out
    for tdir in sorted(jobs.iterdir()):
        if tdir.is_symlink() or not tdir.is_dir():
            continue
        for p in sorted(tdir.iterdir()):
            key = [tdir.name, p.name]
            if p.is_symlink():
                tgt = os.readlink(p)
                ent = {"l": None, "raw": tgt if not tgt.startswith(str(ws)) else "<ws>" + tgt[len(str(ws)):]}
                tp = Path(tgt)
                if tp.is_absolute():
                    try:
                        parts = tp.relative_to(jobs).parts
                        if len(parts) == 2:
                            ent = {"l": list(parts)}
                    except ValueError:
                        pass
                out.append([key, ent])
            elif p.is_dir():
                df = p / "xv-data"
                data = int(df.read_text()) if df.exists() else None
                files = sorted(x.name for x in p.iterdir())
                out.append([key, {"d": data, "files": files, "params": (p / "params.json").is_file()}])
    return out


def tag_new_dirs(ws: Path, state, owner_of_path):
    """give every untagged real job directory a fresh data identifier; remember which spec produced it"""
    for key, ent in snapshot(ws):
        if "d" in ent and ent["d"] is None:
            p = ws / "jobs" / key[0] / key[1]
            d = state["next"]
            state["next"] += 1
            (p / "xv-data").write_text(str(d))
            state["spec_of"][d] = owner_of_path.get(str(p))


def dir_of_data(ws: Path, d):
    for key, ent in snapshot(ws):
        if ent.get("d") == d:
            return ws / "jobs" / key[0] / key[1]
    return None


def run_experiment(real, mod, ws, name, specs, idxs, canonical=None):
    """submit the given specs in one experiment; returns per job (index, relpath of the job, launched?, final state);
    canonical: set of deprecated classes -> the jobs are submitted in their replacement spelling"""
    if canonical is not None:
        specs = [canonical_spec(s, canonical) for s in specs]
    real.launched.clear()
    res = []
    owner = {}
    with real.experiment(ws, name, port=-1, launcher=real.launcher(ws)) as xp:
        subs = []
        seen = set()
        for i in idxs:
            o = build(mod, specs[i])
            its = init_tasks(mod, specs[i])
            t, h = expected_key(mod, specs[i])
            loc = ws / "jobs" / t / h
            if (t, h) in seen:
                # a deprecated task class and its replacement with the same parameters in one experiment: the scheduler
                # asserts `job.type == other.type` (AssertionError) -- not part of C20; the duplicate is not submitted
                res.append({"job": i, "rel": [t, h], "state": "DUPLICATE-IN-EXPERIMENT", "launched": False})
                continue
            seen.add((t, h))
            if loc.is_symlink() and not loc.exists():
                # a dangling link at the job location (its target was deleted by the history): submitting there makes the
                # scheduler's lock thread die with FileExistsError and the experiment never ends -- not part of C20; skipped
                res.append({"job": i, "rel": [t, h], "state": "SKIPPED-DANGLING-LOCATION", "launched": False})
                continue
            o.submit(init_tasks=its) if its else o.submit()
            subs.append((i, o))
        xp.wait()
        for i, o in subs:
            job = o.__xpm__.job
            owner[str(job.path)] = i
            res.append({"job": i, "rel": [str(job.relpath.parent), job.relpath.name], "state": job.state.name,
                        "launched": any(Path(s).parent == job.path for s in real.launched)})
    return res, owner


class Taps:
    """records what the two lazy `glob` calls of fix_deprecated yield; optionally interrupts the command at the
    n-th event (a yielded path = between two steps; unlink / symlink_to / rename / replace = inside a step)"""

    def __init__(self, interrupt_at=None):
        self.globs = []
        self.events = 0
        self.interrupt_at = interrupt_at
        self.interrupted = None

    def _event(self, kind):
        self.events += 1
        if self.interrupt_at is not None and self.events == self.interrupt_at:
            self.interrupted = kind
            raise Interrupt(kind)

    def __enter__(self):
        taps = self
        self.saved = {n: getattr(Path, n) for n in ("glob", "unlink", "symlink_to", "rename", "replace")}
        orig_glob = self.saved["glob"]

        def glob(self, pattern, **kw):
            if pattern != "*/*/params.json":
                yield from orig_glob(self, pattern, **kw)
                return
            rec = []
            taps.globs.append(rec)
            for p in orig_glob(self, pattern, **kw):
                taps._event("glob")
                rec.append([p.parent.parent.name, p.parent.name])
                yield p

        def wrap(name):
            orig = self.saved[name]

            def f(self, *a, **kw):
                taps._event(name)
                return orig(self, *a, **kw)

            return f

        Path.glob = glob
        for n in ("unlink", "symlink_to", "rename", "replace"):
            setattr(Path, n, wrap(n))
        return self

    def __exit__(self, *a):
        for n, f in self.saved.items():
            setattr(Path, n, f)
        return False


def do_fix(ws: Path, op):
    """the real command.  returns (globs, interrupted kind|None, error|None)"""
    from experimaestro.tools.jobs import fix_deprecated

    path = ws
    cwd = os.getcwd()
    err = None
    taps = Taps(op.get("interrupt"))
    try:
        if op.get("rel"):
            os.chdir(ws.parent)
            path = Path(ws.name)
        with taps:
            try:
                if op.get("via") == "cli":
                    from click.testing import CliRunner
                    from experimaestro.cli import cli

                    args = ["deprecated", "list"] + (["--fix"] if op["fix"] else []) + (["--cleanup"] if op["cleanup"] else []) + [str(path)]
                    r = CliRunner().invoke(cli, args, catch_exceptions=True)
                    if r.exception is not None and not isinstance(r.exception, SystemExit):
                        if isinstance(r.exception, Interrupt):
                            pass
                        else:
                            err = f"{type(r.exception).__name__}: {r.exception}"
                    elif r.exit_code != 0:
                        err = f"exit code {r.exit_code}: {r.output[-200:]}"
                else:
                    fix_deprecated(path, op["fix"], op["cleanup"])
            except Interrupt:
                pass
            except Exception as e:  # the command crashed: recorded, judged by the monitors
                err = f"{type(e).__name__}: {e}"
    finally:
        os.chdir(cwd)
    return taps.globs, taps.interrupted, err


def run_case(real, root: Path, case):
    import importlib

    from . import cfgbuild

    rec = {"error": None, "records": []}
    ws = Path(tempfile.mkdtemp(prefix="xv-c20ws-", dir=root)).resolve()
    try:
        mod = cfgbuild.load_library(case["lib"], root)
        specs = case["jobs"]
        state = {"next": 0, "spec_of": {}, "nrun": 0, "deprecated": set()}
        for op in case["ops"]:
            r = {"op": op}
            k = op["op"]
            if k == "run" or k == "resubmit":
                state["nrun"] += 1
                before = snapshot(ws)
                res, owner = run_experiment(real, mod, ws, f"e{state['nrun']}", specs, op["jobs"],
                                            canonical=set(state["deprecated"]) if op.get("canonical") else None)
                tag_new_dirs(ws, state, owner)
                r.update(before=before, jobs=res)
            elif k == "deprecate":
                for name in op["classes"]:
                    getattr(mod, name).__getxpmtype__().deprecate()
                    state["deprecated"].add(name)
                r["type_ids"] = {c["name"]: str(getattr(mod, c["name"]).__getxpmtype__().identifier) for c in case["lib"]["classes"]}
            elif k == "fix":
                r["before"] = snapshot(ws)
                # the new identifier of a job = the identifier of its replacement spelling (what the property promises);
                # `as_spelled` = the identifier of the spelling the job was submitted with (must be the same: first sentence of C20)
                r["expected"] = {str(d): expected_key(mod, canonical_spec(specs[i], state["deprecated"])) for d, i in state["spec_of"].items() if i is not None}
                r["as_spelled"] = {str(d): expected_key(mod, specs[i]) for d, i in state["spec_of"].items() if i is not None}
                globs, interrupted, err = do_fix(ws, op)
                r.update(globs=globs, interrupted=interrupted, cmd_error=err)
            elif k in ("rmdir", "rmparams", "breakparams"):
                p = dir_of_data(ws, op["data"])
                r["done"] = False
                if p is not None:
                    if k == "rmdir":
                        shutil.rmtree(p)
                        r["done"] = True
                    elif (p / "params.json").is_file():
                        if k == "rmparams":
                            (p / "params.json").unlink()
                        else:
                            params = json.loads((p / "params.json").read_text())
                            for o in params["objects"]:
                                o["module"] = "xv_no_such_module_" + o["module"]
                            (p / "params.json").write_text(json.dumps(params))
                        r["done"] = True
            else:
                raise ValueError(k)
            r["after"] = snapshot(ws)
            r["spec_of"] = {str(d): i for d, i in state["spec_of"].items()}
            rec["records"].append(r)
    except BaseException as e:  # noqa: recorded per case
        rec["error"] = f"{type(e).__name__}: {e}"
        rec["trace"] = traceback.format_exc()[-2500:]
    finally:
        shutil.rmtree(ws, ignore_errors=True)
        sys.modules.pop(case["lib"]["pkg"], None)
    return rec

# ======================================================================================= part (c): saved before the deprecation, loaded after it
# two processes per shard: mode "save" (version 1 of every generated package: the Old classes are plain classes with their own
# identifier) builds the graphs and saves them; mode "load" (version 2: the same source with `@deprecate`) loads them.


def _ids(o):
    return [o.__xpm__.full_identifier.all.hex(), o.__xpm__.raw_identifier.all.hex()]


def save_case(mod, root: Path, case):
    """builds the graph under version 1 and saves it through the three public ways"""
    import logging

    from experimaestro import RunMode, experiment, save
    from experimaestro.core.context import SerializationContext
    from experimaestro.core.serialization import state_dict

    from . import cfgbuild

    rec = {"error": None, "saved": {}, "old": None}
    d = root / "saved" / str(case["id"])
    d.mkdir(parents=True)
    try:
        objs = cfgbuild.build_graph(mod, case["graph"])
        rec["old"] = [_ids(o) for o in objs]
        try:  # state_dict of the list of all nodes: every node can be addressed after loading
            (d / "state.json").write_text(json.dumps(state_dict(SerializationContext(), list(objs))))
            rec["saved"]["state_dict"] = True
        except Exception as e:
            rec["saved"]["state_dict"] = f"{type(e).__name__}: {e}"[:200]
        try:  # experimaestro.save of the root
            (d / "save").mkdir()
            save(objs[0], d / "save")
            rec["saved"]["save"] = True
        except Exception as e:
            rec["saved"]["save"] = f"{type(e).__name__}: {e}"[:200]
        if case.get("root_is_task"):
            try:  # params.json written for a job (nothing is run)
                objs2 = cfgbuild.build_graph(mod, case["graph"])
                logging.disable(logging.CRITICAL)
                with experiment(d / "ws", "xv", port=-1, run_mode=RunMode.GENERATE_ONLY):
                    objs2[0].submit(init_tasks=list(objs2[0].__xpm__.init_tasks))
                jp = Path(objs2[0].__xpm__.job.path)
                if (jp / "params.json").is_file():
                    (d / "jobdir").write_text(str(jp))
                    rec["saved"]["params.json"] = True
                else:
                    rec["saved"]["params.json"] = "no params.json"
            except Exception as e:
                rec["saved"]["params.json"] = f"{type(e).__name__}: {e}"[:200]
    except Exception as e:
        rec["error"] = f"{type(e).__name__}: {e}"
        rec["trace"] = traceback.format_exc()[-1500:]
    return rec


def walk_pairs(fresh, loaded, index, out, seen):
    """parallel structural walk: (index of the fresh node, loaded node) for everything reachable"""
    from experimaestro import Config

    if isinstance(fresh, Config) and isinstance(loaded, Config):
        if id(fresh) in seen:
            return
        seen.add(id(fresh))
        out.append((index[id(fresh)], loaded))
        fx, lx = fresh.__xpm__, loaded.__xpm__
        for name in fresh.__xpmtype__.arguments:
            walk_pairs(fx.values.get(name), lx.values.get(name), index, out, seen)
        for a, b in zip(fx.pre_tasks, lx.pre_tasks):
            walk_pairs(a, b, index, out, seen)
        for a, b in zip(fx.init_tasks, lx.init_tasks):
            walk_pairs(a, b, index, out, seen)
        if fx.task is not None and lx.task is not None:
            walk_pairs(fx.task, lx.task, index, out, seen)
    elif isinstance(fresh, list) and isinstance(loaded, list):
        for a, b in zip(fresh, loaded):
            walk_pairs(a, b, index, out, seen)
    elif isinstance(fresh, dict) and isinstance(loaded, dict):
        for k in fresh:
            if k in loaded:
                walk_pairs(fresh[k], loaded[k], index, out, seen)


def load_case(mod, root: Path, case):
    """under version 2: the same graph built fresh (expected identifiers) and the saved ones loaded"""
    from experimaestro.core.serialization import from_state_dict, from_task_dir, load

    from . import cfgbuild

    rec = {"error": None, "variants": {}, "wrap": [], "load_errors": {}}
    d = root / "saved" / str(case["id"])
    try:
        fresh = cfgbuild.build_graph(mod, case["graph"])
        index = {id(o): i for i, o in enumerate(fresh)}
        rec["expected"] = [_ids(o) for o in fresh]
        rec["nodes"] = cfgbuild.model_graph(fresh)
        loaded_nodes = None
        if (d / "state.json").is_file():
            try:
                loaded_nodes = from_state_dict(json.loads((d / "state.json").read_text()))
                rec["variants"]["state_dict"] = [[k] + _ids(o) for k, o in enumerate(loaded_nodes)]
            except Exception as e:
                rec["load_errors"]["state_dict"] = f"{type(e).__name__}: {e}"[:300]
        for name, loader in (("save", lambda: load(d / "save")),
                             ("params.json", lambda: from_task_dir(Path((d / "jobdir").read_text())))):
            if not ((d / "save" / "definition.json").is_file() if name == "save" else (d / "jobdir").is_file()):
                continue
            try:
                pairs = []
                walk_pairs(fresh[0], loader(), index, pairs, set())
                rec["variants"][name] = [[k] + _ids(o) for k, o in pairs]
            except Exception as e:
                rec["load_errors"][name] = f"{type(e).__name__}: {e}"[:300]
        # a loaded node plugged into a freshly built task (directly, in a list, in a dict)
        if loaded_nodes is not None:
            for k in case["sel"]:
                try:
                    got = mod.Wrap(item=loaded_nodes[k], items=[loaded_nodes[k]], named={"k": loaded_nodes[k]})
                    want = mod.Wrap(item=fresh[k], items=[fresh[k]], named={"k": fresh[k]})
                    rec["wrap"].append([k, _ids(got)[0], _ids(want)[0]])
                except Exception as e:
                    rec["load_errors"][f"wrap{k}"] = f"{type(e).__name__}: {e}"[:300]
    except Exception as e:
        rec["error"] = f"{type(e).__name__}: {e}"
        rec["trace"] = traceback.format_exc()[-1500:]
    return rec


def main_versions(data):
    import logging
    import warnings

    logging.disable(logging.CRITICAL)
    warnings.filterwarnings("ignore")
    from . import cfgbuild

    root = Path(data["root"])
    root.mkdir(parents=True, exist_ok=True)
    mods = [cfgbuild.load_library(lib, root) for lib in data["libs"]]  # (re)writes <root>/<pkg>/__init__.py: version 1 or 2
    out = []
    import signal

    class CaseTimeout(BaseException):  # not an Exception: the per-step handlers of save_case / load_case let it through
        pass

    def on_alarm(signum, frame):
        raise CaseTimeout("identifier computation / save / load of the graph exceeded its time limit")

    signal.signal(signal.SIGPROF, on_alarm)
    for case in data["cases"]:
        f = save_case if data["mode"] == "save" else load_case
        # the identifier computation of the real code is exponential on some cyclic graphs (a cost, not a C20 matter): such a
        # case is recorded as an error (bounded share) instead of stalling the check.  The limit is CPU time of this process
        # (ITIMER_PROF), not wall time: a loaded machine must not turn into case errors
        signal.setitimer(signal.ITIMER_PROF, 12)
        try:
            rec = f(mods[case["lib"]], root, case)
        except CaseTimeout as e:
            rec = {"error": f"TimeoutError: {e}", "saved": {}, "old": None, "variants": {}, "wrap": [], "load_errors": {}}
        signal.setitimer(signal.ITIMER_PROF, 0)
        out.append(rec)
    Path(sys.argv[2]).write_text(json.dumps(out))


def main():
    data = json.loads(Path(sys.argv[1]).read_text())
    if data.get("mode") in ("save", "load"):
        return main_versions(data)
    root = Path(tempfile.mkdtemp(prefix="xv-c20-")).resolve()
    out = []
    import signal

    def on_alarm(signum, frame):
        raise TimeoutError("case exceeded its time limit (experiment did not end)")

    signal.signal(signal.SIGALRM, on_alarm)
    try:
        real = Real()
        for ci, case in enumerate(data["cases"]):
            signal.alarm(240)  # wall time: generous, the machine may be heavily loaded
            try:
                rec = run_case(real, root, case)
            except TimeoutError as e:
                rec = {"error": f"TimeoutError: {e}", "records": []}
            signal.alarm(0)
            out.append(rec)
            if rec["error"] and rec["error"].startswith("TimeoutError"):
                # the scheduler threads of the stuck experiment are still around: give up this worker
                out += [{"error": "worker gave up after a stuck case", "records": []} for _ in data["cases"][ci + 1:]]
                Path(sys.argv[2]).write_text(json.dumps(out))
                shutil.rmtree(root, ignore_errors=True)
                os._exit(0)
    finally:
        shutil.rmtree(root, ignore_errors=True)
    Path(sys.argv[2]).write_text(json.dumps(out))


if __name__ == "__main__":
    main()
